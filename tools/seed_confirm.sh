#!/bin/bash
# Confirm one seeded change independently of the sub-agent that produced it.
# usage: tools/seed_confirm.sh <patch.diff> <demo.py> <tag>
# Makes a scratch worktree of /repo under /tmp, runs the demo on the clean tree (must say HOLDS), applies the
# patch, runs the demo again (must say VIOLATED) and the pinned test suite (must still be 40 passed / 1 failed),
# prints a one-line verdict and removes the worktree.
set -u
patch=$(readlink -f "$1"); demo=$(readlink -f "$2"); tag=$3
wt=/tmp/confirm_$tag
git -C /repo worktree remove --force "$wt" >/dev/null 2>&1
git -C /repo worktree add --detach "$wt" HEAD -q || { echo "$tag CONFIRM-ERROR worktree"; exit 2; }
cd "$wt"
clean=$(timeout 600 /venv/bin/python "$demo" 2>&1 | grep "DEMO RESULT" | tail -1)
if ! git apply "$patch"; then echo "$tag CONFIRM-ERROR patch does not apply"; cd /; git -C /repo worktree remove --force "$wt"; exit 2; fi
patched=$(timeout 600 /venv/bin/python "$demo" 2>&1 | grep "DEMO RESULT" | tail -1)
log=$(timeout 1800 /venv/bin/python -m pytest -q -ra -p no:cacheprovider --timeout=900 2>&1)
tests=$(echo "$log" | tail -1)
failed=$(echo "$log" | grep -E "^(FAILED|ERROR)" | sed 's/ - .*//' | tr '\n' ' ')
cd /
git -C /repo worktree remove --force "$wt"
echo "$tag clean=[$clean] patched=[$patched] tests=[$tests] failed=[$failed]"
