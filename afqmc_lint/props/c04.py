"""C04 -- phaseless step: shape of the applied weight (second sentence of the property)."""

from __future__ import annotations

from typing import List, Optional

from ..model import AnalysisError
from ..rules import guard as G
from ..rules import keys, typestate as ts
from ..rules.match import (m_arrcall, m_binop, peel_guards, product_factors, sum_terms)
from ..symex import (T, array_fn, call_parts, const, getitem, show, strip_wrappers, subterms)

ID = "C04"
EXPLANATION = (
    "GUARD-1 on the resolved propagator.propagate of every class that inherits it: the value multiplied "
    "into the weights is, by reaching definitions, NaN/lower/upper-guarded |I| * cos(theta) with "
    "theta = angle(exp(B) * O_new / O_old) and I = exp(A) * O_new / O_old, where O_old is the cached "
    "overlap (coherent by C08's typestate, re-run here), O_new the trial overlap of the walkers "
    "returned by the Trotter propagator applied to the walkers the force bias was computed from, B (the "
    "mean-field phase term) is literally one of the summands of A, A also contains dt*(shift + h0_prop), "
    "and the propagator receives fields - field_shifts for the same field_shifts that enter the "
    "force-bias term. KEYS-1: mf_shifts, h0_prop, exp_h1 read by the step are written by the class's "
    "resolved _build_propagation_intermediates. SIB-2: the restricted and unrestricted builders agree "
    "on the live keys under h1[0] == h1[1] (linear value numbering; see C14). "
    "CAP-1 (Taylor series of the two-body propagator): the scan emits vhs^(k+1) w, the sum runs over "
    "exactly as many indices as the scan has outputs, output n is divided by (n+1)!, the zeroth-order "
    "term is the walker itself and the same one-body half step is applied on both sides. "
    "KEYS-1: the phaseless constant 'h0_prop' built by the propagation builders does not contain the "
    "free-projection energy zero 'ene0'. "
    " PATH-1: hamiltonian.build_propagation_intermediates / build_measurement_intermediates hand back, on every path, what the propagator's / trial's builder returns for the current ham_data (no 'already prepared' shortcut that keeps the intermediates of the previous Hamiltonian). GUARD-1 (field shift): in the Gaussian-ratio term sum(x f - f f / 2) of the importance function the raw fields x are multiplied by the very shift f that is subtracted from them before the Trotter step. "
    " COV-1 (axis-kind interpreter with a pairing count): in both propagation builders, in the phaseless step and in the free-projection step every reduction over the auxiliary-field index (sum over that axis, einsum index summed out) pairs two tensors carrying the index (mf_shifts**2, x*f - f*f/2, 'g,gik->ik'); a plain sum of one such tensor -- (sum_g s_g)**2 for sum_g s_g**2 -- changes under an orthogonal mixing of the Cholesky vectors and is reported. CACHE-1: no attribute derived from a dataclass field (sqrt(dt)) is stored at construction and read by the steps; the propagators are mutable and hashed by value, a field assigned later must take effect everywhere. "
)
NOT_DECIDED = (
    "the whole first sentence of the property: the Gaussian field average, the mean-field subtraction "
    "identity, the Trotter/Taylor order and every sign and constant inside shift_term, fb_term, h0_prop "
    "are numerical; no static claim is made for them."
)
TECHNIQUE = "static analysis: reaching-definition shape check of the importance factor, key def-before-use, typestate, axis-kind inference with a pairing count for the auxiliary-field index"


def _exp_arg(t: T) -> Optional[T]:
    a = m_arrcall(strip_wrappers(t), "exp")
    return a[0] if a else None


def _by_role(bound: dict, step) -> Optional[tuple]:
    from ..symex import sym as _sym
    other = [q.name for q in step.params if q.name not in ("self", "trial", "ham_data", "prop_data", "wave_data")]
    if len(other) != 1:
        return None
    fsym = _sym(other[0])
    pd_w = getitem(_sym("prop_data"), const("walkers"))
    wv = [v for v in bound.values() if strip_wrappers(v) is pd_w or any(x is pd_w for x in subterms(v))
          and not any(x is fsym for x in subterms(v))]
    fv = [v for v in bound.values() if any(x is fsym for x in subterms(v))]
    if len(wv) == 1 and len(fv) == 1:
        return wv[0], fv[0]
    return None


def _split_ratio(t: T):
    """exp(X) * num / den  (any association) -> (X, num, den)"""
    t = strip_wrappers(t)
    m = m_binop(t, "/")
    if m is None:
        return None
    left, den = m
    facs = [strip_wrappers(x) for x in product_factors(left)]
    exps = [x for x in facs if _exp_arg(x) is not None]
    rest = [x for x in facs if _exp_arg(x) is None]
    if len(exps) != 1 or len(rest) != 1:
        return None
    return _exp_arg(exps[0]), rest[0], strip_wrappers(den)


def run(ctx):
    from ..rules import taylor
    taylor.check(ctx)
    p = ctx.p
    base = p.func("propagation.propagator.propagate")
    classes = [q for q in p.subclasses("propagation.propagator")
               if not p.abstract_methods(q) and p.lookup_method(q, "propagate") is base]
    if not classes:
        raise AnalysisError("no class resolves propagate to propagator.propagate")
    ka = keys.key_analysis(p)
    for P in classes:
        run_ = G.StepRun(p, base, P)
        stores = run_.weight_stores()
        muls = [s for s in stores if s.kind == "mul"]
        if len(muls) != 1:
            ctx.ob("GUARD-1", f"{P}.propagate: exactly one multiplicative weight update", False,
                   f"{len(muls)} multiplicative stores", base)
            continue
        ws = muls[0]
        guards, core = peel_guards(ws.factor)
        facs = [strip_wrappers(x) for x in product_factors(core)]
        absf = [x for x in facs if x.op == "call" and array_fn(x) in ("abs", "absolute")]
        cosf = [x for x in facs if x.op == "call" and array_fn(x) == "cos"]
        shape = len(facs) == 2 and len(absf) == 1 and len(cosf) == 1
        ctx.rep.ob("GUARD-1", f"{P}.propagate: applied factor is guarded |I| * cos(theta)", shape,
                   f"core {show(core, maxdepth=2)[:100]}; guards {[g[0] for g in guards]}",
                   ws.e.frame.mod.path, ws.line)
        if not shape:
            continue
        I = strip_wrappers(call_parts(absf[0])[1][0])
        th = strip_wrappers(call_parts(cosf[0])[1][0])
        ang = m_arrcall(th, "angle")
        ctx.rep.ob("GUARD-1", f"{P}.propagate: theta is the phase angle(...)", ang is not None,
                   f"theta = {show(th, maxdepth=2)[:80]}", ws.e.frame.mod.path, ws.line)
        if ang is None:
            continue
        si = _split_ratio(I)
        st = _split_ratio(ang[0])
        ok = si is not None and st is not None
        ctx.rep.ob("GUARD-1", f"{P}.propagate: I and theta have the form exp(.) * O_new / O_old", ok,
                   "" if ok else f"I = {show(I, maxdepth=3)[:100]}", ws.e.frame.mod.path, ws.line)
        if not ok:
            continue
        A, numI, denI = si
        B, numT, denT = st
        same_ratio = numI is numT and denI is denT
        ctx.rep.ob("GUARD-1", f"{P}.propagate: I and theta use the same overlap ratio", same_ratio,
                   "same reaching definitions" if same_ratio else
                   f"I uses {show(numI, maxdepth=1)}/{show(denI, maxdepth=1)}, theta uses "
                   f"{show(numT, maxdepth=1)}/{show(denT, maxdepth=1)}", ws.e.frame.mod.path, ws.line)
        is_cached = denI.uid in run_.overlap_loads
        ctx.rep.ob("GUARD-1", f"{P}.propagate: the denominator is the cached overlap", is_cached,
                   f"denominator {show(denI, maxdepth=2)[:60]}", ws.e.frame.mod.path, ws.line)
        # numerator: overlap of the propagated walkers
        new_ok, why = False, ""
        w_old = getitem(run_.frame.env.vars.get("prop_data", None) or denI, const("walkers")) \
            if False else None
        if numI.op == "call" and numI.args[0].op == "attr" and numI.args[0].args[1] == "calc_overlap":
            wn = strip_wrappers(call_parts(numI)[1][0])
            if wn.op == "call" and wn.args[0].op == "attr" and wn.args[0].args[1] == "_apply_trotprop":
                _, pos, _ = call_parts(wn)
                # by the parameter they bind to (walkers / fields of the class's Trotter step), wherever those stand
                b_ = run_.ev.call_binding(wn, None, cls=P if "." in P else "propagation." + P)
                if b_ is not None and "walkers" in b_ and "fields" in b_:
                    w_old, shifted = b_["walkers"], b_["fields"]
                elif b_ is not None and _by_role(b_, base) is not None:
                    # parameters of the Trotter step under other names: the walkers are the argument read from
                    # prop_data['walkers'], the fields the argument that depends on the step's own field parameter
                    w_old, shifted = _by_role(b_, base)
                else:
                    w_old = pos[1] if len(pos) > 1 else None
                    shifted = pos[2] if len(pos) > 2 else None
                new_ok = True
                # force bias from the same (old) walkers
                fbs = [x for x in subterms(shifted) if x.op == "call" and x.args[0].op == "attr"
                       and x.args[0].args[1] == "calc_force_bias"]
                fbs_all = [x for x in subterms(ws.factor) if x.op == "call" and x.args[0].op == "attr"
                           and x.args[0].args[1] == "calc_force_bias"]
                fb_same = bool(fbs) and all(call_parts(x)[1][0] is w_old for x in fbs + fbs_all)
                ctx.rep.ob("GUARD-1", f"{P}.propagate: force bias computed from the walkers that are propagated",
                           fb_same, "calc_force_bias(W_old) with W_old the Trotter input" if fb_same else
                           "force bias and Trotter step see different walkers", ws.e.frame.mod.path, ws.line)
                # shifted fields = fields - field_shifts, same field_shifts in fb_term
                ms = m_binop(strip_wrappers(shifted), "-")
                fs_ok = False
                if ms is not None:
                    field_shifts = ms[1]
                    fs_ok = any(x is field_shifts for x in subterms(A))
                    # the Gaussian-ratio term  sum(x * f - f * f / 2)  must be written with the very shift f that is
                    # subtracted from the fields: collect what the raw fields x are multiplied by inside the exponent
                    raw = strip_wrappers(ms[0])
                    partners = []
                    for x in subterms(A):
                        if x.op == "binop" and x.args[0] == "*":
                            a_, b_ = strip_wrappers(x.args[1]), strip_wrappers(x.args[2])
                            if a_ is raw:
                                partners.append(b_)
                            elif b_ is raw:
                                partners.append(a_)
                    if partners and not all(q is strip_wrappers(field_shifts) for q in partners):
                        fs_ok = False
                ctx.rep.ob("GUARD-1", f"{P}.propagate: the field shift applied to the walkers is the one "
                           f"compensated in I", fs_ok, "fields - field_shifts, field_shifts in the exponent"
                           if fs_ok else "shifted fields and the force-bias term use different shifts",
                           ws.e.frame.mod.path, ws.line)
            else:
                why = "new overlap is not computed on the output of the Trotter propagator"
        else:
            why = "numerator is not trial.calc_overlap(...)"
        ctx.rep.ob("GUARD-1", f"{P}.propagate: the numerator is the overlap of the propagated walkers",
                   new_ok, why or "calc_overlap(_apply_trotprop(ham, W_old, fields - shifts))",
                   ws.e.frame.mod.path, ws.line)
        # B is a summand of A
        a_terms = [strip_wrappers(x) for _, x in sum_terms(A)]
        b_terms = sum_terms(B)
        a_signed = sum_terms(A)
        b_in_a = all(any(sa == sb and strip_wrappers(xa) is strip_wrappers(xb) for sa, xa in a_signed)
                     for sb, xb in b_terms)
        ctx.rep.ob("GUARD-1", f"{P}.propagate: the mean-field phase removed in theta is the one applied in I",
                   b_in_a, "exponent of theta is a summand of the exponent of I" if b_in_a else
                   f"theta exponent {show(B, maxdepth=3)[:80]} does not occur in I's exponent",
                   ws.e.frame.mod.path, ws.line)
        # dt * (shift + h0_prop)
        es_ok = False
        for x in a_terms:
            facs2 = [strip_wrappers(y) for y in product_factors(x)]
            if any(y.op == "attr" and y.args[1] == "dt" for y in facs2):
                inner = [y for y in facs2 if not (y.op == "attr" and y.args[1] == "dt")]
                if len(inner) == 1:
                    ks = set()
                    for _, z in sum_terms(inner[0]):
                        z = strip_wrappers(z)
                        if z.op == "getitem" and z.args[1].op == "const":
                            ks.add(z.args[1].args[0])
                    if ks == {"pop_control_ene_shift", "h0_prop"}:
                        es_ok = True
        ctx.rep.ob("GUARD-1", f"{P}.propagate: I contains exp(dt * (pop_control_ene_shift + h0_prop))", es_ok,
                   "energy shift and mean-field constant enter with the time step", ws.e.frame.mod.path,
                   ws.line)
        # guards (shape) and the product clip
        kinds = {g[0] for g in guards}
        bad = [G.guard_shape_ok(g)[1] for g in guards if not G.guard_shape_ok(g)[0]]
        need = [n for n, k in (("NaN", {"isnan"}), ("lower", {"<", "<="}), ("upper", {">", ">="}))
                if not (kinds & k)]
        ctx.rep.ob("GUARD-1", f"{P}.propagate: NaN / below-window / above-window guards present and well-formed",
                   not need and not bad, "; ".join([f"missing {n}" for n in need] + bad) or
                   f"guards {sorted(kinds)}", ws.e.frame.mod.path, ws.line)
        idx = stores.index(ws)
        nxt = [s for s in stores[idx + 1:] if s.kind == "guard"]
        ctx.rep.ob("GUARD-1", f"{P}.propagate: the product is clipped from above", any(
            s.guard[0] in (">", ">=") and G.guard_shape_ok(s.guard)[0] for s in nxt),
            "where(w > hi, 0, w) after the multiply", ws.e.frame.mod.path, ws.line)
        # KEYS-1
        reads = keys.reads_of(ka, P, ["propagate"], "ham_data")
        w = keys.writes_of(ka, P, "_build_propagation_intermediates", "ham_data")
        inputs = input_ham_keys(ctx)
        tk = keys.trial_built_keys(ka)     # what the step reads through the trial is the trial builder's business (C02/C03)
        missing = sorted(k for k in reads if k not in w and k not in inputs and k not in tk)
        ctx.ob("KEYS-1", f"{P}: ham_data keys read by the step are built", not missing,
               f"read but never written: {missing}" if missing else
               f"reads {sorted(reads)}; builder writes {sorted(w)}", base)
        for k in ("mf_shifts", "h0_prop", "exp_h1"):
            ctx.ob("KEYS-1", f"{P}: '{k}' produced by the resolved propagation builder", k in w,
                   "written on every path" if k in w else f"'{k}' is not written by "
                   f"{p.lookup_method(P, '_build_propagation_intermediates').qualname}", base)
        # the energy zero 'ene0' belongs to free projection (it keeps the un-normalised weights in range); the phaseless
        # importance function measures energies from pop_control_ene_shift, so its constant must not contain ene0
        bfi = p.lookup_method(P, "_build_propagation_intermediates")
        if bfi is not None and not P.split(".")[-1].startswith("propagator_cpmc"):
            from ..symex import Evaluator as _Ev, sym as _sym, subterms as _sub
            from ..rules import common as _common
            _common.per_spin_one_body(ctx, P, bfi)
            _ev = _Ev(p)
            _rb = _ev.result(_ev.eval_function(bfi, self_class=P))
            if _rb is not None:
                _v = getitem(_rb, const("h0_prop"))
                _e0 = getitem(_sym("ham_data"), const("ene0"))
                if _v.op == "getitem" and _v.args[0] is _rb:
                    ctx.rep.note(f"{P}: value stored under 'h0_prop' not found in the builder; ene0 rule not applicable")
                else:
                    ctx.ob("KEYS-1", f"{P}: the phaseless constant 'h0_prop' does not contain the free-projection energy "
                           f"zero 'ene0'", not any(x is _e0 for x in _sub(_v)),
                           "h0_prop is built from h0 and the mean-field shifts only", bfi)
        # typestate for the denominator (C08)
        rep = ts.rep_change_functions(p)
        r = ts.analyse_run(ts.TSRun(p, p.func("sampling.sampler.propagate_phaseless"), P, rep))
        badr = [(e.line, k) for e, k, okr, why in r.reads if not okr]
        ctx.ob("TS-3", f"sampler.propagate_phaseless x {P}: cached overlap coherent at every read", not badr,
               f"stale reads at {badr}" if badr else f"{len(r.reads)} reads COH/LAG", base)
    wrappers_delegate(ctx)
    aux_index_contracted(ctx, classes, base)
    no_derived_cache(ctx, classes)
    try:
        from . import c14
        c14.builder_agreement(ctx)
    except ImportError:
        ctx.rep.note("builder sibling agreement (SIB-2) not available yet")


def no_derived_cache(ctx, classes):
    """CACHE-1.  The propagator objects are mutable dataclasses hashed by the values of their fields: assigning
    `prop.dt = ...` on an existing object (a time-step ladder) makes jit retrace and every `self.dt` read takes the new
    value.  A quantity derived from a field and stored at construction (`self.sqrt_dt = sqrt(self.dt)` in __post_init__)
    keeps the old value: the step then mixes sqrt(dt_old) in the field shifts with dt_new in the constant and the one-body
    propagator.  Positive witness: an attribute assigned in __post_init__ / __init__ from a declared field and read by
    another method."""
    import ast as _ast
    p = ctx.p
    seen_cls = []
    for P in classes:
        for q in p.classes[P].mro if P in p.classes else []:
            if q in p.classes and p.classes[q].module == "propagation" and q not in seen_cls:
                seen_cls.append(q)
    fields = set()
    for q in seen_cls:
        fields |= {f.name for f in p.classes[q].own_fields}
    derived = {}
    for q in seen_cls:
        for mname in ("__post_init__", "__init__"):
            m = p.classes[q].methods.get(mname)
            if m is None or m.node is None:
                continue
            for st in _ast.walk(m.node):
                if isinstance(st, _ast.Assign):
                    for tg in st.targets:
                        if isinstance(tg, _ast.Attribute) and isinstance(tg.value, _ast.Name) and tg.value.id == "self":
                            src = {n_.attr for n_ in _ast.walk(st.value) if isinstance(n_, _ast.Attribute) and
                                   isinstance(n_.value, _ast.Name) and n_.value.id == "self" and n_.attr in fields
                                   and n_.attr != tg.attr}
                            if src:
                                derived[tg.attr] = (q, mname, st.lineno, sorted(src))
    bad = []
    for q in seen_cls:
        for mname, m in p.classes[q].methods.items():
            if mname in ("__post_init__", "__init__") or m.node is None:
                continue
            for n_ in _ast.walk(m.node):
                if isinstance(n_, _ast.Attribute) and isinstance(n_.ctx, _ast.Load) and isinstance(n_.value, _ast.Name) and \
                        n_.value.id == "self" and n_.attr in derived:
                    d = derived[n_.attr]
                    bad.append(f"{q.split('.')[-1]}.{mname} line {n_.lineno} reads self.{n_.attr}, stored by "
                               f"{d[0].split('.')[-1]}.{d[1]} (line {d[2]}) from self.{', self.'.join(d[3])}: stale once "
                               f"that field is assigned on the object")
    ctx.ob("CACHE-1", "propagators: no quantity derived from a field is cached at construction and read by the steps",
           not bad, "; ".join(bad[:2]) or f"{len(seen_cls)} classes, {len(derived)} derived attribute(s) stored at construction, "
           f"none read elsewhere", mod="propagation", line=1)


def aux_index_contracted(ctx, classes, base):
    """COV-1 (rules/covariance.py): in the propagation builders and in the phaseless step the auxiliary-field index is
    eliminated by pairing two tensors that carry it, never by a plain sum of one."""
    from ..rules.covariance import CovEngine
    from ..symex import Evaluator as _Ev, sym as _sym, subterms as _sub, mk as _mk
    p = ctx.p
    HD, WD = _sym("ham_data"), _sym("wave_data")

    def reductions(eng, root):
        for x in _sub(root):
            if x.op == "call":
                fn = array_fn(x)
                f = x.args[0]
                if fn in ("sum", "einsum") or (fn is None and f.op == "attr" and f.args[1] == "sum"):
                    eng.k(x)

    def report(eng, what, fi):
        judged = [r for r in eng.reductions if r[2] is not None]
        if not eng.reductions:
            ctx.rep.note(f"{what}: no reduction over the auxiliary-field axis could be typed; COV-1 does not apply")
            return
        ctx.ob("COV-1", f"{what}: the auxiliary-field index is eliminated by contraction only", not eng.violations,
               "; ".join(msg for _, msg in eng.violations[:2]) or
               f"{len(judged)} reduction(s) over the auxiliary axis pair two tensors carrying it, "
               f"{len(eng.reductions) - len(judged)} not judged", fi)

    seen = set()
    for P in classes:
        bfi = p.lookup_method(P, "_build_propagation_intermediates")
        if bfi is None or bfi.qualname in seen or P.split(".")[-1].startswith("propagator_cpmc"):
            continue
        seen.add(bfi.qualname)
        ev = _Ev(p)
        R = ev.result(ev.eval_function(bfi, self_class=P))
        if R is None:
            continue
        norb = _mk("attr", _sym("trial"), "norb")
        seeds = {getitem(HD, const("chol")): ("G", "F"), getitem(HD, const("h1")): ("S", "O", "O"),
                 getitem(WD, const("rdm1")): ("S", "O", "O")}
        eng = CovEngine(ev, seeds, norb_terms=[norb])
        reductions(eng, R)
        report(eng, bfi.qualname, bfi)
    # the steps: fields (W, G), force bias (W, G), mean-field shifts (G,) / per-spin (S, G)
    steps = [(classes[0], base)] if classes else []
    for P in classes:
        ffi = p.lookup_method(P, "propagate_free")
        if ffi is not None and all(ffi is not f_ for _, f_ in steps) and ffi.node is not None and \
                not P.split(".")[-1].startswith("propagator_cpmc"):
            steps.append((P, ffi))
    for P, sfi in steps:
        try:
            run_ = G.StepRun(p, sfi, P)
        except AnalysisError:
            continue
        root = run_.result
        if root is None:
            continue
        seeds = {_sym("fields"): ("W", "G"), getitem(HD, const("mf_shifts")): ("G",)}
        mfp = p.lookup_method(P, "_build_propagation_intermediates")
        if sfi is not base and mfp is not None:
            # per-spin shifts of the free-projection step: (S, G) when the builder stacks them, (G,) otherwise
            ev2 = _Ev(p)
            R2 = ev2.result(ev2.eval_function(mfp, self_class=P))
            v = strip_wrappers(getitem(R2, const("mf_shifts_fp"))) if R2 is not None else None
            if v is not None and v.op == "call" and array_fn(v) in ("stack", "array"):
                seeds[getitem(HD, const("mf_shifts_fp"))] = ("S", "G")
            elif v is not None and not (v.op == "getitem" and v.args[0] is R2):
                seeds[getitem(HD, const("mf_shifts_fp"))] = ("G",)
        for x in _sub(root):
            if x.op == "call" and x.args[0].op == "attr" and x.args[0].args[1] == "calc_force_bias":
                seeds[x] = ("W", "G")
        eng = CovEngine(run_.ev, seeds)
        reductions(eng, root)
        report(eng, f"{sfi.qualname}", sfi)


def wrappers_delegate(ctx):
    """PATH-1.  hamiltonian.build_propagation_intermediates / build_measurement_intermediates are what the samplers
    call after every edit of the Hamiltonian (each AD block changes h1 or chol): on *every* path they must hand back
    what the propagator's / trial's builder returns for the current ham_data.  A path that returns without calling the
    builder (an "already prepared" shortcut) leaves exp_h1, the mean-field shifts and h0_prop of the previous
    Hamiltonian in place."""
    from ..symex import Evaluator as _Ev, subterms as _sub
    p = ctx.p
    for wname, callee in (("build_propagation_intermediates", "_build_propagation_intermediates"),
                          ("build_measurement_intermediates", "_build_measurement_intermediates")):
        fi = p.lookup_method("hamiltonian.hamiltonian", wname)
        if fi is None:
            ctx.rep.note(f"hamiltonian.{wname} not found; delegation rule not applicable")
            continue
        ev = _Ev(p)
        ev.auto_inline_helpers = True
        fr = ev.eval_function(fi)
        leaves = [(pth, t_, ln) for pth, kind, t_, ln in ev.leaves(fr) if kind == "return"]
        bad = []
        for pth, t_, ln in leaves:
            if not any(x.op == "call" and x.args[0].op == "attr" and x.args[0].args[1] == callee for x in _sub(t_)):
                bad.append(ln)
        ctx.ob("PATH-1", f"hamiltonian.{wname}: every path returns what {callee} builds for the current ham_data",
               bool(leaves) and not bad, f"{len(leaves)} return path(s)" + (f"; path(s) at line {bad} return without calling "
                                                                          f"the builder" if bad else ""), fi)


def input_ham_keys(ctx) -> dict:
    """Keys of ham_data that are inputs: written by mpi_jax._prep_afqmc, plus the lattice-model
    keys supplied by user scripts (frozen table with reasons)."""
    import ast

    out = {
        "u": "Hubbard U: set by user scripts for lattice models (examples/hubbard.ipynb)",
        "u_1": "nearest-neighbour interaction: user scripts (examples/extended_hubbard.py)",
        "hs_constant": "continuous-HS constant for propagator_cpmc_continuous: user scripts",
    }
    fi = ctx.p.func("mpi_jax._prep_afqmc")
    # the Hamiltonian dictionary is the local dict that receives both 'h0' and 'chol' (whatever it is called)
    stores: dict = {}
    for nd in ast.walk(fi.node):
        if isinstance(nd, ast.Assign):
            for t in nd.targets:
                if isinstance(t, ast.Subscript) and isinstance(t.value, ast.Name) and isinstance(t.slice, ast.Constant) \
                        and isinstance(t.slice.value, str):
                    stores.setdefault(t.value.id, set()).add(t.slice.value)
    for name, ks in stores.items():
        if {"h0", "chol"} <= ks:
            for k in ks:
                out[k] = "written by mpi_jax._prep_afqmc"
    if "h0" not in out or "chol" not in out:
        raise AnalysisError("_prep_afqmc no longer writes the Hamiltonian input keys")
    return out
