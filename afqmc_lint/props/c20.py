"""C20 -- lattices: pytree alignment, constructibility, site numbering, neighbours."""

from __future__ import annotations

import ast
from fractions import Fraction
from itertools import product
from typing import Dict, List, Optional, Tuple

from ..model import AnalysisError, ClassInfo, FuncInfo, dotted
from ..symex import (T, Evaluator, array_fn, call_parts, const, func_name, is_const, mk, show,
                     strip_wrappers, subterms, substitute, sym)

ID = "C20"


class Unmodelled(Exception):
    """A lattice routine is written in a form the rule has no model for: the rule instance is skipped with a note (the
    anchor -- the class and the method -- is still there; an AnalysisError is kept for anchors that vanished)."""

EXPLANATION = (
    "Static class-table and def-use analysis of ad_afqmc/lattices.py: LAT-1 every dataclass field "
    "is either re-derived unconditionally by __post_init__ or carried by tree_flatten into its own "
    "constructor slot by tree_unflatten; LAT-2 every concrete lattice implements the abstract "
    "interface, is hashable for jit static use, its __hash__ names only existing fields, and no "
    "statement iterates over an int-typed field; LAT-3 the site list decode (// and % chains) and "
    "get_site_num / create_adjacency_matrix linear forms are inverse mixed-radix maps over the same "
    "fields; LAT-4 the neighbour offsets are closed under negation (with row-parity flip in the open "
    "triangular branch), each axis is reduced modulo the field that is its radix, adjacency entries "
    "are written as (i,j)/(j,i) pairs behind a 0 <= n < extent bounds test; LAT-5 the number of "
    "distinct offsets equals the declared coordination number. "
    "LAT-4: a neighbour coordinate that can leave its axis (open boundary) is range-checked per "
    "coordinate before it is flattened into a site number. tree_unflatten bodies with local unpacking / "
    "star-args of composite fields and row-major site lists (np.ndindex, itertools.product) are "
    "modelled. "
    "LAT-2: hash() is called only inside __hash__ methods (a hash value is not an identity and must not "
    "key a cache of lattice data). LAT-4 also reads bounds tests written as one boolean mask over the "
    "neighbour coordinate arrays, neighbour lists filtered inside get_nearest_neighbors, and an adjacency "
    "builder that create_adjacency_matrix delegates to; LAT-1 follows tree_flatten / tree_unflatten "
    "inherited from a base class and *self.<tuple of fields> in the flattened data. "
    ' LAT-4: a bounds test written as all(0 <= c < n for c, n in zip(coords, shape)) is read as the per-coordinate tests it stands for. A routine written in a form a rule family has no model for (site list built another way, adjacency builder delegating to a generic helper) removes that class from that family with a note in the evidence; the other classes and families are still judged. '
    ' LAT-1 (idempotence): a dataclass field that tree_flatten carries into its own constructor slot is not recomputed from its own value in __post_init__ outside an `is None` guard (tree_unflatten runs __post_init__ again on every round trip). get_site_num may be written in Horner form (a field monomial times a linear form distributes). '
    ' Neighbour tuples written as a list copy of the position with one component replaced, and a site enumeration moved into a module-level helper called with self.shape, are read as the coordinate tuples / comprehension they stand for (LAT-3 / LAT-4 keep judging). '
    ' LAT-1 (memoised values): a cached_property / lru_cache value of a lattice is not returned uncopied (shared mutable state outside the pytree). '
)
NOT_DECIDED = (
    "value-dependent graph facts (regularity / irreflexivity for particular side lengths, degree "
    "bounds at an open boundary) are consequences of the checked offset sets and are not re-proved."
)

MOD = "lattices"


def _self_attr(n: ast.AST) -> Optional[str]:
    if isinstance(n, ast.Attribute) and isinstance(n.value, ast.Name) and n.value.id == "self":
        return n.attr
    return None


def lattice_classes(ctx) -> List[ClassInfo]:
    mod = ctx.p.module(MOD)
    _MODULE_TREES[MOD] = mod.tree
    base = ctx.p.cls(f"{MOD}.lattice")
    out = [ctx.p.classes[q] for q in ctx.p.subclasses(base.qualname, include_self=False)]
    if not out:
        raise AnalysisError("no lattice subclasses found")
    skip = getattr(ctx, "_c20_skip", set())
    return [c for c in out if c.qualname not in skip]


def _per_class(ctx, rule, label: str):
    """Run one rule family over the lattice classes; a class whose routine is written in a form the rule does not model
    is left out of that family with a note (its other classes, and the class's other rule families, are still judged)."""
    ctx._c20_skip = set()
    all_q = sorted((c.qualname for c in lattice_classes(ctx)), key=len, reverse=True)
    for _ in range(len(all_q) + 1):
        n_ob, n_no, cnt = len(ctx.rep.obligations), len(ctx.rep.notes), dict(ctx.rep.counters)
        try:
            rule(ctx)
            break
        except Unmodelled as u:
            msg = str(u)
            cls = next((q for q in all_q if msg.startswith(q)), None)
            del ctx.rep.obligations[n_ob:]
            del ctx.rep.notes[n_no:]
            ctx.rep.counters.clear()
            ctx.rep.counters.update(cnt)
            if cls is None or cls in ctx._c20_skip:
                ctx.rep.note(f"{label}: {msg}; rule family not applicable to this shape of the code")
                break
            ctx._c20_skip.add(cls)
            ctx._c20_notes = getattr(ctx, "_c20_notes", []) + [f"{label}: {msg}; {cls} is not judged by this rule family"]
        except AnalysisError as a:
            if ctx._c20_skip and "matched n" in str(a):
                break          # every class was left out with a note
            raise
    for m_ in getattr(ctx, "_c20_notes", []):
        ctx.rep.note(m_)
    ctx._c20_notes = []
    ctx._c20_skip = set()


# ---------------------------------------------------------------- LAT-1


def _always_assigned(stmts: List[ast.stmt]) -> set:
    """self.<f> names assigned on every path through stmts (structured walk)."""
    out = set()
    for st in stmts:
        if isinstance(st, (ast.Assign, ast.AnnAssign, ast.AugAssign)):
            targets = st.targets if isinstance(st, ast.Assign) else [st.target]
            for t in targets:
                for n in ast.walk(t):
                    a = _self_attr(n)
                    if a and isinstance(getattr(n, "ctx", None), ast.Store):
                        out.add(a)
        elif isinstance(st, ast.If):
            a = _always_assigned(st.body)
            b = _always_assigned(st.orelse)
            out |= a & b
        elif isinstance(st, (ast.With,)):
            out |= _always_assigned(st.body)
        elif isinstance(st, ast.Try):
            out |= _always_assigned(st.finalbody)
        elif isinstance(st, (ast.Return, ast.Raise)):
            break
    return out


def _post_init_tuple(ci: ClassInfo, attr: Optional[str]) -> Optional[List[Optional[str]]]:
    """a derived attribute that __post_init__ defines as a tuple of fields: self.shape = (self.l_y, self.l_x)"""
    post = ci.methods.get("__post_init__")
    if attr is None or post is None:
        return None
    found = None
    for st in post.real_body():
        if isinstance(st, ast.Assign) and len(st.targets) == 1 and _self_attr(st.targets[0]) == attr:
            found = st.value
    if isinstance(found, ast.Tuple):
        return [_self_attr(e) for e in found.elts]
    return None


def _flatten_lists(ctx, ci: ClassInfo) -> Tuple[Optional[List[Optional[str]]], Optional[List[Optional[str]]], str]:
    """(children field names, aux field names) returned by tree_flatten; None entries = not a plain self.<f>."""
    fl = ci.methods.get("tree_flatten") or ctx.p.lookup_method(ci.qualname, "tree_flatten")
    if fl is None:
        return None, None, "no tree_flatten"
    from ..model import norm, returned_values

    class _R:      # uniform access to the returned expression
        def __init__(self, v):
            self.value = v
    rets = [_R(v_) for _, v_ in returned_values(norm(fl.node))]
    if len(rets) != 1 or not isinstance(rets[0].value, ast.Tuple) or len(rets[0].value.elts) != 2:
        raise Unmodelled(f"{ci.qualname}.tree_flatten: unmodelled return shape")

    def names(node) -> List[Optional[str]]:
        if isinstance(node, (ast.Tuple, ast.List)):
            out: List[Optional[str]] = []
            for e in node.elts:
                if isinstance(e, ast.Starred):
                    # *self.shape, where __post_init__ sets self.shape = (self.l_y, self.l_x): the fields, in that order
                    comp = _post_init_tuple(ci, _self_attr(e.value))
                    if comp is None:
                        raise Unmodelled(f"{ci.qualname}.tree_flatten: unmodelled *{ast.unparse(e.value)}")
                    out.extend(comp)
                else:
                    out.append(_self_attr(e))
            return out
        if isinstance(node, ast.Call):
            fn = dotted(node.func) or ""
            if fn.endswith("astuple") and len(node.args) == 1 and isinstance(node.args[0], ast.Name):
                return [f.name for f in ctx.p.dataclass_fields(ci.qualname)]
            if fn == "tuple" and len(node.args) == 1:
                g = node.args[0]
                # tuple(getattr(self, f.name) for f in fields(self))
                if isinstance(g, (ast.GeneratorExp, ast.ListComp)) and len(g.generators) == 1:
                    it = g.generators[0].iter
                    if isinstance(it, ast.Call) and (dotted(it.func) or "").endswith("fields"):
                        e = g.elt
                        if isinstance(e, ast.Call) and dotted(e.func) == "getattr":
                            return [f.name for f in ctx.p.dataclass_fields(ci.qualname)]
                return names(g)
            # a module-level helper applied to self whose body is one return: what it returns, read with its
            # parameter standing for self
            if isinstance(node.func, ast.Name) and len(node.args) == 1 and not node.keywords and \
                    isinstance(node.args[0], ast.Name) and node.args[0].id == "self":
                hf = ctx.p.module(MOD).functions.get(node.func.id)
                if hf is not None and len(hf.params) == 1 and len(hf.real_body()) == 1 and \
                        isinstance(hf.real_body()[0], ast.Return) and hf.real_body()[0].value is not None:
                    import copy
                    pn = hf.params[0].name

                    class Ren(ast.NodeTransformer):
                        def visit_Name(self, n):
                            return ast.copy_location(ast.Name(id="self", ctx=n.ctx), n) if n.id == pn else n
                    return names(Ren().visit(copy.deepcopy(hf.real_body()[0].value)))
        raise Unmodelled(f"{ci.qualname}.tree_flatten: unmodelled container {ast.unparse(node)}")

    ch, aux = rets[0].value.elts
    return names(ch), names(aux), ""


def _unflatten_slots(ctx, ci: ClassInfo, children: List, aux: List) -> Dict[str, Optional[str]]:
    """field slot -> name of the flattened attribute it receives (None: unknown expr)."""
    un = ci.methods.get("tree_unflatten") or ctx.p.lookup_method(ci.qualname, "tree_unflatten")
    if un is None:
        raise AnalysisError(f"{ci.qualname}: tree_flatten without tree_unflatten")
    pos = [p.name for p in un.params if p.kind == "pos"]
    if not un.is_classmethod or len(pos) != 3:
        raise AnalysisError(f"{ci.qualname}.tree_unflatten: not classmethod(cls, aux, children)")
    cls_name, aux_name, ch_name = pos
    from ..model import returned_values
    rets = [v_ for _, v_ in returned_values(un.node)]
    if len(rets) != 1 or not isinstance(rets[0], ast.Call):
        raise Unmodelled(f"{ci.qualname}.tree_unflatten: unmodelled body")
    c = rets[0]
    if not (isinstance(c.func, ast.Name) and c.func.id == cls_name):
        raise Unmodelled(f"{ci.qualname}.tree_unflatten: does not call cls(...)")
    fields = [f.name for f in ctx.p.dataclass_fields(ci.qualname)]
    # straight-line locals of the body:  a, b, c = aux_data   /   x = aux_data[0]
    local: Dict[str, Optional[str]] = {}

    def seq(node) -> Optional[List[Optional[str]]]:
        if isinstance(node, ast.Name):
            if node.id == aux_name:
                return list(aux)
            if node.id == ch_name:
                return list(children)
        if isinstance(node, ast.Subscript):
            base = seq(node.value)
            if base is None:
                return None
            sl = node.slice
            if isinstance(sl, ast.Slice):
                def iv(x):
                    if x is None:
                        return None
                    v = ast.literal_eval(x) if isinstance(x, (ast.Constant, ast.UnaryOp)) else None
                    if not isinstance(v, int):
                        raise Unmodelled("non-literal slice in tree_unflatten")
                    return v
                return base[slice(iv(sl.lower), iv(sl.upper), iv(sl.step))]
        return None

    def elem(node) -> Optional[str]:
        if isinstance(node, ast.Name) and node.id in local:
            return local[node.id]
        if isinstance(node, ast.Subscript):
            base = seq(node.value)
            if base is not None and isinstance(node.slice, ast.Constant) and isinstance(
                    node.slice.value, int):
                i = node.slice.value
                if -len(base) <= i < len(base):
                    return base[i]
        return None

    for st in un.real_body():
        if isinstance(st, ast.Assign) and len(st.targets) == 1:
            tg = st.targets[0]
            if isinstance(tg, (ast.Tuple, ast.List)) and all(isinstance(e, ast.Name) for e in tg.elts):
                src = seq(st.value)
                if src is None or len(src) != len(tg.elts):
                    raise Unmodelled(f"{ci.qualname}.tree_unflatten: unmodelled unpacking {ast.unparse(st)}")
                for e, v in zip(tg.elts, src):
                    local[e.id] = v
            elif isinstance(tg, ast.Name):
                local[tg.id] = elem(st.value)

    def composite(attr: Optional[str]) -> Optional[List[Optional[str]]]:
        """a flattened attribute that __post_init__ defines as a tuple of fields: self.shape = (self.l_y, self.l_x)"""
        post = ci.methods.get("__post_init__")
        if attr is None or post is None:
            return None
        found = None
        for st in post.real_body():
            if isinstance(st, ast.Assign) and len(st.targets) == 1 and _self_attr(st.targets[0]) == attr:
                found = st.value
        if isinstance(found, ast.Tuple):
            return [_self_attr(e) for e in found.elts]
        return None

    args: List[Optional[str]] = []
    for a in c.args:
        if isinstance(a, ast.Starred):
            s = seq(a.value)
            if s is None and isinstance(a.value, ast.Name) and a.value.id in local:
                s = composite(local[a.value.id])
            if s is None:
                raise Unmodelled(f"{ci.qualname}.tree_unflatten: unmodelled *{ast.unparse(a.value)}")
            args.extend(s)
        else:
            args.append(elem(a))
    slots: Dict[str, Optional[str]] = {}
    if len(args) > len(fields):
        slots["<overflow>"] = f"{len(args)} positional values for {len(fields)} fields"
    for f, v in zip(fields, args):
        slots[f] = v if v is not None else "<expr>"
    for k in c.keywords:
        if k.arg is None:
            raise Unmodelled(f"{ci.qualname}.tree_unflatten: **kwargs")
        slots[k.arg] = elem(k.value) or "<expr>"
    return slots


def lat1(ctx):
    n = 0
    for ci in lattice_classes(ctx):
        # the protocol methods may live in the class or in a base class it inherits them from
        fl = ci.methods.get("tree_flatten") or ctx.p.lookup_method(ci.qualname, "tree_flatten")
        if fl is None or fl.is_abstract:
            continue
        registered = any(d and d.endswith("register_pytree_node_class") for d in ci.decorators)
        if not registered:
            ctx.rep.note(f"{ci.qualname} defines tree_flatten but is not registered as a pytree")
            continue
        n += 1
        children, aux = _flatten_lists(ctx, ci)[:2]
        slots = _unflatten_slots(ctx, ci, children, aux)
        post = ci.methods.get("__post_init__")
        derived = _always_assigned(post.real_body()) if post else set()
        fields = ctx.p.dataclass_fields(ci.qualname)
        if "<overflow>" in slots:
            ctx.ob("LAT-1", f"{ci.qualname}: constructor arity on unflatten", False,
                   f"tree_unflatten passes {slots['<overflow>']}", fl)
        for f in fields:
            got = slots.get(f.name)
            if f.name in derived:
                ok, msg = True, "re-derived unconditionally by __post_init__"
            elif got == f.name:
                ok, msg = True, "carried into its own slot"
            elif got is None:
                ok = False
                msg = (f"field '{f.name}' is not carried by tree_flatten/tree_unflatten and is not "
                       f"re-derived: it falls back to its default after a round trip")
                if not f.has_default:
                    msg = f"field '{f.name}' receives no value on unflatten (TypeError)"
            else:
                ok = False
                msg = (f"slot '{f.name}' receives flattened attribute '{got}' "
                       f"(misaligned with the dataclass field order)")
            ctx.ob("LAT-1", f"{ci.qualname}: field {f.name} survives flatten/unflatten", ok, msg, fl)
        # tree_unflatten calls the constructor with the flattened values, so __post_init__ runs again on every round trip
        # (and on every hand-over to a jitted function): a field carried into its own slot must not be recomputed *from
        # its own value* there.  `self.f -= 1` / `self.f = g(self.f)` outside an `if self.f is None` guard compounds.
        if post is not None:
            carried = {f.name for f in fields if slots.get(f.name) == f.name}

            def walk(stmts, guarded):
                for st in stmts:
                    if isinstance(st, ast.If):
                        g_ = set(guarded)
                        for c_ in ast.walk(st.test):
                            if isinstance(c_, ast.Compare) and len(c_.ops) == 1 and isinstance(c_.ops[0], (ast.Is, ast.Eq)) and \
                                    isinstance(c_.comparators[0], ast.Constant) and c_.comparators[0].value is None and \
                                    _self_attr(c_.left):
                                g_.add(_self_attr(c_.left))
                        walk(st.body, g_)
                        walk(st.orelse, guarded)
                        continue
                    for fld in ("body", "orelse", "finalbody"):
                        sub = getattr(st, fld, None)
                        if isinstance(sub, list) and sub and isinstance(sub[0], ast.stmt):
                            walk(sub, guarded)
                    tgt = val = None
                    if isinstance(st, ast.AugAssign):
                        tgt, val = _self_attr(st.target), st.target
                    elif isinstance(st, ast.Assign) and len(st.targets) == 1:
                        tgt, val = _self_attr(st.targets[0]), st.value
                    if tgt and tgt in carried and tgt not in guarded:
                        self_reads = isinstance(st, ast.AugAssign) or any(
                            _self_attr(n_) == tgt and isinstance(getattr(n_, "ctx", None), ast.Load) for n_ in ast.walk(val))
                        if self_reads:
                            ctx.ob("LAT-1", f"{ci.qualname}: __post_init__ is idempotent on the carried field {tgt}", False,
                                   f"`{ast.unparse(st)[:70]}` recomputes self.{tgt} from its own value and is not guarded by "
                                   f"`self.{tgt} is None`: tree_unflatten passes the stored value back through the constructor, so "
                                   f"the update is applied once more on every flatten / unflatten round trip", post, st.lineno)
            walk(post.real_body(), set())
    if n == 0:
        raise AnalysisError("LAT-1 matched no registered pytree lattice class")
    ctx.rep.count("pytree_classes", n)


# ---------------------------------------------------------------- LAT-2


def _annotation_is_int(f) -> bool:
    return f.annotation is not None and ast.unparse(f.annotation) in ("int", "Optional[int]")


def lat2(ctx):
    p = ctx.p
    base = p.cls(f"{MOD}.lattice")
    abstract = p.abstract_methods(base.qualname)
    for ci in lattice_classes(ctx):
        missing = p.abstract_methods(ci.qualname)
        ctx.ob("BIND-3", f"{ci.qualname}: abstract interface complete", not missing,
               f"unimplemented abstract methods: {missing}" if missing else
               f"implements {abstract}", ci.methods.get("__post_init__"), ci.lineno,
               mod=MOD)
        ok, why = p.has_hash(ci.qualname)
        uses_static = any(fi.static_argnums and 0 in fi.static_argnums for fi in ci.methods.values())
        ctx.ob("BIND-4", f"{ci.qualname}: hashable (jit static self)", ok or not uses_static, why,
               mod=MOD, line=ci.lineno)
        fields = {f.name: f for f in p.dataclass_fields(ci.qualname)}
        h = ci.methods.get("__hash__")
        if h is not None:
            used = {a for n in ast.walk(h.node) if (a := _self_attr(n))}
            # a class-level table of field names (ClassVar tuple of strings) read through self: the names it lists
            # are what the hash uses
            for q_ in p.classes[ci.qualname].mro:
                c2 = p.classes.get(q_)
                if c2 is None:
                    continue
                for st_ in c2.node.body:
                    tg_ = st_.target if isinstance(st_, ast.AnnAssign) else (
                        st_.targets[0] if isinstance(st_, ast.Assign) and len(st_.targets) == 1 else None)
                    if isinstance(tg_, ast.Name) and tg_.id in used and tg_.id not in fields and \
                            getattr(st_, "value", None) is not None:
                        used.discard(tg_.id)
                        try:
                            lit_ = ast.literal_eval(st_.value)
                        except Exception:
                            lit_ = None
                        if isinstance(lit_, (tuple, list)) and all(isinstance(x_, str) for x_ in lit_):
                            used.update(lit_)
            bad = sorted(a for a in used if a not in fields and a != "__dict__")
            ctx.ob("LAT-2", f"{ci.qualname}.__hash__ names existing fields", not bad,
                   f"unknown attributes {bad}" if bad else f"uses {sorted(used)}", h)
        # iteration over an int-typed field
        for fi in ci.methods.values():
            for node in ast.walk(fi.node):
                iters = []
                if isinstance(node, ast.For):
                    iters.append(node.iter)
                elif isinstance(node, (ast.ListComp, ast.GeneratorExp, ast.SetComp, ast.DictComp)):
                    iters.extend(g.iter for g in node.generators)
                for it in iters:
                    a = _self_attr(it)
                    if a is not None and a in fields:
                        isint = _annotation_is_int(fields[a])
                        ctx.ob("LAT-2", f"{ci.qualname}.{fi.name}: iteration over self.{a}",
                               not isint,
                               f"`for ... in self.{a}` iterates over an int-typed field "
                               f"(TypeError when this branch is taken)" if isint else "iterable field",
                               fi, it.lineno)
        ctx.ob("LAT-2", f"{ci.qualname}: constructor body reachable", True,
               "no iteration over int-typed fields", mod=MOD, line=ci.lineno, nontrivial=False)
    # a hash is not an identity: two different lattices may share a hash value (the hand-written __hash__ methods do not
    # cover every field, and need not), so a hash() result must not be used to look a lattice's data up
    keyed = []
    tree = p.module(MOD).tree

    def scan(node, in_hash):
        for ch in ast.iter_child_nodes(node):
            if isinstance(ch, (ast.FunctionDef, ast.AsyncFunctionDef)):
                scan(ch, in_hash or ch.name == "__hash__")
                continue
            if isinstance(ch, ast.Call) and isinstance(ch.func, ast.Name) and ch.func.id == "hash" and not in_hash:
                keyed.append(ch.lineno)
            scan(ch, in_hash)
    scan(tree, False)
    ctx.ob("LAT-2", f"{MOD}: hash values are produced by __hash__ only, never used as lookup keys for lattice data",
           not keyed, f"hash(...) outside __hash__ at line(s) {keyed}" if keyed else "no hash() call outside __hash__",
           mod=MOD, line=keyed[0] if keyed else 1)


# ---------------------------------------------------------------- LAT-3 (mixed radix)

Mono = Tuple[str, ...]  # sorted field names; () == 1


def _mono(node: ast.AST, env: Dict[str, Mono]) -> Optional[Mono]:
    """Product of self.<field> names (or local aliases) -> monomial."""
    if isinstance(node, ast.Constant) and node.value == 1:
        return ()
    a = _self_attr(node)
    if a is not None:
        return (a,)
    if isinstance(node, ast.Name) and node.id in env:
        return env[node.id]
    if isinstance(node, ast.BinOp) and isinstance(node.op, ast.Mult):
        l, r = _mono(node.left, env), _mono(node.right, env)
        if l is None or r is None:
            return None
        return tuple(sorted(l + r))
    return None


def _divides(a: Mono, b: Mono) -> bool:
    bb = list(b)
    for x in a:
        if x in bb:
            bb.remove(x)
        else:
            return False
    return True


def _decode(node: ast.AST, var: str) -> Optional[Tuple[Optional[Mono], Mono]]:
    """E := var | E // K | E % K  ->  (M, D) meaning floor((var mod M) / D)."""
    if isinstance(node, ast.Name) and node.id == var:
        return (None, ())
    if isinstance(node, ast.BinOp) and isinstance(node.op, (ast.FloorDiv, ast.Mod)):
        inner = _decode(node.left, var)
        k = _mono(node.right, {})
        if inner is None or k is None:
            return None
        M, D = inner
        if isinstance(node.op, ast.FloorDiv):
            return (M, tuple(sorted(D + k)))
        newM = tuple(sorted(D + k))
        if M is not None and not _divides(newM, M):
            return None
        return (newM, D)
    return None


def _linear_form(node: ast.AST, base: str, env: Dict[str, Mono]) -> Optional[Dict[int, Mono]]:
    """sum_k mono_k * base[k] -> {k: mono}"""
    if isinstance(node, ast.BinOp) and isinstance(node.op, ast.Add):
        l, r = _linear_form(node.left, base, env), _linear_form(node.right, base, env)
        if l is None or r is None or set(l) & set(r):
            return None
        return {**l, **r}
    if isinstance(node, ast.Subscript) and isinstance(node.value, ast.Name) and node.value.id == base \
            and isinstance(node.slice, ast.Constant) and isinstance(node.slice.value, int):
        return {node.slice.value: ()}
    if isinstance(node, ast.BinOp) and isinstance(node.op, ast.Mult):
        for a, b in ((node.left, node.right), (node.right, node.left)):
            m = _mono(a, env)
            inner = _linear_form(b, base, env)
            if m is not None and inner is not None:
                # a field monomial times a linear form distributes (Horner form: (pos[0] * l_y + pos[1]) * l_z + pos[2])
                return {k: tuple(sorted(m + m0)) for k, m0 in inner.items()}
    return None


def _row_major_extents(it: ast.AST) -> Optional[List[Mono]]:
    if not isinstance(it, ast.Call):
        return None
    fn = dotted(it.func) or ""
    if fn.endswith("ndindex"):
        args = it.args[0].elts if len(it.args) == 1 and isinstance(it.args[0], ast.Tuple) else it.args
        ext = [_mono(a, {}) for a in args]
        return None if any(e is None for e in ext) or not ext else ext
    if fn.endswith("product") and it.args and not it.keywords:
        ext = []
        for a in it.args:
            if not (isinstance(a, ast.Call) and dotted(a.func) == "range" and len(a.args) == 1):
                return None
            ext.append(_mono(a.args[0], {}))
        return None if any(e is None for e in ext) else ext
    return None


def _is_identity_of(elt: ast.AST, var: str) -> bool:
    """pos, tuple(pos), tuple(int(c) for c in pos), tuple(map(int, pos))"""
    if isinstance(elt, ast.Name):
        return elt.id == var
    if isinstance(elt, ast.Call) and dotted(elt.func) == "tuple" and len(elt.args) == 1:
        a = elt.args[0]
        if isinstance(a, ast.Name):
            return a.id == var
        if isinstance(a, (ast.GeneratorExp, ast.ListComp)) and len(a.generators) == 1 and not a.generators[0].ifs:
            g = a.generators[0]
            if isinstance(g.iter, ast.Name) and g.iter.id == var and isinstance(g.target, ast.Name):
                e = a.elt
                if isinstance(e, ast.Name) and e.id == g.target.id:
                    return True
                return isinstance(e, ast.Call) and dotted(e.func) == "int" and len(e.args) == 1 and \
                    isinstance(e.args[0], ast.Name) and e.args[0].id == g.target.id
        if isinstance(a, ast.Call) and dotted(a.func) == "map" and len(a.args) == 2 and dotted(a.args[0]) == "int":
            return isinstance(a.args[1], ast.Name) and a.args[1].id == var
    return False


def _row_major_comps(ext: List[Mono]):
    """component k of a row-major enumeration of extents: floor((i mod D_{k-1}) / D_k), D_k = prod(ext[k+1:])"""
    comps = []
    for k in range(len(ext)):
        D: Mono = tuple(sorted(sum((list(e) for e in ext[k + 1:]), [])))
        M: Optional[Mono] = None if k == 0 else tuple(sorted(list(ext[k]) + list(D)))
        comps.append((M, D))
    total: Mono = tuple(sorted(sum((list(e) for e in ext), [])))
    return comps, total


def _alias_free(fn_node: ast.AST) -> ast.AST:
    """copy of a method in which local aliases of fields (l_x = self.l_x; a, b = self.a, self.b -- bound once) are
    replaced by the field and divmod(a, b) by (a // b, a % b): one spelling for the decode rules"""
    import copy
    node = copy.deepcopy(fn_node)
    stores: Dict[str, int] = {}
    for n in ast.walk(node):
        if isinstance(n, ast.Name) and isinstance(n.ctx, ast.Store):
            stores[n.id] = stores.get(n.id, 0) + 1
    alias: Dict[str, ast.AST] = {}
    for st in ast.walk(node):
        if isinstance(st, ast.Assign) and len(st.targets) == 1:
            t, v = st.targets[0], st.value
            pairs = list(zip(t.elts, v.elts)) if isinstance(t, ast.Tuple) and isinstance(v, ast.Tuple) and \
                len(t.elts) == len(v.elts) else [(t, v)]
            for a, b in pairs:
                if isinstance(a, ast.Name) and stores.get(a.id) == 1 and _self_attr(b) is not None:
                    alias[a.id] = b

    class Sub(ast.NodeTransformer):
        def visit_Name(self, n):
            if isinstance(n.ctx, ast.Load) and n.id in alias:
                return copy.deepcopy(alias[n.id])
            return n

        def visit_Call(self, n):
            self.generic_visit(n)
            if isinstance(n.func, ast.Name) and n.func.id == "divmod" and len(n.args) == 2 and not n.keywords:
                a, b = n.args
                return ast.Tuple(elts=[ast.BinOp(left=a, op=ast.FloorDiv(), right=b),
                                       ast.BinOp(left=copy.deepcopy(a), op=ast.Mod(), right=copy.deepcopy(b))], ctx=ast.Load())
            return n

    node = Sub().visit(node)
    ast.fix_missing_locations(node)
    return node


_MODULE_TREES: Dict[str, ast.Module] = {}


def _inline_enumeration_helper(v: ast.AST, post_node: ast.AST, ci: ClassInfo) -> ast.AST:
    """self.sites = helper(self.shape) with a module-level helper made of local (tuple-unpacking) assignments and one
    return: the returned expression with the arguments substituted; a `self.<field>` argument that __post_init__ assigns
    once from a tuple display is read as that tuple."""
    import copy
    if not (isinstance(v, ast.Call) and isinstance(v.func, ast.Name) and not v.keywords):
        return v
    tree = _MODULE_TREES.get(ci.module)
    if tree is None:
        return v
    helper = next((f for f in tree.body if isinstance(f, ast.FunctionDef) and f.name == v.func.id), None)
    if helper is None or helper.args.vararg or helper.args.kwarg or len(helper.args.args) != len(v.args):
        return v
    field_tuples: Dict[str, ast.AST] = {}
    counts: Dict[str, int] = {}
    for st in ast.walk(post_node):
        if isinstance(st, ast.Assign):
            for t in st.targets:
                a = _self_attr(t)
                if a is not None:
                    counts[a] = counts.get(a, 0) + 1
                    field_tuples[a] = st.value
    env: Dict[str, ast.AST] = {}
    for prm, act in zip(helper.args.args, v.args):
        a = _self_attr(act)
        if a is not None and counts.get(a) == 1 and isinstance(field_tuples[a], ast.Tuple):
            act = field_tuples[a]
        env[prm.arg] = act

    class Sub(ast.NodeTransformer):
        def visit_Name(self, n):
            if isinstance(n.ctx, ast.Load) and n.id in env:
                return copy.deepcopy(env[n.id])
            return n
    body = [st for st in helper.body if not (isinstance(st, ast.Expr) and isinstance(st.value, ast.Constant))]
    for st in body[:-1]:
        if not (isinstance(st, ast.Assign) and len(st.targets) == 1):
            return v
        tg, val = st.targets[0], Sub().visit(copy.deepcopy(st.value))
        if isinstance(tg, ast.Name):
            env[tg.id] = val
        elif isinstance(tg, ast.Tuple) and isinstance(val, ast.Tuple) and len(tg.elts) == len(val.elts) and \
                all(isinstance(e, ast.Name) for e in tg.elts):
            for e, x in zip(tg.elts, val.elts):
                env[e.id] = x
        else:
            return v
    if not body or not isinstance(body[-1], ast.Return) or body[-1].value is None:
        return v
    out = Sub().visit(copy.deepcopy(body[-1].value))
    ast.fix_missing_locations(out)
    return out


def _sites_decode(ci: ClassInfo):
    """Find `self.sites = tuple([ (c0, c1, ..) for i in range(N) ])` in __post_init__."""
    post = ci.methods.get("__post_init__")
    if post is None:
        return None
    for st in ast.walk(_alias_free(post.node)):
        if isinstance(st, ast.Assign) and any(_self_attr(t) == "sites" for t in st.targets):
            v = _inline_enumeration_helper(st.value, post.node, ci)
            if isinstance(v, ast.Call) and dotted(v.func) == "tuple" and v.args:
                v = v.args[0]
            if isinstance(v, (ast.ListComp, ast.GeneratorExp)) and len(v.generators) == 1:
                g = v.generators[0]
                if isinstance(g.target, ast.Name) and isinstance(g.iter, ast.Call) and \
                        dotted(g.iter.func) == "range" and len(g.iter.args) == 1:
                    elt = v.elt
                    if isinstance(elt, ast.Tuple):
                        comps = [_decode(e, g.target.id) for e in elt.elts]
                        total = _mono(g.iter.args[0], {})
                        return comps, total, st.lineno
                # row-major enumeration: for pos in np.ndindex(A, B, C) / itertools.product(range(A), range(B), ..)
                ext = _row_major_extents(g.iter)
                if ext is not None and isinstance(g.target, ast.Name) and _is_identity_of(v.elt, g.target.id):
                    return _row_major_comps(ext) + (st.lineno,)
            if isinstance(v, ast.Call):
                ext = _row_major_extents(v)
                if ext is not None:
                    return _row_major_comps(ext) + (st.lineno,)
            return "unmodelled", None, st.lineno
    return None


def lat3(ctx):
    n = 0
    for ci in lattice_classes(ctx):
        dec = _sites_decode(ci)
        gsn = ctx.p.lookup_method(ci.qualname, "get_site_num")
        post = ci.methods.get("__post_init__")
        if dec is None or gsn is None:
            raise AnalysisError(f"{ci.qualname}: site list or get_site_num not found")
        comps, total, line = dec
        if comps == "unmodelled" or any(c is None for c in comps) or total is None:
            raise Unmodelled(f"{ci.qualname}.__post_init__:{line} unmodelled site-list decode")
        n += 1
        # valid mixed radix: sort by divisor; finest has D == 1, each M equals next coarser D
        order = sorted(range(len(comps)), key=lambda k: len(comps[k][1]))
        ok, msg = True, ""
        expectM: Optional[Mono] = None
        for pos_in_order, k in enumerate(order):
            M, D = comps[k]
            if pos_in_order == 0 and D != ():
                ok, msg = False, f"finest component has divisor {D}"
            if pos_in_order + 1 < len(order):
                nxtD = comps[order[pos_in_order + 1]][1]
                if M != nxtD and not (M is None and len(order) == 1):
                    ok, msg = False, (f"component {k} is reduced modulo {M} but the next coarser "
                                      f"component divides by {nxtD}")
            else:
                if M is not None and M != total:
                    ok, msg = False, f"coarsest component reduced modulo {M}, range is {total}"
                if not _divides(D, total):
                    ok, msg = False, f"range {total} is not a multiple of the coarsest stride {D}"
        ctx.ob("LAT-3", f"{ci.qualname}: site list is a mixed-radix decode", ok,
               msg or f"components (mod, div) = {comps}, range {total}", post, line)
        strides = {k: comps[k][1] for k in range(len(comps))}
        # get_site_num
        from ..model import returned_values
        from ..model import norm
        rets = [v_ for _, v_ in returned_values(norm(gsn.node))]
        pname = [p.name for p in gsn.params if p.name != "self"][0]
        lf = _linear_form(rets[0], pname, {}) if len(rets) == 1 else None
        if lf is None:
            raise Unmodelled(f"{ci.qualname}.get_site_num: unmodelled expression")
        same = lf == strides
        ctx.ob("LAT-3", f"{ci.qualname}: get_site_num inverts the site list", same,
               f"strides {lf}" + ("" if same else f" but the site list decodes with strides {strides}"),
               gsn)
        # adjacency matrix indexing
        cam = _adjacency_builder(ctx, ci)
        if cam is None:
            ctx.rep.note(f"{ci.qualname} has no create_adjacency_matrix (nothing to check)")
            continue
        _adjacency(ctx, ci, cam, strides, comps, total)
    if n == 0:
        raise AnalysisError("LAT-3 matched nothing")


_ADJ_GUARDED: Dict[str, Dict[int, bool]] = {}


def _adjacency_builder(ctx, ci) -> Optional[FuncInfo]:
    """the method whose body fills the adjacency matrix: create_adjacency_matrix itself, or -- when that only wraps
    another method of the class (a cache, a dispatcher) -- the method it calls or hands on"""
    cam = ci.methods.get("create_adjacency_matrix") or ctx.p.lookup_method(ci.qualname, "create_adjacency_matrix")
    if cam is None or cam.is_abstract:
        return None

    def builds(fi) -> bool:
        return any(isinstance(n, ast.Attribute) and n.attr == "get_nearest_neighbors" for n in ast.walk(fi.node))
    if builds(cam):
        return cam
    for n in ast.walk(cam.node):
        a = _self_attr(n)
        if a and a in ci.methods and a != "create_adjacency_matrix" and builds(ci.methods[a]):
            ctx.rep.note(f"{ci.qualname}.create_adjacency_matrix delegates to {a}; analysed there")
            return ci.methods[a]
    return cam


def _normalise_guards(node: ast.AST) -> ast.AST:
    """Range tests written as a guard that leaves the iteration are brought to the form the bounds rules read:
         if n < 0 or n >= E or ...: continue        REST      ->      if 0 <= n < E and ...: REST
    (a guard whose body always leaves and that has no else: the rest of the block runs under the negated test; the negated
    disjunction is the conjunction of the negated comparisons; 0 <= n and n < E on one variable are chained)."""
    import copy
    NEG = {ast.Lt: ast.GtE, ast.LtE: ast.Gt, ast.Gt: ast.LtE, ast.GtE: ast.Lt}

    def negate(test):
        if isinstance(test, ast.UnaryOp) and isinstance(test.op, ast.Not):
            return test.operand
        if isinstance(test, ast.BoolOp) and isinstance(test.op, ast.Or) and all(
                isinstance(v, ast.Compare) and len(v.ops) == 1 and type(v.ops[0]) in NEG for v in test.values):
            return ast.BoolOp(op=ast.And(), values=[ast.Compare(left=v.left, ops=[NEG[type(v.ops[0])]()],
                                                                comparators=v.comparators) for v in test.values])
        if isinstance(test, ast.Compare) and len(test.ops) == 1 and type(test.ops[0]) in NEG:
            return ast.Compare(left=test.left, ops=[NEG[type(test.ops[0])]()], comparators=test.comparators)
        return None

    def chain(test):
        """0 <= v (v >= 0) and v < E (E > v) in one conjunction -> 0 <= v < E"""
        if not (isinstance(test, ast.BoolOp) and isinstance(test.op, ast.And)):
            return test
        lo, hi, rest = {}, {}, []
        for v in test.values:
            if isinstance(v, ast.Compare) and len(v.ops) == 1:
                l_, o_, r_ = v.left, v.ops[0], v.comparators[0]
                is0 = lambda n: isinstance(n, ast.Constant) and n.value == 0 and not isinstance(n.value, bool)
                if is0(l_) and isinstance(o_, ast.LtE) and isinstance(r_, ast.Name):
                    lo[r_.id] = v
                    continue
                if is0(r_) and isinstance(o_, ast.GtE) and isinstance(l_, ast.Name):
                    lo[l_.id] = v
                    continue
                if isinstance(o_, ast.Lt) and isinstance(l_, ast.Name) and not is0(r_):
                    hi[l_.id] = (v, r_)
                    continue
                if isinstance(o_, ast.Gt) and isinstance(r_, ast.Name) and not is0(l_):
                    hi[r_.id] = (v, l_)
                    continue
            rest.append(v)
        out = []
        for nm in list(lo):
            if nm in hi:
                out.append(ast.copy_location(ast.Compare(left=ast.Constant(value=0), ops=[ast.LtE(), ast.Lt()],
                                                         comparators=[ast.Name(id=nm, ctx=ast.Load()), hi[nm][1]]), lo[nm]))
                del hi[nm]
            else:
                out.append(lo[nm])
        out += [v for v, _ in hi.values()] + rest
        if len(out) == 1:
            return out[0]
        return ast.copy_location(ast.BoolOp(op=ast.And(), values=out), test)

    def leaves(body) -> bool:
        return bool(body) and isinstance(body[-1], (ast.Continue, ast.Return, ast.Raise, ast.Break))

    def fix_block(stmts):
        out = []
        for i, st in enumerate(stmts):
            for fld in ("body", "orelse", "finalbody"):
                sub = getattr(st, fld, None)
                if isinstance(sub, list) and sub and isinstance(sub[0], ast.stmt):
                    setattr(st, fld, fix_block(sub))
            if isinstance(st, ast.If) and not st.orelse and leaves(st.body) and len(st.body) == 1 and \
                    isinstance(st.body[0], ast.Continue) and i + 1 < len(stmts):
                neg = negate(st.test)
                if neg is not None:
                    rest = fix_block(stmts[i + 1:])
                    new_if = ast.If(test=chain(neg), body=rest, orelse=[])
                    ast.copy_location(new_if, st)
                    ast.fix_missing_locations(new_if)
                    out.append(new_if)
                    return out
            if isinstance(st, ast.If):
                st.test = chain(st.test)
                ast.fix_missing_locations(st)
            out.append(st)
        return out
    node = copy.deepcopy(node)
    node.body = fix_block(node.body)
    ast.fix_missing_locations(node)
    return node


def _inline_properties(ctx, ci, node: ast.AST) -> ast.AST:
    """`self.<p>` where <p> is a read-only property of the class (found through its MRO, so a mixin's abstract property
    resolves to the concrete class's override) whose body is one return: replaced by the returned expression."""
    import copy

    def prop_value(name: str) -> Optional[ast.AST]:
        fi = ctx.p.lookup_method(ci.qualname, name)
        if fi is None or not any(dotted(d) in ("property", "functools.cached_property", "cached_property")
                                 for d in fi.node.decorator_list):
            return None
        body = [st for st in fi.node.body if not (isinstance(st, ast.Expr) and isinstance(st.value, ast.Constant))]
        if len(body) == 1 and isinstance(body[0], ast.Return) and body[0].value is not None:
            return body[0].value
        return None

    class Tr(ast.NodeTransformer):
        def visit_Attribute(self, n):
            self.generic_visit(n)
            if isinstance(n.ctx, ast.Load) and isinstance(n.value, ast.Name) and n.value.id == "self":
                v = prop_value(n.attr)
                if v is not None:
                    return ast.copy_location(copy.deepcopy(v), n)
            return n
    out = Tr().visit(copy.deepcopy(node))
    ast.fix_missing_locations(out)
    return out


def _adjacency(ctx, ci, cam: FuncInfo, strides, comps, total):
    """Index expressions in create_adjacency_matrix agree with get_site_num; paired stores;
    bounds tests of the right shape."""
    env: Dict[str, Mono] = {}
    loops: Dict[str, Mono] = {}  # loop var -> extent monomial
    from ..model import norm
    cnode = norm(cam.node)          # single-use temporaries substituted into their use
    cnode = _inline_properties(ctx, ci, cnode)
    cnode = _normalise_guards(cnode)
    for st in ast.walk(cnode):
        if isinstance(st, ast.Assign) and len(st.targets) == 1:
            t, v = st.targets[0], st.value
            if isinstance(t, ast.Tuple) and isinstance(v, ast.Tuple) and len(t.elts) == len(v.elts):
                for a, b in zip(t.elts, v.elts):
                    m = _mono(b, env)
                    if isinstance(a, ast.Name) and m is not None:
                        env[a.id] = m
            elif isinstance(t, ast.Name):
                m = _mono(v, env)
                if m is not None:
                    env[t.id] = m
    for st in ast.walk(cnode):
        if isinstance(st, ast.For) and isinstance(st.target, ast.Name) and isinstance(st.iter, ast.Call) \
                and dotted(st.iter.func) == "range" and len(st.iter.args) == 1:
            m = _mono(st.iter.args[0], env)
            if m is not None:
                loops[st.target.id] = m
    # the position handed to get_nearest_neighbors
    pos_call = None
    for nd in ast.walk(cnode):
        if isinstance(nd, ast.Call) and isinstance(nd.func, ast.Attribute) and \
                nd.func.attr == "get_nearest_neighbors" and nd.args:
            pos_call = nd
    if pos_call is None:
        raise Unmodelled(f"{ci.qualname}.create_adjacency_matrix: neighbour call not found")
    # extents of each axis per the site list
    order = sorted(range(len(comps)), key=lambda k: len(comps[k][1]))
    extent: Dict[int, Optional[Mono]] = {}
    for idx, k in enumerate(order):
        D = comps[k][1]
        up = comps[order[idx + 1]][1] if idx + 1 < len(order) else total
        rem = list(up)
        for x in D:
            rem.remove(x)
        extent[k] = tuple(rem)
    site_loop_var = None   # `for site in self.sites` / `for k, site in enumerate(self.sites)`
    for st in ast.walk(cnode):
        if isinstance(st, ast.For):
            it, tg = st.iter, st.target
            if isinstance(it, ast.Call) and dotted(it.func) == "enumerate" and it.args and isinstance(tg, ast.Tuple) \
                    and len(tg.elts) == 2:
                it, tg = it.args[0], tg.elts[1]
            if _self_attr(it) == "sites" and isinstance(tg, ast.Name):
                site_loop_var = tg.id
    a0 = pos_call.args[0]
    if isinstance(a0, ast.Tuple):
        pos_vars = [e.id if isinstance(e, ast.Name) else None for e in a0.elts]
        if None in pos_vars or len(pos_vars) != len(comps):
            raise Unmodelled(f"{ci.qualname}.create_adjacency_matrix: unmodelled position tuple")
        for k, v in enumerate(pos_vars):
            if loops.get(v) is None:
                rng = next((st.iter for st in ast.walk(cnode) if isinstance(st, ast.For) and isinstance(st.target, ast.Name)
                            and st.target.id == v), None)
                free = [n.id for n in ast.walk(rng) if isinstance(n, ast.Name) and n.id not in env
                        and n.id not in ("self", "range", "len")] if rng is not None else ["?"]
                attrs = [n for n in ast.walk(rng) if isinstance(n, ast.Attribute) and _self_attr(n) is None] \
                    if rng is not None else []
                if rng is None or free or attrs:
                    raise Unmodelled(f"{ci.qualname}.create_adjacency_matrix: the extent of loop variable '{v}' "
                                     f"({ast.unparse(rng) if rng is not None else 'no range loop'}) is not written in "
                                     f"terms of the lattice's fields")
            ok = loops.get(v) == extent[k]
            ctx.ob("LAT-3", f"{ci.qualname}.create_adjacency_matrix: axis {k} loop extent", ok,
                   f"loop variable '{v}' ranges over {loops.get(v)}, axis {k} of the site list has "
                   f"extent {extent[k]}", cam)
    elif isinstance(a0, ast.Name) and a0.id == site_loop_var:
        pos_vars = None
        ctx.ob("LAT-3", f"{ci.qualname}.create_adjacency_matrix: positions enumerate the site list", True,
               f"for {site_loop_var} in self.sites", cam)
    else:
        raise Unmodelled(f"{ci.qualname}.create_adjacency_matrix: unmodelled position {ast.unparse(a0)}")
    if len(comps) == 1:
        # chain: h[r, nr] indexed by the position itself
        ctx.ob("LAT-3", f"{ci.qualname}.create_adjacency_matrix: row index is the site number", True,
               "1-D: position == site number", cam, nontrivial=False)
    # linear index assignments  i = q*width + r ; j = nq*width + nr
    idx_forms = []
    for st in ast.walk(cnode):
        if isinstance(st, ast.Assign) and len(st.targets) == 1 and isinstance(st.targets[0], ast.Name):
            names = {n.id for n in ast.walk(st.value) if isinstance(n, ast.Name)}
            if isinstance(st.value, ast.BinOp) and isinstance(st.value.op, ast.Add):
                idx_forms.append((st.targets[0].id, st.value, st.lineno))
    # neighbour unpack variables (for nq, nr in neighbors)
    nb_vars = None
    for st in ast.walk(cnode):
        if isinstance(st, ast.For) and isinstance(st.target, ast.Tuple):
            nb_vars = [e.id for e in st.target.elts if isinstance(e, ast.Name)]
    # vectorised form: all neighbours of a site at once,  nq, nr = nbrs[:, 0], nbrs[:, 1]  (coordinate k = column k of the
    # array returned by get_nearest_neighbors), bounds tested by a boolean mask, indices computed from nq[mask], nr[mask]
    mask_guard: Dict[str, Dict[int, List[ast.Compare]]] = {}
    if nb_vars is None:
        nb_arrays = {t.id for a in ast.walk(cnode) if isinstance(a, ast.Assign) and any(n is pos_call for n in ast.walk(a.value))
                     for t in a.targets if isinstance(t, ast.Name)}
        cols: Dict[int, str] = {}
        for st in ast.walk(cnode):
            if isinstance(st, ast.Assign) and len(st.targets) == 1:
                t, v = st.targets[0], st.value
                pairs_ = list(zip(t.elts, v.elts)) if isinstance(t, ast.Tuple) and isinstance(v, ast.Tuple) and \
                    len(t.elts) == len(v.elts) else [(t, v)]
                for a, b in pairs_:
                    if isinstance(a, ast.Name) and isinstance(b, ast.Subscript) and isinstance(b.value, ast.Name) and \
                            b.value.id in nb_arrays and isinstance(b.slice, ast.Tuple) and len(b.slice.elts) == 2 and \
                            isinstance(b.slice.elts[0], ast.Slice) and isinstance(b.slice.elts[1], ast.Constant) and \
                            isinstance(b.slice.elts[1].value, int):
                        cols[b.slice.elts[1].value] = a.id
        if cols and sorted(cols) == list(range(len(comps))):
            nb_vars = [cols[k] for k in range(len(comps))]
            for st in ast.walk(cnode):
                if isinstance(st, ast.Assign) and len(st.targets) == 1 and isinstance(st.targets[0], ast.Name):
                    cmps = [c for c in ast.walk(st.value) if isinstance(c, ast.Compare)]
                    if not cmps or not isinstance(st.value, (ast.BinOp, ast.Compare)):
                        continue
                    if any(isinstance(n, ast.BinOp) and not isinstance(n.op, ast.BitAnd) and
                           not any(n is y for c in cmps for y in ast.walk(c)) for n in ast.walk(st.value)):
                        continue          # the comparisons must be and-ed, nothing else
                    per_axis: Dict[int, List[ast.Compare]] = {}
                    for c in cmps:
                        for k, nm in enumerate(nb_vars):
                            if any(isinstance(n, ast.Name) and n.id == nm for n in ast.walk(c)):
                                per_axis.setdefault(k, []).append(c)
                    if per_axis:
                        mask_guard[st.targets[0].id] = per_axis
    nb_name = None
    for st in ast.walk(cnode):
        if isinstance(st, ast.For) and isinstance(st.target, ast.Name) and st.target.id != site_loop_var:
            roots = {n.id for n in ast.walk(st.iter) if isinstance(n, ast.Name)}
            calls = [n for n in ast.walk(st.iter) if n is pos_call]
            nb_src = {t.id for a in ast.walk(cnode) if isinstance(a, ast.Assign) and any(n is pos_call for n in ast.walk(a.value))
                      for t in a.targets if isinstance(t, ast.Name)}
            if calls or roots & nb_src:
                nb_name = st.target.id
    for st in ast.walk(cnode):
        if isinstance(st, ast.Assign) and len(st.targets) == 1 and isinstance(st.targets[0], ast.Name):
            for c in ast.walk(st.value):
                if isinstance(c, ast.Call) and isinstance(c.func, ast.Attribute) and c.func.attr == "get_site_num" \
                        and len(c.args) == 1 and isinstance(c.args[0], ast.Name):
                    who = "site" if c.args[0].id == site_loop_var else "neighbour" if c.args[0].id == nb_name else None
                    if who:
                        ctx.ob("LAT-3", f"{ci.qualname}.create_adjacency_matrix: {who} index "
                               f"'{st.targets[0].id}' = get_site_num", True, "computed by get_site_num itself",
                               cam, st.lineno)
    def unmask(expr):
        """nq[mask] -> nq for the neighbour coordinate arrays (the selection does not change which coordinate it is)"""
        if not mask_guard or not nb_vars:
            return expr
        import copy

        class U(ast.NodeTransformer):
            def visit_Subscript(self, n):
                self.generic_visit(n)
                if isinstance(n.value, ast.Name) and n.value.id in nb_vars and isinstance(n.slice, ast.Name) and \
                        n.slice.id in mask_guard:
                    return n.value
                return n
        return U().visit(copy.deepcopy(expr))

    for nm, expr, line in idx_forms:
        for vars_, what in ((pos_vars, "site"), (nb_vars, "neighbour")):
            if not vars_:
                continue
            coeffs = _coeffs(unmask(expr) if what == "neighbour" else expr, vars_, env)
            if coeffs is None:
                continue
            want = {k: strides[k] for k in range(len(vars_))}
            ok = coeffs == want
            ctx.ob("LAT-3", f"{ci.qualname}.create_adjacency_matrix: {what} index '{nm}' = get_site_num",
                   ok, f"index strides {coeffs}, get_site_num strides {want}", cam, line)
    # paired stores h[a,b] / h[b,a]
    stores = []
    for st in ast.walk(cnode):
        if isinstance(st, ast.Assign) and isinstance(st.targets[0], ast.Subscript):
            t = st.targets[0]
            if isinstance(t.slice, ast.Tuple) and len(t.slice.elts) == 2:
                stores.append((ast.unparse(t.value), ast.unparse(t.slice.elts[0]),
                               ast.unparse(t.slice.elts[1]), ast.unparse(st.value), st.lineno))
    pairs_ok = bool(stores)
    # what the builder hands back: the stored array itself (`return h`), or an expression of it.  h | h.T,
    # maximum(h, h.T), h + h.T, ((h + h.T) > 0) are symmetric whatever was stored; any other expression of h is a form
    # this rule does not model.
    from ..model import returned_values
    rets_ = [v_ for _, v_ in returned_values(cnode)]
    sym_on_return: Dict[str, Optional[bool]] = {}
    for (b, *_r) in stores:
        verdicts = []
        for rv in rets_:
            if isinstance(rv, ast.Name) and rv.id == b:
                verdicts.append(False)          # the stored array as it is
                continue

            def is_b(n):
                return isinstance(n, ast.Name) and n.id == b

            def is_bT(n):
                return (isinstance(n, ast.Attribute) and n.attr == "T" and is_b(n.value)) or \
                    (isinstance(n, ast.Call) and (dotted(n.func) or "").split(".")[-1] in ("transpose", "swapaxes")
                     and n.args and is_b(n.args[0])) or \
                    (isinstance(n, ast.Call) and isinstance(n.func, ast.Attribute) and n.func.attr == "transpose"
                     and is_b(n.func.value) and not n.args)
            found = None
            for n in ast.walk(rv):
                pair = None
                if isinstance(n, ast.BinOp) and isinstance(n.op, (ast.BitOr, ast.Add)):
                    pair = (n.left, n.right)
                elif isinstance(n, ast.Call) and (dotted(n.func) or "").split(".")[-1] in (
                        "maximum", "logical_or", "bitwise_or", "add", "fmax") and len(n.args) == 2:
                    pair = tuple(n.args)
                if pair and ((is_b(pair[0]) and is_bT(pair[1])) or (is_b(pair[1]) and is_bT(pair[0]))):
                    found = True
            verdicts.append(found)
        sym_on_return[b] = True if verdicts and all(v_ is True for v_ in verdicts) else \
            (False if verdicts and all(v_ is False for v_ in verdicts) else None)
    for (b, i, j, v, line) in stores:
        if not any(b2 == b and i2 == j and j2 == i and v2 == v for (b2, i2, j2, v2, _) in stores):
            if sym_on_return.get(b) is True:
                ctx.ob("PAIR-5", f"{ci.qualname}.create_adjacency_matrix: {b} is symmetrised with its transpose on return",
                       True, f"{b}[{i}, {j}] = {v} stored one way; the returned matrix is {b} combined with {b}.T", cam, line)
                continue
            if sym_on_return.get(b) is None:
                raise Unmodelled(f"{ci.qualname}.create_adjacency_matrix: {b}[{i}, {j}] is stored one way and the builder "
                                 f"returns an expression of {b} this rule does not model")
            pairs_ok = False
            ctx.ob("PAIR-5", f"{ci.qualname}.create_adjacency_matrix: symmetric store of {b}[{i}, {j}]",
                   False, f"{b}[{i}, {j}] = {v} has no matching {b}[{j}, {i}] = {v}", cam, line)
    if pairs_ok:
        ctx.ob("PAIR-5", f"{ci.qualname}.create_adjacency_matrix: adjacency written as (i,j),(j,i) pairs",
               True, f"{len(stores)} stores paired", cam)
    # bounds tests
    tested: Dict[int, List[ast.Compare]] = {}
    for nd in ast.walk(cnode):
        if isinstance(nd, ast.Compare) and len(nd.ops) == 2:
            mid = nd.comparators[0]
            k = None
            if isinstance(mid, ast.Name) and nb_vars and mid.id in nb_vars:
                k = nb_vars.index(mid.id)
            elif isinstance(mid, ast.Subscript) and isinstance(mid.value, ast.Name) and mid.value.id == nb_name and \
                    isinstance(mid.slice, ast.Constant) and isinstance(mid.slice.value, int):
                k = mid.slice.value
            if k is not None and k in extent:
                tested.setdefault(k, []).append(nd)
                lo_ok = isinstance(nd.left, ast.Constant) and nd.left.value == 0 and isinstance(
                    nd.ops[0], ast.LtE)
                hi = _mono(nd.comparators[1], env)
                if hi is None and any(isinstance(n, ast.Name) and n.id not in env and n.id != "self"
                                      for n in ast.walk(nd.comparators[1])):
                    raise Unmodelled(f"{ci.qualname}.create_adjacency_matrix: bound `{ast.unparse(nd.comparators[1])}` "
                                     f"is not written in terms of the lattice's fields")
                hi_ok = isinstance(nd.ops[1], ast.Lt) and hi == extent[k]
                ctx.ob("LAT-4", f"{ci.qualname}.create_adjacency_matrix: bounds test on axis {k}",
                       lo_ok and hi_ok,
                       f"`{ast.unparse(nd)}` must be 0 <= n < {extent[k]}", cam, nd.lineno)
    # bounds tests written over all coordinates at once:  all(0 <= c < l for c, l in zip(nbr, self.<tuple of extents>))
    for nd in ast.walk(cnode):
        if not (isinstance(nd, ast.Call) and isinstance(nd.func, ast.Name) and nd.func.id == "all" and len(nd.args) == 1
                and isinstance(nd.args[0], (ast.GeneratorExp, ast.ListComp)) and len(nd.args[0].generators) == 1):
            continue
        g = nd.args[0].generators[0]
        cmp_ = nd.args[0].elt
        if not (isinstance(g.iter, ast.Call) and isinstance(g.iter.func, ast.Name) and g.iter.func.id == "zip" and
                len(g.iter.args) == 2 and isinstance(g.target, ast.Tuple) and len(g.target.elts) == 2 and
                all(isinstance(e_, ast.Name) for e_ in g.target.elts) and isinstance(cmp_, ast.Compare) and len(cmp_.ops) == 2):
            continue
        cvar, lvar = g.target.elts[0].id, g.target.elts[1].id
        coords, limits = g.iter.args
        if not (isinstance(coords, ast.Name) and coords.id == nb_name):
            continue
        lim_attr = _self_attr(limits)
        lim = _post_init_tuple(ci, lim_attr) if lim_attr else None
        shape_ok = isinstance(cmp_.left, ast.Constant) and cmp_.left.value == 0 and isinstance(cmp_.ops[0], ast.LtE) and \
            isinstance(cmp_.comparators[0], ast.Name) and cmp_.comparators[0].id == cvar and \
            isinstance(cmp_.ops[1], ast.Lt) and isinstance(cmp_.comparators[1], ast.Name) and cmp_.comparators[1].id == lvar
        if lim is None or not shape_ok:
            ctx.rep.note(f"{ci.qualname}.create_adjacency_matrix: bounds test over zip(...) not of the modelled form "
                         f"0 <= c < limit with limits a tuple of fields; not used as a guard")
            continue
        for k in sorted(extent):
            got = (lim[k],) if k < len(lim) and lim[k] is not None else None
            okk = got == extent[k]
            tested.setdefault(k, []).append(cmp_)
            ctx.ob("LAT-4", f"{ci.qualname}.create_adjacency_matrix: bounds test on axis {k}", okk,
                   f"coordinate {k} is tested against self.{lim_attr}[{k}] = {got}, the axis has extent {extent[k]}", cam,
                   nd.lineno)
    # bounds tests written as a mask:  (0 <= nq) & (nq < height) & ...  -- one lower and one upper test per axis
    mask_ok: Dict[str, Dict[int, bool]] = {}
    for mname, per_axis in mask_guard.items():
        mask_ok[mname] = {}
        for k, cs in per_axis.items():
            if k not in extent:
                continue
            lo_ok = hi_ok = False
            for c in cs:
                if len(c.ops) != 1:
                    continue
                l_, op_, r_ = c.left, c.ops[0], c.comparators[0]
                is_v = lambda n: isinstance(n, ast.Name) and n.id == nb_vars[k]
                is_0 = lambda n: isinstance(n, ast.Constant) and n.value == 0
                if (is_0(l_) and isinstance(op_, ast.LtE) and is_v(r_)) or (is_v(l_) and isinstance(op_, ast.GtE) and is_0(r_)):
                    lo_ok = True
                if (is_v(l_) and isinstance(op_, ast.Lt) and _mono(r_, env) == extent[k]) or \
                        (is_v(r_) and isinstance(op_, ast.Gt) and _mono(l_, env) == extent[k]):
                    hi_ok = True
            mask_ok[mname][k] = lo_ok and hi_ok
            ctx.ob("LAT-4", f"{ci.qualname}.create_adjacency_matrix: bounds test on axis {k}", lo_ok and hi_ok,
                   f"mask `{mname}` must contain 0 <= n and n < {extent[k]} for coordinate {k}", cam, cs[0].lineno)
    # which axes are tested on the path to every adjacency store
    guarded: Dict[int, bool] = {}
    store_nodes = [st for st in ast.walk(cnode) if isinstance(st, ast.Assign) and
                   isinstance(st.targets[0], ast.Subscript) and isinstance(st.targets[0].slice, ast.Tuple)]
    # an edge generator: `yield i, j` hands the bond to the code that stores it; the tests that dominate the yield guard it
    store_nodes += [st for st in ast.walk(cnode) if isinstance(st, ast.Expr) and isinstance(st.value, ast.Yield) and
                    isinstance(st.value.value, ast.Tuple) and len(st.value.value.elts) == 2]

    def dominating_tests(target) -> List[ast.AST]:
        out = []

        def walk(stmts, acc):
            for st in stmts:
                if st is target:
                    out.extend(acc)
                    return True
                for fld in ("body", "orelse", "finalbody"):
                    sub = getattr(st, fld, None)
                    if isinstance(sub, list) and sub and isinstance(sub[0], ast.stmt):
                        extra = [st.test] if isinstance(st, ast.If) and fld == "body" else []
                        if walk(sub, acc + extra):
                            return True
            return False

        walk(cnode.body, [])
        return out

    for k, cmps in tested.items():
        guarded[k] = bool(store_nodes) and all(
            any(any(n is c for n in ast.walk(tst)) for tst in dominating_tests(sn) for c in cmps) for sn in store_nodes)
    # mask form: coordinate k is guarded when every use of its array outside the mask definitions selects with a mask
    # that tests it
    if mask_ok and nb_vars:
        in_mask_defs = {id(n) for st in ast.walk(cnode) if isinstance(st, ast.Assign) and len(st.targets) == 1 and
                        isinstance(st.targets[0], ast.Name) and st.targets[0].id in mask_guard for n in ast.walk(st.value)}
        for k, nm in enumerate(nb_vars):
            uses = [n for n in ast.walk(cnode) if isinstance(n, ast.Name) and n.id == nm and isinstance(n.ctx, ast.Load)
                    and id(n) not in in_mask_defs]
            selected = [n for n in ast.walk(cnode) if isinstance(n, ast.Subscript) and isinstance(n.value, ast.Name) and
                        n.value.id == nm and isinstance(n.slice, ast.Name) and mask_ok.get(n.slice.id, {}).get(k)]
            if uses and len(selected) == len(uses) and not guarded.get(k):
                guarded[k] = True
    if nb_vars is None and nb_name is None:
        # the neighbour coordinates are not named in one of the modelled ways (a tuple loop target, a loop variable
        # indexed [k], columns nbrs[:, k]): which tests guard which coordinate is not decided
        return
    _ADJ_GUARDED[ci.qualname] = guarded


def _coeffs(expr: ast.AST, vars_: List[str], env) -> Optional[Dict[int, Mono]]:
    """a*v0 + v1 ... -> {index of var: monomial}; None when other names are involved."""
    terms = []

    def split(n):
        if isinstance(n, ast.BinOp) and isinstance(n.op, ast.Add):
            split(n.left)
            split(n.right)
        else:
            terms.append(n)

    split(expr)
    out: Dict[int, Mono] = {}
    for t in terms:
        if isinstance(t, ast.Name) and t.id in vars_:
            out[vars_.index(t.id)] = ()
        elif isinstance(t, ast.BinOp) and isinstance(t.op, ast.Mult):
            done = False
            for a, b in ((t.left, t.right), (t.right, t.left)):
                if isinstance(a, ast.Name) and a.id in vars_:
                    m = _mono(b, env)
                    if m is None:
                        return None
                    out[vars_.index(a.id)] = m
                    done = True
                    break
            if not done:
                return None
        else:
            return None
    if len(out) != len(vars_):
        return None
    return out


# ---------------------------------------------------------------- LAT-4 / LAT-5 (neighbour offsets)


def _resolve_phis(t: T, assign: Dict[T, bool], memo=None) -> T:
    if memo is None:
        memo = {}
    if t.uid in memo:
        return memo[t.uid]
    if t.op == "phi":
        c, a, b = t.args
        r = _resolve_phis(a if assign[c] else b, assign, memo)
    elif t.op == "ifexp":
        c, a, b = t.args
        r = _resolve_phis(a if assign.get(c, True) else b, assign, memo)
    else:
        r = mk(t.op, *[_resolve_phis(x, assign, memo) if isinstance(x, T) else x for x in t.args])
    memo[t.uid] = r
    return r


def _component(t: T, pos: T) -> Optional[Tuple[int, int, Optional[str]]]:
    """(axis, offset, modulus field) of `(pos[k] + c) % self.L` / `pos[k] + c` / `pos[k]`."""
    mod = None
    if t.op == "binop" and t.args[0] == "%":
        m = t.args[2]
        if m.op == "attr" and m.args[0] is sym("self"):
            mod = m.args[1]
        else:
            return None
        t = t.args[1]
    off = 0
    if t.op == "binop" and t.args[0] in ("+", "-"):
        c, rest = t.args[2], t.args[1]
        if t.args[0] == "+" and t.args[1].op == "const" and t.args[2].op != "const":
            c, rest = t.args[1], t.args[2]        # c + pos[k]
        if c.op != "const" or not isinstance(c.args[0], int):
            return None
        off = c.args[0] if t.args[0] == "+" else -c.args[0]
        t = rest
    if t.op == "getitem" and t.args[0] is pos and t.args[1].op == "const":
        return (t.args[1].args[0], off, mod)
    return None


def _as_coordinate_tuple(nb: T, pos: T, ndim: int) -> Optional[T]:
    """tuple(moved) with  moved = list(pos); moved[k] = v  is the coordinate tuple of pos with component k replaced."""
    from ..symex import mk as _mk, getitem

    def unwrap(t):
        t = strip_wrappers(t)
        while t.op == "call" and t.args[0].op == "name" and t.args[0].args[0] in ("builtins.tuple", "builtins.list") and \
                len(t.args) == 2:
            t = strip_wrappers(t.args[1])
        return t
    t = unwrap(nb)
    comps = {}
    while t.op == "setitem":
        base, idx, v = t.args
        idx = strip_wrappers(idx)
        if idx.op != "const" or not isinstance(idx.args[0], int) or isinstance(idx.args[0], bool) or ndim <= 0:
            return None
        comps.setdefault(idx.args[0] % ndim, v)          # the outermost store is the last one executed
        t = unwrap(base)
    if t is not pos or not comps:
        return None
    return _mk("tuple", *[comps.get(k, getitem(pos, const(k))) for k in range(ndim)])


def _neighbour_elements(r: T):
    """[(coordinate tuple, axes the neighbour function range-tests itself)] of a neighbour list written as a display,
    a concatenation of displays, or an identity comprehension with a filter over a display; None if none of these"""
    if r.op in ("list", "tuple"):
        return [(strip_wrappers(x), frozenset()) for x in r.args]
    if r.op == "binop" and r.args[0] == "+":
        a, b = _neighbour_elements(strip_wrappers(r.args[1])), _neighbour_elements(strip_wrappers(r.args[2]))
        return None if a is None or b is None else a + b
    if r.op == "comp" and len(r.args) == 3 and r.args[0] == "list":
        elt, gen = r.args[1], r.args[2]
        if gen.op != "gen" or len(gen.args) < 1:
            return None
        src = strip_wrappers(gen.args[0])
        inner = _neighbour_elements(src)
        if inner is None:
            return None
        it = [x for x in subterms(elt) if x.op == "iter"]
        # identity comprehension:  [n for n in src if test(n)]
        e0 = strip_wrappers(elt.args[0]) if elt.op == "tuple" and len(elt.args) == 1 else strip_wrappers(elt)
        if not (e0.op == "iter" and len(it) == 1):
            return None
        axes = set()
        for cnd in gen.args[1:]:
            for x in subterms(cnd):
                if x.op == "getitem" and x.args[0] is e0 and x.args[1].op == "const":
                    axes.add(x.args[1].args[0])
        return [(t_, f_ | frozenset(axes)) for t_, f_ in inner]
    return None


def lat45(ctx):
    n = 0
    for ci in lattice_classes(ctx):
        gnn = ctx.p.lookup_method(ci.qualname, "get_nearest_neighbors")
        if gnn is None or gnn.is_abstract:
            raise AnalysisError(f"{ci.qualname}: get_nearest_neighbors missing")
        ev = Evaluator(ctx.p)
        fr = ev.eval_function(gnn, self_class=ci.qualname)
        res = strip_wrappers(ev.result(fr))
        pname = [p.name for p in gnn.params if p.name != "self"][0]
        pos = sym(pname)
        conds = []
        for x in subterms(res):
            if x.op in ("phi", "ifexp") and x.args[0] not in conds:
                conds.append(x.args[0])
        if len(conds) > 4:
            raise Unmodelled(f"{ci.qualname}.get_nearest_neighbors: too many branches")
        dec = _sites_decode(ci)
        if dec is None or dec[0] == "unmodelled" or dec[0] is None or any(c is None for c in dec[0]) or dec[1] is None:
            raise Unmodelled(f"{ci.qualname}.__post_init__: unmodelled site-list decode (the axis extents are read from it)")
        comps, total, _ = dec
        order = sorted(range(len(comps)), key=lambda k: len(comps[k][1]))
        extent: Dict[int, Mono] = {}
        for idx, k in enumerate(order):
            D = comps[k][1]
            up = comps[order[idx + 1]][1] if idx + 1 < len(order) else total
            rem = list(up)
            for x in D:
                rem.remove(x)
            extent[k] = tuple(rem)
        variants = {}
        unmodelled: List[str] = []
        for bits in product([True, False], repeat=len(conds)):
            assign = dict(zip(conds, bits))
            r = strip_wrappers(_resolve_phis(res, assign))
            if r.op == "call" and array_fn(r) == "array":
                r = call_parts(r)[1][0]
            elems = _neighbour_elements(strip_wrappers(r))
            if elems is None:
                _one_sided_wrap(ctx, ci, ctx.p.lookup_method(ci.qualname, "get_nearest_neighbors"), strip_wrappers(r))
                unmodelled.append(show(r, maxdepth=3)[:80])
                continue
            offs = []
            for nb, filt in elems:
                if nb.op != "tuple":
                    nb2 = _as_coordinate_tuple(nb, pos, len(extent))
                    if nb2 is None:
                        raise Unmodelled(f"{ci.qualname}.get_nearest_neighbors: neighbour is not a tuple")
                    nb = nb2
                vec, mods = {}, {}
                for axis_pos, c in enumerate(nb.args):
                    comp = _component(c, pos)
                    if comp is None or comp[0] != axis_pos:
                        raise Unmodelled(
                            f"{ci.qualname}.get_nearest_neighbors: unmodelled component {show(c)[:80]}")
                    vec[axis_pos] = comp[1]
                    # a coordinate the neighbour function itself range-tests before returning the site
                    mods[axis_pos] = comp[2] if comp[2] is not None or axis_pos not in filt else "?filtered"
                offs.append((tuple(vec[k] for k in sorted(vec)), tuple(mods[k] for k in sorted(mods))))
            key = tuple((show(c), b) for c, b in assign.items())
            variants[key] = offs
        n += 1
        if unmodelled:
            # the neighbour list is built in a way this rule does not model (not a display of coordinate tuples): the
            # offset rules do not apply to this class; recorded, no verdict
            ctx.rep.note(f"{ci.qualname}.get_nearest_neighbors: neighbour list not a display of coordinate tuples "
                         f"({unmodelled[0]}); LAT-4 / LAT-5 offset rules not applicable to this class")
            continue
        # group variants: parity condition (depends on pos) vs configuration condition (self.*)
        def is_parity(c: T) -> bool:
            return any(x is pos for x in subterms(c))

        par_conds = [c for c in conds if is_parity(c)]
        cfg_conds = [c for c in conds if not is_parity(c)]
        seen_cfg = set()
        for bits in product([True, False], repeat=len(cfg_conds)):
            cfg = dict(zip(cfg_conds, bits))
            sets = {}
            for pbits in product([True, False], repeat=len(par_conds)):
                assign = {**cfg, **dict(zip(par_conds, pbits))}
                key = tuple((show(c), assign[c]) for c in conds)
                sets[pbits] = variants[key]
            sig = tuple(sorted((k, tuple(v)) for k, v in sets.items()))
            if sig in seen_cfg:
                continue
            seen_cfg.add(sig)
            label = ", ".join(f"{show(c)}={b}" for c, b in cfg.items()) or "all configurations"
            all_same = len({tuple(v) for v in sets.values()}) == 1
            if all_same:
                offs = next(iter(sets.values()))
                vecs = [o[0] for o in offs]
                missing = [v for v in vecs if tuple(-x for x in v) not in vecs]
                ctx.ob("LAT-4", f"{ci.qualname}.get_nearest_neighbors [{label}]: offsets closed under negation",
                       not missing, f"offsets {vecs}" + (f"; no reverse for {missing}" if missing else ""),
                       gnn)
            else:
                if len(par_conds) != 1:
                    ctx.rep.note(f"{ci.qualname}.get_nearest_neighbors [{label}]: the neighbour set depends on the position "
                                 f"through {len(par_conds)} conditions; the offset-symmetry rules model one parity "
                                 f"condition and are not applicable here")
                    continue
                A, B = sets[(True,)], sets[(False,)]
                va, vb = [o[0] for o in A], [o[0] for o in B]
                pc = par_conds[0]
                # which axis carries the parity?
                axis = None
                for x in subterms(pc):
                    if x.op == "getitem" and x.args[0] is pos and x.args[1].op == "const":
                        axis = x.args[1].args[0]
                bad = []
                for src, dst_same, dst_flip in ((va, va, vb), (vb, vb, va)):
                    for v in src:
                        neg = tuple(-x for x in v)
                        flips = axis is not None and v[axis] % 2 != 0
                        if neg not in (dst_flip if flips else dst_same):
                            bad.append(v)
                ctx.ob("LAT-4", f"{ci.qualname}.get_nearest_neighbors [{label}]: offsets closed under "
                       f"negation with row-parity flip", not bad,
                       f"parity-{show(pc)} offsets {va} / {vb}" + (f"; no reverse for {bad}" if bad else ""),
                       gnn)
                offs = A
                # both parities must have the same number of distinct offsets
                ctx.ob("LAT-5", f"{ci.qualname}.get_nearest_neighbors [{label}]: same count for both parities",
                       len(set(va)) == len(set(vb)), f"{len(set(va))} vs {len(set(vb))}", gnn)
            # moduli: periodic axes must be reduced by the field that is the axis' extent
            for o in offs:
                for k, m in enumerate(o[1]):
                    if m is None or m == "?filtered":
                        continue
                    ok = (m,) == extent[k]
                    if not ok:
                        ctx.ob("LAT-4", f"{ci.qualname}.get_nearest_neighbors [{label}]: axis {k} modulus",
                               False, f"axis {k} wraps modulo self.{m} but has extent {extent[k]}", gnn)
            mods_by_axis = {}
            for o in offs:
                for k, m in enumerate(o[1]):
                    if o[0][k] != 0 and m != "?filtered":
                        mods_by_axis.setdefault(k, set()).add(m)
            mixed = {k: v for k, v in mods_by_axis.items() if len(v) > 1}
            ctx.ob("LAT-4", f"{ci.qualname}.get_nearest_neighbors [{label}]: each axis wraps consistently",
                   not mixed and all((m,) == extent[k] for o in offs for k, m in enumerate(o[1]) if m and m != "?filtered"),
                   f"moduli per axis {mods_by_axis}, extents {extent}", gnn)
            # an axis that is not wrapped in this configuration can leave [0, extent): the adjacency builder must
            # test that coordinate itself (a test on the flattened index aliases into the neighbouring row)
            cam = _adjacency_builder(ctx, ci)
            unwrapped = sorted({k for o in offs for k, m in enumerate(o[1]) if m is None and o[0][k] != 0})
            if cam is not None and unwrapped and len(extent) > 1 and ci.qualname not in _ADJ_GUARDED:
                ctx.rep.note(f"{ci.qualname}.create_adjacency_matrix [{label}]: the adjacency builder is written in a form "
                             f"the range-test rule does not model; not judged")
            elif cam is not None and unwrapped and len(extent) > 1:
                g = _ADJ_GUARDED.get(ci.qualname, {})
                bad = [k for k in unwrapped if not g.get(k)]
                ctx.ob("LAT-4", f"{ci.qualname}.create_adjacency_matrix [{label}]: every coordinate that can leave its "
                       f"axis is range-checked before a bond is stored", not bad,
                       f"unwrapped axes {unwrapped}; " + (f"no dominating 0 <= n < extent test for axes {bad}" if bad
                                                         else "each has a dominating per-coordinate test"), cam)
            # LAT-5 coordination number
            cn = None
            for f in ctx.p.dataclass_fields(ci.qualname):
                if f.name == "coord_num" and f.default is not None:
                    cn = ast.literal_eval(f.default)
            if cn is not None:
                nd = len({o[0] for o in offs})
                ctx.ob("LAT-5", f"{ci.qualname} [{label}]: distinct offsets = coord_num", nd == cn,
                       f"{nd} distinct offsets, declared coord_num {cn}", gnn)
    if n == 0:
        raise AnalysisError("LAT-4 matched nothing")


def _one_sided_wrap(ctx, ci, fi, r: T):
    """LAT-4 for a vectorised neighbour function: the neighbours are where(test, shifted, moved) with moved = pos + table of
    steps.  A table that contains a step -1 takes boundary sites to coordinate -1; when the only range tests compare
    against the upper end (moved >= extent / moved > extent - 1) and no modulo is taken, those coordinates are returned as
    they are: not lattice sites."""
    from ..rules.match import m_where, m_cmp
    w = m_where(r)
    if w is None:
        return
    has_mod = any(x.op == "binop" and x.args[0] == "%" for x in subterms(r)) or any(
        x.op == "call" and (array_fn(x) or "") in ("mod", "remainder") for x in subterms(r))
    neg_step = any(x.op == "const" and type(x.args[0]) is int and x.args[0] < 0 for y in subterms(w[2]) if y.op in ("tuple", "list")
                   for x in y.args) or any(x.op == "unop" and x.args[0] == "-" and strip_wrappers(x.args[1]).op == "const"
                                           for y in subterms(w[2]) if y.op in ("tuple", "list") for x in y.args)
    tests = []
    stack, seen = [r], set()
    while stack:
        x = stack.pop()
        if x.uid in seen:
            continue
        seen.add(x.uid)
        ww = m_where(x) if x.op == "call" else None
        if ww is not None:
            for c_ in subterms(ww[0]):
                cm = m_cmp(c_) if c_.op == "cmp" else None
                if cm is not None:
                    tests.append(cm)
            stack += [ww[1], ww[2]]
    upper = [t_ for t_ in tests if t_[0] in (">=", ">")]
    lower = [t_ for t_ in tests if t_[0] in ("<", "<=") and strip_wrappers(t_[2]).op in ("const", "unop")]
    if neg_step and upper and not lower and not has_mod:
        ctx.ob("LAT-4", f"{ci.qualname}.get_nearest_neighbors: steps in both directions are wrapped back into the cell", False,
               f"the step table contains -1 but the only range test is {show(upper[0][1], maxdepth=2)[:40]} {upper[0][0]} "
               f"{show(upper[0][2], maxdepth=2)[:30]}: a site in row / column 0 gets the neighbour coordinate -1", fi)


def constructible(ctx):
    """LAT-1 (construction): "every lattice with all side lengths >= 2 can be constructed" (an open triangular lattice
    needs an even number of rows).  A raise in __post_init__ guarded by the parity of a side is a refusal of admissible
    lattices unless that side is the row count: the axis whose parity get_nearest_neighbors tests, with the extent that
    axis is wrapped by.  Decided on the value graph (path conditions of the raise, terms of the neighbour function), so
    that temporaries and aliases of self.<side> do not matter."""
    from ..symex import Evaluator as _Ev
    p = ctx.p
    SELF_ = sym("self")

    def parity_sides(terms):
        out = set()
        for t_ in terms:
            for x in subterms(t_):
                if x.op == "binop" and x.args[0] == "%" and is_const(strip_wrappers(x.args[2]), 2):
                    l_ = strip_wrappers(x.args[1])
                    if l_.op == "attr" and l_.args[0] is SELF_:
                        out.add(l_.args[1])
        return out

    for ci in lattice_classes(ctx):
        pi = p.lookup_method(ci.qualname, "__post_init__")
        nn = p.lookup_method(ci.qualname, "get_nearest_neighbors")
        if pi is None:
            continue
        try:
            ev = _Ev(p)
            ev.auto_inline_helpers = True
            fr = ev.eval_function(pi, self_class=ci.qualname)
        except Exception:
            continue
        refusals = [(path, line) for path, _v, line in fr.raises if parity_sides([c for c, _pol in path if isinstance(c, T)])]
        if not refusals:
            continue
        rows = None
        if nn is not None and len(nn.pos_params()) >= 2:
            try:
                ev2 = _Ev(p)
                ev2.record_terms = []
                ev2.eval_function(nn, self_class=ci.qualname)
                pos = sym(nn.pos_params()[1].name)
                axes, ext = set(), {}
                for t_, _l, _f in ev2.record_terms:
                    for x in subterms(t_):
                        if x.op == "binop" and x.args[0] == "%":
                            l_, r_ = strip_wrappers(x.args[1]), strip_wrappers(x.args[2])
                            ks = {y.args[1].args[0] for y in subterms(l_) if y.op == "getitem" and y.args[0] is pos and
                                  y.args[1].op == "const" and type(y.args[1].args[0]) is int}
                            if is_const(r_, 2) and len(ks) == 1:
                                axes |= ks
                            elif r_.op == "attr" and r_.args[0] is SELF_ and len(ks) == 1:
                                ext.setdefault(next(iter(ks)), set()).add(r_.args[1])
                if len(axes) == 1 and len(ext.get(next(iter(axes)), ())) == 1:
                    rows = next(iter(ext[next(iter(axes))]))
            except Exception:
                rows = None
        for path, line in refusals:
            par_sides = parity_sides([c for c, _pol in path if isinstance(c, T)])
            if rows is None:
                ctx.rep.note(f"{ci.qualname}.__post_init__: raises on the parity of {sorted(par_sides)}; the row axis could not be "
                             f"read off get_nearest_neighbors, the refusal is not judged")
                continue
            bad = sorted(par_sides - {rows})
            ctx.ob("LAT-1", f"{ci.qualname}.__post_init__: a parity refusal concerns the number of rows only", not bad,
                   f"raises when self.{bad[0]} is odd, but the rows (the axis whose parity get_nearest_neighbors tests) are counted "
                   f"by self.{rows}: admissible lattices with an odd self.{bad[0]} cannot be constructed" if bad else
                   f"parity of self.{rows}", pi, line)


def no_shared_cached_arrays(ctx):
    """LAT-1 (state outside the pytree).  A value memoised on the instance (functools.cached_property, lru_cache / cache on a
    method) lives in the object's __dict__ / a side table: it is not a dataclass field, tree_flatten does not carry it, and
    every caller receives the *same* array.  Handing it out uncopied makes the adjacency matrix depend on what earlier
    callers did to it (`h *= -t`, fill_diagonal) -- and the round-tripped lattice, which rebuilds it, disagrees."""
    memo = ("cached_property", "lru_cache", "cache")
    n = 0
    for ci in lattice_classes(ctx):
        cached = {}
        for q in ctx.p.classes[ci.qualname].mro:
            cj = ctx.p.classes.get(q)
            if cj is None:
                continue
            for mname, m in cj.methods.items():
                if m.node is None or isinstance(m.node, ast.Lambda):
                    continue
                decs = [(dotted(d.func) if isinstance(d, ast.Call) else dotted(d)) or "" for d in m.node.decorator_list]
                if any(d.split(".")[-1] in memo for d in decs):
                    cached.setdefault(mname, m)
        if not cached:
            continue
        bad = []
        for mname, m in ctx.p.classes[ci.qualname].methods.items():
            if mname in cached or m.node is None or isinstance(m.node, ast.Lambda):
                continue
            for r in ast.walk(m.node):
                if isinstance(r, ast.Return) and r.value is not None:
                    v = r.value
                    if isinstance(v, ast.Call) and _self_attr(v.func) in cached and not v.args:
                        v = v.func                         # self._adjacency()  (lru_cache on a method)
                    a = _self_attr(v)
                    if a in cached:
                        bad.append(f"{mname} returns the memoised self.{a} itself (line {r.lineno})")
        n += 1
        ctx.ob("LAT-1", f"{ci.qualname}: memoised values are not handed out as shared mutable state", not bad,
               "; ".join(bad[:2]) + ": every caller gets the same array, and it is not part of the pytree" if bad else
               f"memoised {sorted(cached)} are not returned uncopied", ci.methods.get("create_adjacency_matrix") or
               next(iter(cached.values())))
    return n


def run(ctx):
    _ADJ_GUARDED.clear()
    constructible(ctx)
    no_shared_cached_arrays(ctx)
    _per_class(ctx, lat1, "LAT-1")
    _per_class(ctx, lat2, "LAT-2")
    _per_class(ctx, lat3, "LAT-3")
    _per_class(ctx, lat45, "LAT-4/5")
    ctx.rep.trust("dataclass field-order and __post_init__ semantics", "jax pytree contract: "
                  "tree_unflatten(aux, children) receives exactly what tree_flatten returned")

TECHNIQUE = ("static analysis: AST class-table rules (pytree field alignment, mixed-radix decode "
             "agreement, neighbour-offset closure)")
