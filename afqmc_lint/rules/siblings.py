"""SIB-2 helpers: evaluate trial methods with helper methods inlined and compare value numbers."""

from __future__ import annotations

from typing import Dict, List, Optional, Tuple

from ..model import AnalysisError, FuncInfo, Program
from ..symex import T, Evaluator, Frame, const, getitem, mk, show, sym
from .gvn import GVN, TooBig, f_key


class Evald:
    """A method evaluated under a class with same-class helpers inlined."""

    def __init__(self, p: Program, ev: Evaluator, cls: str, method: str):
        fi = p.lookup_method(cls, method)
        if fi is None:
            raise AnalysisError(f"{cls}.{method} not found")
        self.fi = fi
        self.cls = cls
        self.frame: Frame = ev.eval_function(fi, self_class=cls)
        self.frame.exact_self = True
        self.result: T = ev.result(self.frame)

    def var(self, name: str) -> Optional[T]:
        return self.frame.env.vars.get(name)


def trial_evaluator(p: Program) -> Evaluator:
    ev = Evaluator(p)

    def policy(callee: FuncInfo, rc, fr) -> bool:
        # inline helper methods of the trial classes (Green's functions, single-det pieces)
        return callee.module == "wavefunctions" and callee.cls is not None

    ev.inline_policy = policy
    return ev


def evaluate(p: Program, ev: Evaluator, cls: str, method: str) -> Evald:
    # exactness has to be set before evaluation so that self.* calls resolve uniquely
    fi = p.lookup_method(cls, method)
    if fi is None:
        raise AnalysisError(f"{cls}.{method} not found")
    e = Evald.__new__(Evald)
    e.fi, e.cls = fi, cls
    fr = ev.new_frame(fi, None, cls)
    fr.exact_self = True
    for prm in fi.params:
        fr.env.vars[prm.name] = sym(prm.name)
        t = fr.env.vars[prm.name]
        if prm.name == "self":
            fr.types[t] = cls
        else:
            c = p.annotation_class(fr.mod, prm.annotation)
            if c is not None:
                fr.types[t] = c
    ev.exec_block(fr, fi.body())
    e.frame = fr
    e.result = ev.result(fr)
    return e


def agree(ctx, rule: str, construct: str, ev: Evaluator, a: T, b: T, hyp: Optional[Dict[T, T]] = None,
          ignore_conj: bool = False, frame=None, fi: Optional[FuncInfo] = None,
          what: str = "") -> bool:
    g = GVN(ev, hyp, ignore_conj, frame=frame)
    try:
        fa, fb = g.number(a), g.number(b)
    except TooBig:
        raise AnalysisError(f"{construct}: linear value numbering exceeded its term budget")
    from .gvn import compare_forms
    verdict = compare_forms(g, fa, fb)
    ok = verdict != "differ"
    msg = "equal value numbers" + (f" ({what})" if what else "")
    if verdict == "undecided":
        msg = "undecided: written with different operations (value numbering does not relate them); no claim"
        ctx.rep.count("undecided_comparisons")
        ctx.rep.note(f"{construct}: {msg}")
    if not ok:
        da = {k: v for k, v in fa.items() if fb.get(k) != v}
        db = {k: v for k, v in fb.items() if fa.get(k) != v}
        msg = (f"value numbers differ{(' (' + what + ')') if what else ''}: "
               f"first has {g.describe(da)[:220]} where second has {g.describe(db)[:220]}")
    ctx.ob(rule, construct, ok, msg, fi)
    return ok


def swap_map(pairs: List[Tuple[T, T]]) -> Dict[T, T]:
    m: Dict[T, T] = {}
    for a, b in pairs:
        m[a] = b
        m[b] = a
    return m
