"""SIB-1 for the sampler entry points: effect skeletons and the driver's dispatch."""

from __future__ import annotations

from itertools import product
from typing import Dict, List, Optional, Tuple

from ..model import AnalysisError, FuncInfo, Program
from ..symex import (T, Evaluator, call_parts, const, func_name, getitem, is_const, match_scan, mk,
                     show, strip_wrappers, subterms, sym, transparent)
from .common import wmean
from .match import m_binop, product_factors


class EntrySkeleton:
    def __init__(self):
        self.name = ""
        self.ok_shape = True
        self.problems: List[str] = []
        self.ham_edit = "none"      # none | h1 | chol | other
        self.ham_edit_detail = ""
        self.optimize = False
        self.meas_builder = False
        self.prop_builder = False
        self.refresh = False
        self.nk_init = False
        self.shift_init = False
        self.body = None            # name of the sampler method scanned
        self.length = None          # sampler field used as scan length
        self.checkpoint = False
        self.nk_norm: List[str] = []
        self.estimator_ok = False
        self.wd_consistent = True
        self.line = 0
        self.returns_pd = False


def _sampler_inline_policy(callee: FuncInfo, rc, fr) -> bool:
    return callee.cls == "sampling.sampler"


def skeleton(p: Program, fi: FuncInfo) -> EntrySkeleton:
    sk = EntrySkeleton()
    sk.name = fi.name
    sk.line = fi.lineno
    ev = Evaluator(p)
    ev.inline_policy = _sampler_inline_policy
    fr = ev.eval_function(fi)
    R = ev.result(fr)
    if R.op != "tuple" or len(R.args) < 2:
        sk.ok_shape = False
        sk.problems.append("entry point does not return (energy, prop_data)")
        return sk
    E, PD = R.args[0], R.args[1]
    # locate the scan
    scans = [x for x in subterms(R) if x.op == "call" and match_scan(x) is not None]
    outer = [s for s in scans if _pd_root(match_scan(s)[1]) is not None]
    if len(outer) != 1:
        sk.ok_shape = False
        sk.problems.append(f"{len(outer)} prop_data scans found in the entry point (expected 1)")
        return sk
    S = outer[0]
    f_raw = call_parts(S)[1][0]
    sk.checkpoint = f_raw.op == "call" and func_name(f_raw) in ("jax.checkpoint", "jax.remat")
    f, init, xs, length = match_scan(S)
    # estimator
    wm = wmean(E)
    be = getitem(getitem(S, const(1)), const(0))
    bw = getitem(getitem(S, const(1)), const(1))
    if wm is None:
        sk.problems.append("returned energy is not sum(e*w)/sum(w)")
    else:
        ok, msg, ns, d = wm
        facs = [strip_wrappers(x) for x in product_factors(ns)]
        sk.estimator_ok = ok and d is bw and any(x is be for x in facs) and any(x is bw for x in facs)
        if not sk.estimator_ok:
            sk.problems.append("block estimator is not sum(block_energy*block_weight)/sum(block_weight) "
                               "of the scan outputs: " + msg)
    # length
    if length.op == "attr" and length.args[0] is sym("self"):
        sk.length = length.args[1]
    else:
        sk.length = show(length, maxdepth=2)
    # body
    wd_body = hd_body = None
    if f.op == "closure":
        x, y = sym("§x"), sym("§y")
        ev2 = ev
        saved_policy = ev.inline_policy
        ev.inline_policy = None
        body = ev.open_closure(f, [x, y])
        ev.inline_policy = saved_policy
        body = strip_wrappers(body)
        if body.op == "call" and body.args[0].op == "attr" and body.args[0].args[0] is sym("self"):
            sk.body = body.args[0].args[1]
            _, pos, kws = call_parts(body)
            callee = p.lookup_method("sampling.sampler", sk.body)
            if callee is not None:
                names = [prm.name for prm in callee.pos_params()[1:]]
                amap = dict(zip(names, pos))
                amap.update(kws)
                # the carry goes to the block function's walker-state parameter and x to another one; where those
                # parameters stand in the (private) block function's signature is its own business
                state = [n_ for n_ in names if n_.startswith("prop_data")] or names[:1]
                carry_to = [n_ for n_, v_ in amap.items() if v_ is x]
                x_to = [n_ for n_, v_ in amap.items() if v_ is y]
                if not (len(carry_to) == 1 and carry_to[0] in state and len(x_to) == 1 and x_to[0] not in state):
                    sk.problems.append("scan body does not forward (carry, x) to the block function")
                hd_body = amap.get("ham_data")
                wd_body = amap.get("wave_data")
        else:
            sk.problems.append("scan body is not a call of a sampler block function")
    else:
        sk.problems.append("scan body is not a local wrapper")
    # prologue: init chain
    root = _pd_root(init)
    chain = _setitems(init)
    ov = chain.get("overlaps")
    if ov is not None and ov.op == "call" and ov.args[0].op == "attr" and ov.args[0].args[1] == "calc_overlap":
        _, pos, _ = call_parts(ov)
        if pos and pos[0] is getitem(root, const("walkers")):
            sk.refresh = True
            if wd_body is not None and len(pos) > 1 and pos[1] is not wd_body:
                sk.wd_consistent = False
                sk.problems.append("overlap refresh uses a different wave_data than the block function")
    nk = chain.get("n_killed_walkers")
    sk.nk_init = nk is not None and nk.op == "const" and nk.args[0] in (0, 0.0)
    sh = chain.get("pop_control_ene_shift")
    sk.shift_init = sh is not None and sh is getitem(root, const("e_estimate"))
    # hamiltonian pipeline (as handed to the block function)
    H = hd_body
    WD = wd_body
    if H is not None:
        H = strip_wrappers(H)
        if H.op == "call" and H.args[0].op == "attr" and H.args[0].args[1] == "build_propagation_intermediates":
            _, pos, _ = call_parts(H)
            sk.prop_builder = True
            if len(pos) >= 4 and pos[3] is not WD:
                sk.wd_consistent = False
                sk.problems.append("build_propagation_intermediates gets a different wave_data than the block function")
            H = strip_wrappers(pos[0])
        if H.op == "call" and H.args[0].op == "attr" and H.args[0].args[1] == "build_measurement_intermediates":
            _, pos, _ = call_parts(H)
            sk.meas_builder = True
            if len(pos) >= 3 and pos[2] is not WD:
                sk.wd_consistent = False
                sk.problems.append("build_measurement_intermediates gets a different wave_data than the block function")
            H = strip_wrappers(pos[0])
        elif sk.prop_builder:
            sk.problems.append("propagation intermediates are built on a Hamiltonian without measurement intermediates")
        edits = _setitems(H)
        hroot = _root(H)
        if not edits:
            sk.ham_edit = "none"
        elif set(edits) == {"h1"}:
            v = edits["h1"]
            m = m_binop(v, "+")
            okh = False
            if m is not None:
                for a, b in ((m[0], m[1]), (m[1], m[0])):
                    if a is getitem(hroot, const("h1")):
                        facs = product_factors(b)
                        names = sorted(x.args[0] for x in facs if x.op == "sym")
                        if len(facs) == 2 and names == ["coupling", "observable_op"]:
                            okh = True
            sk.ham_edit = "h1" if okh else "other"
            sk.ham_edit_detail = show(v, maxdepth=3)[:120]
        elif set(edits) == {"chol"}:
            v = strip_wrappers(edits["chol"])
            sk.ham_edit = "chol" if (v.op == "call" and "modified_cholesky" in (func_name(v) or "")) else "other"
            sk.ham_edit_detail = show(v, maxdepth=2)[:120]
        else:
            sk.ham_edit = "other"
            sk.ham_edit_detail = ",".join(sorted(edits))
        if WD is not None:
            w_ = strip_wrappers(WD)
            if w_.op == "call" and w_.args[0].op == "attr" and w_.args[0].args[1] == "optimize":
                sk.optimize = True
                _, pos, _ = call_parts(w_)
                if pos and strip_wrappers(pos[0]) is not H:
                    sk.problems.append("trial.optimize sees a different Hamiltonian than the one measured")
    # epilogue: n_killed normaliser
    fin = _setitems(PD).get("n_killed_walkers")
    if fin is not None:
        m = m_binop(fin, "/")
        if m is not None:
            sk.nk_norm = sorted(show(x, maxdepth=2) for x in product_factors(m[1]))
    sk.returns_pd = _root(PD) is getitem(S, const(0)) or PD is getitem(S, const(0))
    return sk


def _setitems(t: Optional[T]) -> Dict[str, T]:
    out: Dict[str, T] = {}
    while t is not None and t.op == "setitem":
        k = t.args[1]
        if k.op == "const" and isinstance(k.args[0], str) and k.args[0] not in out:
            out[k.args[0]] = t.args[2]
        t = t.args[0]
    return out


def _root(t: T) -> T:
    while t.op == "setitem":
        t = t.args[0]
    return t


def _pd_root(t: T) -> Optional[T]:
    r = _root(t)
    if r.op == "sym" and r.args[0].startswith("prop"):
        return r
    return None


# ----------------------------------------------------------------- driver dispatch


def _eval_cond(c: T, asg: Dict[str, object]):
    """Evaluate a condition over options[...] under an assignment; None = unknown."""
    if c.op == "const":
        return c.args[0]
    if c.op == "getitem" and c.args[1].op == "const" and c.args[0].op == "sym" and \
            c.args[0].args[0] == "options":
        return asg.get(c.args[1].args[0], None)
    if c.op == "cmp":
        a, b = _eval_cond(c.args[1], asg), _eval_cond(c.args[2], asg)
        if a is None and not (c.args[1].op == "const"):
            return None
        if b is None and not (c.args[2].op == "const"):
            return None
        op = c.args[0]
        if op == "==":
            return a == b
        if op == "!=":
            return a != b
        if op == "is":
            return a is b
        if op == "is not":
            return a is not b
        return None
    if c.op == "boolop":
        vals = [_eval_cond(x, asg) for x in c.args[1:]]
        if any(v is None for v in vals):
            return None
        return all(vals) if c.args[0] == "and" else any(vals)
    if c.op == "unop" and c.args[0] == "not":
        v = _eval_cond(c.args[1], asg)
        return None if v is None else (not v)
    if c.op == "call" and func_name(c) == "builtins.bool" and len(call_parts(c)[1]) == 1:
        v = _eval_cond(call_parts(c)[1][0], asg)
        return None if v is None else bool(v)
    return None


_UNKNOWN = object()


def _pe(t: T, asg):
    """Tiny partial evaluator for option-driven dispatch tables: constants, tuples, comparisons / bool() over
    options[...], phi, and subscripts of dict / tuple displays.  Returns a Python value or _UNKNOWN."""
    t0 = strip_wrappers(t)
    if t0.op == "const":
        return t0.args[0]
    if t0.op == "tuple":
        vals = [_pe(a, asg) for a in t0.args]
        return _UNKNOWN if any(v is _UNKNOWN for v in vals) else tuple(vals)
    if t0.op in ("phi", "ifexp") and len(t0.args) == 3:
        v = _eval_cond(t0.args[0], asg)
        return _UNKNOWN if v is None else _pe(t0.args[1] if v else t0.args[2], asg)
    if t0.op in ("cmp", "boolop", "unop") or (t0.op == "call" and func_name(t0) == "builtins.bool") or (
            t0.op == "getitem" and t0.args[0].op == "sym" and t0.args[0].args[0] == "options"):
        v = _eval_cond(t0, asg)
        if v is None and not (t0.op == "getitem" and t0.args[1].op == "const" and t0.args[1].args[0] in asg):
            return _UNKNOWN
        return v
    if t0.op == "binop" and t0.args[0] == "+":
        a, b = _pe(t0.args[1], asg), _pe(t0.args[2], asg)
        if isinstance(a, str) and isinstance(b, str):
            return a + b                      # a method name assembled from option-selected pieces
        return _UNKNOWN
    if t0.op == "getitem":
        base = strip_wrappers(t0.args[0])
        key = _pe(t0.args[1], asg)
        if key is _UNKNOWN:
            return _UNKNOWN
        if base.op == "dict":
            for k_, v_ in zip(base.args[0::2], base.args[1::2]):
                kv = _pe(k_, asg) if isinstance(k_, T) else _UNKNOWN
                if kv is not _UNKNOWN and kv == key:
                    return _pe(v_, asg)
            return _UNKNOWN
        if base.op in ("tuple", "list") and isinstance(key, int) and -len(base.args) <= key < len(base.args):
            return _pe(base.args[key], asg)
    return _UNKNOWN


def _pt(t: T, asg) -> T:
    """Term-level companion of _pe: the term an option-driven selection denotes for one option assignment -- phi arms
    chosen by their condition, entries of a dict / tuple display chosen by a key that _pe can evaluate (the key may be a
    tuple of option tests).  Anything else is returned as it is."""
    for _ in range(16):
        t0 = strip_wrappers(t)
        if t0.op in ("phi", "ifexp") and len(t0.args) == 3:
            v = _eval_cond(t0.args[0], asg)
            if v is None:
                return t0
            t = t0.args[1] if v else t0.args[2]
            continue
        if t0.op == "getitem":
            base = _pt(t0.args[0], asg)
            key = _pe(t0.args[1], asg)
            if key is not _UNKNOWN and base.op == "dict":
                hit = None
                for k_, v_ in zip(base.args[0::2], base.args[1::2]):
                    kv = _pe(k_, asg) if isinstance(k_, T) else _UNKNOWN
                    if kv is not _UNKNOWN and kv == key:
                        hit = v_
                if hit is not None:
                    t = hit
                    continue
            if key is not _UNKNOWN and base.op in ("tuple", "list") and isinstance(key, int) and \
                    -len(base.args) <= key < len(base.args):
                t = base.args[key]
                continue
        return t0
    return strip_wrappers(t)


def _select(t: T, asg) -> Optional[T]:
    while t.op in ("phi", "ifexp") and len(t.args) == 3:
        v = _eval_cond(t.args[0], asg)
        if v is None:
            return None
        t = t.args[1] if v else t.args[2]
    return t


def driver_dispatch(p: Program) -> Tuple[Dict[Tuple[str, bool, bool], Tuple[str, Dict[str, T]]], List[str]]:
    """{(ad_mode, orbital_rotation, do_sr): (entry method name, argument binding)} as read
    from driver.afqmc's wrapper selection."""
    fi = p.func("driver.afqmc")
    ev = Evaluator(p)
    fr = ev.eval_function(fi)
    problems: List[str] = []
    # the wrapper is the function differentiated by jvp / vjp
    wrappers = set()
    for e in ev.events:
        if e.kind == "call" and func_name(e.data) in ("jax.jvp", "jax.vjp"):
            wrappers.add(call_parts(e.data)[1][0])
    out: Dict[Tuple[str, bool, bool], Tuple[str, Dict[str, T]]] = {}
    if not wrappers:
        problems.append("no function is differentiated in driver.afqmc")
        return out, problems

    def arms(t):
        if t.op in ("phi", "ifexp") and len(t.args) == 3:
            return arms(t.args[1]) | arms(t.args[2]) | {t}
        return {t}
    # all AD calls must differentiate the same option-selected wrapper; inside the branch of one mode the selection may
    # already be resolved to the arm that mode picks
    W = max(wrappers, key=lambda t: (len(arms(t)), -t.uid))
    stray = [w for w in wrappers if w not in arms(W)]
    if stray:
        problems.append(f"{len(stray) + 1} distinct functions are differentiated in driver.afqmc")
    for mode, rot, sr in product(("forward", "reverse", "2rdm"), (True, False), (True, False)):
        asg = {"ad_mode": mode, "orbital_rotation": rot, "do_sr": sr}
        leaf = _select(W, asg)
        if leaf is None or leaf.op != "closure":
            problems.append(f"cannot resolve the sampler entry for options {asg}")
            continue
        x, y, z = sym("§coupling"), sym("§operator"), sym("§prop_data")
        body = ev.open_closure(leaf, [x, y, z])
        body = strip_wrappers(body)
        body = strip_wrappers(_select(body, asg) or body)
        meth = None
        if body.op == "call" and body.args[0].op not in ("attr",):
            # the callee is itself selected by the options (a table of bound methods, a helper that returns one)
            f_ = _pt(body.args[0], asg)
            if f_.op == "attr":
                body = mk("call", f_, *body.args[1:])
        if body.op == "call" and body.args[0].op == "attr":
            meth = body.args[0].args[1]
        elif body.op == "call" and body.args[0].op == "call" and func_name(body.args[0]) == "builtins.getattr" and \
                len(call_parts(body.args[0])[1]) == 2:
            # getattr(sampler, <name chosen from a table by the options>)(...)
            nm = _pe(call_parts(body.args[0])[1][1], asg)
            meth = nm if isinstance(nm, str) else None
        if meth is None:
            problems.append(f"wrapper for {asg} is not a sampler call")
            continue
        callee = p.lookup_method("sampling.sampler", meth)
        if callee is None:
            problems.append(f"sampler has no method {meth}")
            continue
        _, pos, kws = call_parts(body)
        names = [prm.name for prm in callee.pos_params()[1:]]
        amap = dict(zip(names, pos))
        amap.update(kws)
        out[(mode, rot, sr)] = (meth, amap)
    return out, problems
