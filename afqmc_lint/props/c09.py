"""C09 -- weights stay real, finite, non-negative; dead walkers stay dead."""

from __future__ import annotations

from typing import Dict, List

from ..model import AnalysisError
from ..rules import guard as G
from ..rules import typestate as ts
from ..rules.entries import skeleton
from ..rules.match import (const_num, m_arrcall, m_binop, m_method, peel_guards, product_factors,
                           zero_guard)
from ..symex import (Evaluator, call_parts, const, func_name, getitem, match_scan, show, strip_wrappers,
                     subterms, array_fn)

ID = "C09"
EXPLANATION = (
    "GUARD-2: for every concrete propagator class the step function is evaluated with its helpers "
    "inlined and every store to the weights is classified from its def-use term: it must be w*f (so a "
    "weight that is 0 stays 0 and nothing is added) or a zeroing guard where(c(w), 0, w) that tests the "
    "value it passes. GUARD-1: every constraint ratio entering a factor is lower-clipped (by its own "
    "where(r < eps, 0, r) or by the next clip of the weights), every growth factor exp(dt*shift) is "
    "followed by an upper clip, the phaseless factor carries NaN / lower / upper guards around "
    "|I| cos(theta), each step ends with an upper clip followed by the population-control shift "
    "e_estimate - 0.1*log(sum(final weights)/n_walkers)/dt. Factors must be real by construction "
    "(abs*cos, .real, exp(real)). COUNT-1: the killed-walker counter is zeroed by every entry point and "
    "normalised by a product containing n_walkers and the lengths of all scans enclosing the increment. "
    "GUARD-1: the block energy that feeds the population-control shift is normalised by the plain sum "
    "of the stored weights (finite whenever a walker is alive). "
    "GUARD-3: the ratio handed to update_greens_function_vmap (the divisor of the rank-one update, also multiplied into "
    "the cached overlap the next importance ratio divides by) is not a clipped value where(r < eps, 0, r): a walker killed "
    "inside the sweep would get 0 there, an inf / NaN Green's function, a cached overlap 0 and the weight 0 * inf = NaN. "
    "One obligation per step function (the updates it issues are listed in the message), so that refactorings inside the "
    "function keep the finding what it is. On the pinned tree all six updates of the two fast CPMC step functions "
    "(propagator_cpmc.propagate: 1, propagator_cpmc_nn.propagate: 5) fail it: known finding D8 (known_findings.json, demos in "
    "findings/D8), printed as two KNOWN-FINDING lines, exit 0. "
)
NOT_DECIDED = (
    "finiteness over long histories beyond GUARD-3 (overflow of the fast update for walkers with a vanishing but non-zero "
    "overlap, all-dead populations), values of the thresholds."
)
TECHNIQUE = "static analysis: def-use form check of every weight store (reaching definitions through inlined helpers and scan bodies)"


def _divisor_not_clipped(ctx, P, step, run_):
    """GUARD-3.  The fast CPMC blocks update the Green's function and the cached overlap with the ratio of the selected
    field.  The rank-one update divides by that ratio and the next importance factor divides by the cached overlap it was
    multiplied into.  When the ratio handed on is the *clipped* one (where(r < eps, 0, r)), a walker killed inside the
    sweep (both candidates clipped) gets the ratio 0 exactly: its Green's function becomes inf / NaN, its overlap 0, the
    next factor x / 0, and its weight 0 * inf = NaN instead of staying 0 -- the population-control shift is NaN from then
    on.  The slow reference recomputes the overlap from the determinants and stays finite."""
    from ..rules.match import m_where, zero_guard
    # one judgement per implementation: subclasses that inherit the step function share its code
    done = ctx.__dict__.setdefault("_c09_guard3_done", set())
    if step.qualname in done:
        return
    done.add(step.qualname)
    k = 0
    bad = []
    for e in run_.events:
        if e.kind != "call":
            continue
        f = e.data.args[0]
        if not (f.op == "attr" and f.args[1] == "update_greens_function_vmap"):
            continue
        _, pos, _ = call_parts(e.data)
        if len(pos) < 2:
            continue
        ratios = strip_wrappers(pos[1])
        w = m_where(ratios)
        arms = [strip_wrappers(w[1]), strip_wrappers(w[2])] if w is not None else [ratios]
        clipped = [a for a in arms if zero_guard(a) is not None and zero_guard(a)[0] in ("<", "<=")]
        if clipped:
            bad.append((k, e.line, clipped[0]))
        k += 1
    if k == 0:
        return
    # one judgement per step function (its updates are listed in the message): refactorings inside the function --
    # blocks merged into a loop, moved into a helper, split -- do not change what the finding is about
    ctx.rep.ob("GUARD-3", f"{step.qualname}: no Green's-function update divides by a ratio that can be exactly 0",
               not bad,
               f"{k} update(s), each with the ratio of the selected field as computed" if not bad else
               f"{len(bad)} of {k} update(s) (#{', #'.join(str(b_[0]) for b_ in bad)}; lines {', '.join(str(b_[1]) for b_ in bad)}) hand "
               f"the clipped ratio {show(bad[0][2], maxdepth=2)[:60]} to update_greens_function_vmap and multiply it into the cached "
               f"overlaps: a walker killed in such a block gets 0, its Green's function inf / NaN, its cached overlap 0, and its "
               f"weight 0 * inf = NaN at the next importance ratio",
               run_.frame.mod.path, bad[0][1] if bad else step.lineno)


def run(ctx):
    p = ctx.p
    props = [q for q in p.subclasses("propagation.propagator") if not p.abstract_methods(q)]
    total = 0
    for P in props:
        step = p.lookup_method(P, "propagate")
        if step is None or step.is_refusal():
            continue
        run_ = G.StepRun(p, step, P)
        stores = run_.weight_stores()
        if not stores:
            ctx.ob("GUARD-2", f"{P}.propagate: updates the weights", False,
                   "no store to prop_data['weights'] found (anchor vanished)", step)
            continue
        total += len(stores)
        for i, ws in enumerate(stores):
            where_ = "scan body" if ws.in_scan else "step"
            cons = f"{P}.propagate: weights store #{i} ({where_})"
            ctx.rep.ob("GUARD-2", cons, ws.kind != "other",
                       {"mul": "w * factor", "guard": "zeroing guard on w"}.get(ws.kind) or
                       f"weights are overwritten by {show(ws.value, maxdepth=3)[:140]}: neither w*f nor "
                       f"where(c(w), 0, w), so a dead walker can revive / weight can be added",
                       ws.e.frame.mod.path, ws.line)
            if ws.kind == "guard":
                ok, why = G.guard_shape_ok(ws.guard)
                ctx.rep.ob("GUARD-1", cons + ": guard shape", ok, why or f"where(w {ws.guard[0]} "
                           f"{show(ws.guard[2])}, 0, w)", ws.e.frame.mod.path, ws.line)
            if ws.kind != "mul":
                continue
            f = ws.factor
            ctx.rep.ob("GUARD-2", cons + ": factor is real by construction", G.is_real(f),
                       f"factor {show(f, maxdepth=3)[:120]}", ws.e.frame.mod.path, ws.line)
            nxt = _next_guards(stores, i)
            ratios = G.ratio_terms(run_, f)
            is_phaseless = any(x.op == "call" and array_fn(x) in ("cos", "angle") for x in subterms(f))
            if is_phaseless:
                guards, core = peel_guards(f)
                kinds = {}
                bad = []
                for g in guards:
                    ok, why = G.guard_shape_ok(g)
                    if not ok:
                        bad.append(why)
                    kinds[g[0]] = g
                need = []
                if "isnan" not in kinds:
                    need.append("NaN -> 0")
                if not any(k in kinds for k in ("<", "<=")):
                    need.append("below window -> 0")
                if not any(k in kinds for k in (">", ">=")):
                    need.append("above window -> 0")
                ctx.rep.ob("GUARD-1", cons + ": phaseless factor guarded (NaN, lower, upper)",
                           not need and not bad, "; ".join(need + bad) or
                           f"{len(guards)} guards around |I| cos(theta)", ws.e.frame.mod.path, ws.line)
                # core must be abs(I) * cos(theta)
                facs = [strip_wrappers(x) for x in product_factors(core)]
                has_abs = any(x.op == "call" and array_fn(x) in ("abs", "absolute") for x in facs)
                has_cos = any(x.op == "call" and array_fn(x) == "cos" for x in facs)
                ctx.rep.ob("GUARD-1", cons + ": phaseless factor is |I| * cos(theta)", has_abs and has_cos
                           and len(facs) == 2, f"core {show(core, maxdepth=2)[:100]}",
                           ws.e.frame.mod.path, ws.line)
                ctx.rep.ob("GUARD-1", cons + ": product clipped from above afterwards",
                           any(g.guard[0] in (">", ">=") for g in nxt), "next stores: " +
                           ", ".join(g.guard[0] for g in nxt), ws.e.frame.mod.path, ws.line)
                continue
            for k, r in enumerate(ratios):
                inside = G.lower_guarded_inside(f, r)
                after = any(g.guard[0] in ("<", "<=") and G.guard_shape_ok(g.guard)[0] for g in nxt)
                ctx.rep.ob("GUARD-1", cons + f": constraint ratio #{k} is lower-clipped", inside or after,
                           "clipped by its own where(r < eps, 0, r)" if inside else
                           "clipped by the following where(w < eps, 0, w)" if after else
                           f"ratio {show(r, maxdepth=2)[:100]} reaches the weights without a lower clip "
                           f"(negative / vanishing overlap ratio is not zeroed)",
                           ws.e.frame.mod.path, ws.line)
            growth = any(x.op == "call" and array_fn(x) == "exp" for x in subterms(f))
            if growth and not ratios:
                ctx.rep.ob("GUARD-1", cons + ": growth factor followed by an upper clip",
                           any(g.guard[0] in (">", ">=") and G.guard_shape_ok(g.guard)[0] for g in nxt),
                           "next stores: " + (", ".join(g.guard[0] for g in nxt) or "none"),
                           ws.e.frame.mod.path, ws.line)
            if growth and ratios:
                ctx.rep.ob("GUARD-1", cons + ": importance factor followed by an upper clip",
                           any(g.guard[0] in (">", ">=") for g in nxt),
                           "next stores: " + (", ".join(g.guard[0] for g in nxt) or "none"),
                           ws.e.frame.mod.path, ws.line)
        # the step ends with an upper clip after the last top-level multiplicative store
        top = [ws for ws in stores if not ws.in_scan]
        last_mul = max((i for i, ws in enumerate(top) if ws.kind == "mul"), default=None)
        tail = top[last_mul + 1:] if last_mul is not None else top
        ctx.ob("GUARD-1", f"{P}.propagate: step ends with an upper clip of the weights",
               any(ws.kind == "guard" and ws.guard[0] in (">", ">=") for ws in tail),
               "tail guards: " + ", ".join(ws.guard[0] for ws in tail if ws.kind == "guard"), step)
        _shift(ctx, P, step, run_, stores)
        _divisor_not_clipped(ctx, P, step, run_)
    if total < 20:
        raise AnalysisError(f"only {total} weight stores found over all propagators (expected >= 20)")
    ctx.rep.count("weight_stores", total)
    killed(ctx)
    from ..rules import common
    okp, msgp, fip = common.block_estimator_population(p)
    ctx.ob("GUARD-1", "sampler._block_scan: the shift's block energy is normalised by the plain sum of the stored weights "
           "(finite whenever a walker is alive)", okp, msgp, fip)
    ctx.rep.trust("prop_data['e_estimate'], ['pop_control_ene_shift'], ['weights'] are real (they are "
                  "computed from jnp.real energies and real weights by init_prop_data and the sampler)")


def _next_guards(stores: List[G.WeightStore], i: int) -> List[G.WeightStore]:
    out = []
    for ws in stores[i + 1:]:
        if ws.in_scan != stores[i].in_scan:
            break
        if ws.kind != "guard":
            break
        out.append(ws)
    return out


def _shift(ctx, P, step, run_, stores):
    """pop_control_ene_shift := e_estimate - 0.1 * log(sum(final weights) / n_walkers) / dt"""
    final_w = None
    shift = None
    pd = run_.result
    final_w = getitem(pd, const("weights"))
    shift = strip_wrappers(getitem(pd, const("pop_control_ene_shift")))
    ok, why = False, ""
    m = m_binop(shift, "-")
    if m is None:
        why = f"shift update is {show(shift, maxdepth=3)[:120]}"
    else:
        est, corr = m
        # corr == c * [array](log(sum(W) / n_walkers) / dt)
        core = None
        for fct in product_factors(corr):
            fct = strip_wrappers(fct)
            if const_num(fct) is None:
                core = fct if core is None else False
        lg = None
        if core not in (None, False):
            d0 = m_binop(core, "/")
            if d0 is not None and d0[1].op == "attr" and d0[1].args[1] == "dt":
                lg = m_arrcall(strip_wrappers(d0[0]), "log")
        if not (est.op == "getitem" and est.args[1].op == "const" and est.args[1].args[0] == "e_estimate"):
            why = "shift is not measured from e_estimate"
        elif lg is None:
            why = f"shift correction is not c*log(...)/dt: {show(corr, maxdepth=3)[:100]}"
        else:
            la = strip_wrappers(lg[0])
            d = m_binop(la, "/")
            sm = m_arrcall(strip_wrappers(d[0]), "sum") if d is not None else None
            if d is None or sm is None or not (d[1].op == "attr" and d[1].args[1] == "n_walkers"):
                why = "log argument is not sum(weights) / n_walkers"
            elif strip_wrappers(sm[0]) is not strip_wrappers(final_w) or len(sm) != 1:
                why = ("the shift is computed from weights other than the final (clipped) weights of "
                       "the step, or not from their plain sum")
            else:
                ok, why = True, "e_estimate - c*log(sum(w_final)/n_walkers)/dt"
    ctx.ob("GUARD-1", f"{P}.propagate: population-control shift uses the final weights", ok, why, step)


def killed(ctx):
    """COUNT-1: reported killed-walker fraction lies in [0, 1]."""
    p = ctx.p
    rep = ts.rep_change_functions(p)
    samp = p.cls("sampling.sampler")
    P = "propagation.propagator_restricted"
    n = 0
    for name, fi in sorted(samp.methods.items()):
        if not name.startswith("propagate_phaseless"):
            continue
        sk = skeleton(p, fi)
        run_ = ts.TSRun(p, fi, P, rep)
        enclosing = None
        stack = []
        added = None
        for e in run_.events:
            if e.kind == "scan_enter":
                sc = match_scan(e.data)
                stack.append(sc[3])
            elif e.kind == "scan_exit":
                stack.pop()
            elif e.kind == "store" and len(e.data[1]) == 1 and e.data[1][0].op == "const" and \
                    e.data[1][0].args[0] == "n_killed_walkers" and \
                    m_binop(strip_wrappers(e.data[2]), "+") is not None and enclosing is None and any(
                        strip_wrappers(x_) is strip_wrappers(e.data[4]) for x_ in m_binop(strip_wrappers(e.data[2]), "+")):
                enclosing = [show(x, maxdepth=2) for x in stack]
                added = e.data[2]
        if enclosing is None:
            ctx.ob("COUNT-1", f"{fi.qualname}: killed-walker counter is incremented", False,
                   "no `+=` on n_killed_walkers found on this path", fi)
            continue
        n += 1
        need = sorted(enclosing + ["prop.n_walkers"])
        have = list(sk.nk_norm)
        missing = []
        pool = list(have)
        for x in need:
            if x in pool:
                pool.remove(x)
            else:
                missing.append(x)
        extra_ok = all(s.startswith(("self.n_", "prop.n_")) for s in pool)
        ctx.ob("COUNT-1", f"{fi.qualname}: killed-walker fraction normalised by all enclosing counts",
               not missing and extra_ok and sk.nk_init,
               (f"normaliser {have} lacks {missing}" if missing else
                f"normaliser {have} has non-count factors {pool}" if not extra_ok else
                "counter is not zeroed on entry" if not sk.nk_init else
                f"normaliser {have} >= increments {need}"), fi)
        # the increment is size - count_nonzero of the same weights
        m = m_binop(strip_wrappers(added), "+")
        inc_ok = False
        if m is not None:
            # the increment is the operand that is not the previous counter value
            prev_ = [x_ for x_ in m if any(y.op == "getitem" and y.args[1].op == "const" and
                                           y.args[1].args[0] == "n_killed_walkers" for y in [strip_wrappers(x_)])]
            step_ = strip_wrappers(m[0] if prev_ and strip_wrappers(m[1]) is strip_wrappers(prev_[0]) else m[1])
            inc = m_binop(step_, "-")
            if inc is not None:
                a, b = inc
                cn = m_arrcall(strip_wrappers(b), "count_nonzero")
                if a.op == "attr" and a.args[1] == "size" and cn is not None and \
                        strip_wrappers(cn[0]) is strip_wrappers(a.args[0]):
                    inc_ok = True
            # equivalent counts of dead walkers: sum(w == 0), (w == 0).sum(), count_nonzero(w == 0)
            arg_ = None
            for fn_ in ("sum", "count_nonzero"):
                a_ = m_arrcall(step_, fn_) if step_.op == "call" else None
                if a_ is not None and len(a_) == 1:
                    arg_ = strip_wrappers(a_[0])
            mm_ = m_method(step_, "sum") if step_.op == "call" else None
            if mm_ is not None and not mm_[1]:
                arg_ = strip_wrappers(mm_[0])
            if arg_ is not None and arg_.op == "cmp" and arg_.args[0] == "==":
                l_, r_ = strip_wrappers(arg_.args[1]), strip_wrappers(arg_.args[2])
                w_ = l_ if const_num(r_) == 0 else (r_ if const_num(l_) == 0 else None)
                if w_ is not None and w_.op == "getitem" and w_.args[1].op == "const" and w_.args[1].args[0] == "weights":
                    inc_ok = True
        ctx.ob("COUNT-1", f"{fi.qualname}: increment is the number of zero weights (size - count_nonzero, or sum(w == 0))", inc_ok,
               "0 <= increment <= n_walkers" if inc_ok else f"increment {show(added, maxdepth=3)[:120]}", fi)
    if n < 4:
        raise AnalysisError("COUNT-1 matched fewer than 4 entry points")
    # population size: weights are initialised with n_walkers entries
    for q in p.subclasses("propagation.propagator"):
        init = p.classes[q].methods.get("init_prop_data")
        if init is None or init.is_abstract:
            continue
        import ast as _ast
        found = any(isinstance(nd, _ast.Call) and isinstance(nd.func, _ast.Attribute) and nd.func.attr == "ones"
                    and nd.args and _ast.unparse(nd.args[0]) == "self.n_walkers"
                    for nd in _ast.walk(init.node))
        calls_super = any(isinstance(nd, _ast.Call) and isinstance(nd.func, _ast.Name) and nd.func.id == "super"
                          for nd in _ast.walk(init.node))
        if not (found or calls_super):
            # the initial state may be assembled by a private helper (shared between the restricted and the
            # unrestricted class): decided on the value graph, helpers opened in place
            ev_ = Evaluator(p)
            ev_.auto_inline_helpers = True
            try:
                r_ = ev_.result(ev_.eval_function(init))
            except Exception:
                r_ = None
            w_ = strip_wrappers(getitem(r_, const("weights"))) if r_ is not None else None
            sized = w_ is not None and any(
                x.op == "call" and (array_fn(x) or "") in ("ones", "full", "ones_like") and any(
                    y.op == "attr" and y.args[1] == "n_walkers" for y in subterms(x)) for x in subterms(w_))
            if sized:
                found = True
            elif w_ is None or not any(x.op == "call" and (array_fn(x) or "") in ("ones", "full", "zeros", "empty", "array")
                                        for x in subterms(w_)):
                ctx.rep.note(f"{q}.init_prop_data: the initial weights are produced in a way the value graph does not follow "
                             f"({show(w_, maxdepth=2)[:60] if w_ is not None else 'no result'}); the population-size rule is "
                             f"not applied")
                continue
        ctx.ob("COUNT-1", f"{q}.init_prop_data: weights have n_walkers entries", found or calls_super,
               "weights = ones(self.n_walkers)" if found else "delegates to super().init_prop_data", init,
               nontrivial=found)
