#!/venv/bin/python
"""Obligation counts per property and rule on the unchanged tree.

usage: tools/count_baseline.py [--repo DIR] --write   record the counts in afqmc_lint/baseline_counts.json
       tools/count_baseline.py [--repo DIR]           compare: any rule whose count DROPPED is printed (exit 1)

The checks turn an idiom they do not recognise into a note, not an alarm.  That is the right answer on a changed tree,
but on the unchanged tree a rule that silently stops applying is lost coverage; this regression guard is run after
every change to the checker (it is not part of the registered commands: on a changed tree a drop is legitimate).
"""
import json
import os
import re
import subprocess
import sys
from concurrent.futures import ThreadPoolExecutor

VERIF = os.path.dirname(os.path.dirname(os.path.abspath(__file__)))
BASE = os.path.join(VERIF, "afqmc_lint", "baseline_counts.json")


def counts(prop, repo):
    out = subprocess.run([os.path.join(VERIF, "check"), prop, "--no-write", "--repo", repo], capture_output=True, text=True).stdout
    m = re.search(r"obligations=(\d+).*rules=(\{.*\})", out)
    if not m:
        return None
    d = eval(m.group(2))
    d["_total"] = int(m.group(1))
    return d


def main():
    repo = "/repo"
    if "--repo" in sys.argv:
        repo = sys.argv[sys.argv.index("--repo") + 1]
    props = [f"C{i:02d}" for i in range(1, 21)]
    with ThreadPoolExecutor(16) as ex:
        res = dict(zip(props, ex.map(lambda c: counts(c, repo), props)))
    if "--write" in sys.argv:
        json.dump(res, open(BASE, "w"), indent=1, sort_keys=True)
        print("written", BASE)
        return 0
    base = json.load(open(BASE))
    bad = 0
    for c in props:
        if res[c] is None:
            print(c, "no verdict line")
            bad += 1
            continue
        for r, n in base.get(c, {}).items():
            if res[c].get(r, 0) < n:
                print(f"{c} {r}: {n} -> {res[c].get(r, 0)}")
                bad += 1
    print("drops:", bad)
    return 1 if bad else 0


if __name__ == "__main__":
    sys.exit(main())
