"""C06 -- AD energy derivatives (structural clauses)."""

from __future__ import annotations

import ast
from typing import Dict, List, Set, Tuple

from ..model import AnalysisError
from ..rules import entries
from ..rules.bind import package_walk
from ..rules.match import m_binop, product_factors
from ..symex import (Evaluator, call_parts, const, func_name, getitem, is_const, show, strip_wrappers,
                     subterms, sym)
from .c18 import eigh_jvp

ID = "C06"
EXPLANATION = (
    "PURE-1 (who-may-call over the resolved call graph): the set of functions reachable from the sampler's "
    "AD entry points through trial.*, prop.*, ham.*, sr.*, linalg_utils.* contains no call to "
    "linalg_utils.detach or lax.stop_gradient, no custom_jvp/custom_vjp other than the audited _eigh, and no "
    "NumPy call on non-static data (NumPy on tracers raises or constant-folds the derivative away). BIND-2 in "
    "driver.afqmc: forward mode seeds tangent 1.0 on the primal bound to `coupling` and zero tangents on the "
    "observable and the walker state, at coupling 0.0; reverse mode reads cotangent index 1 -- the primal "
    "bound to `observable_op` -- with coupling 1.0 and a zero operator, so both modes differentiate "
    "E(h1 + lambda*O) at the unperturbed Hamiltonian; has_aux is set and the results are unpacked as "
    "(energy, derivative, state). SIB-1: every AD entry point shares the plain sampler's prologue, scanned "
    "block function and estimator (primal path identical at zero coupling; details in C12). GUARD-1: the "
    "eigen-derivative used by the differentiable SCF never inverts a (near-)zero gap (C18). "
    "SIB-1: for every option combination the driver dispatches to, the blocks see trial.optimize(edited "
    "Hamiltonian) unconditionally when orbital rotation is requested (a branch on the coupling gives "
    "forward mode a different function than finite differences see). BIND-2: the third AD result is "
    "carried to the next block as the state, the tangent output (index 1) is the value screened for "
    "nan/inf. "
    "KEYS-1 (non-interference): trial.optimize rewrites no wave_data key that a propagation-intermediates "
    "builder reads (today it may only replace 'mo_coeff'; 'rdm1' drives the mean-field shift of the plain "
    "and of the AD runs alike). "
    ' SYM-1: the Fock matrix used by the differentiable SCF is symmetric in the one-body matrix it reads (h1 enters as (h1 + h1^T)/2 or through a symmetric contraction), so that the derivative with respect to a symmetric perturbation is the symmetric derivative the driver contracts. '
)
NOT_DECIDED = (
    "that JAX's derivative equals a finite difference (a property of JAX given purity), the analytic "
    "one-body limit, traces of the AD density matrix."
)
TECHNIQUE = "static analysis: call-graph reachability query (gradient-blocking constructs), tangent/cotangent binding check, skeleton comparison"

AUDITED_CUSTOM_JVP = {"linalg_utils._eigh": "degenerate-safe eigh derivative, guarded (C18 GUARD-1)"}
NP_CONSTANTS = {"newaxis", "pi", "inf", "nan", "float64", "float32", "complex128", "complex64", "int64",
                "int32", "ndarray", "e"}
BANNED = {"jax.lax.stop_gradient": "blocks the derivative", "linalg_utils.detach": "zeroes the tangent"}


def call_graph(p):
    w = package_walk(p)
    edges: Dict[str, Set[str]] = {}
    sites: Dict[str, List] = {}
    for e, fi in w.sites:
        if fi is None:
            continue
        edges.setdefault(fi.qualname, set())
        sites.setdefault(fi.qualname, []).append(e)
        f = e.data.args[0]
        cands = w.ev.resolve_callees(f, e.frame)
        for c, _ in cands or []:
            edges[fi.qualname].add(c.qualname)
        # functions passed as values (scan bodies are closures and inlined; vmap(self.f) refs)
        for x in subterms(e.data):
            if x.op == "attr" and x is not f:
                cs = w.ev.resolve_callees(x, e.frame)
                for c, _ in cs or []:
                    if c.name == x.args[1]:
                        edges[fi.qualname].add(c.qualname)
            if x.op == "fn":
                edges[fi.qualname].add(x.args[0])
    return w, edges, sites


def pure1(ctx):
    p = ctx.p
    w, edges, sites = call_graph(p)
    samp = p.cls("sampling.sampler")
    roots = [fi.qualname for n, fi in samp.methods.items() if n.startswith("propagate_phaseless_ad")]
    if len(roots) < 4:
        raise AnalysisError("AD entry points not found")
    reach: Set[str] = set()
    work = list(roots)
    while work:
        q = work.pop()
        if q in reach:
            continue
        reach.add(q)
        for c in edges.get(q, ()):
            if c not in reach:
                work.append(c)
    ctx.rep.count("functions_reachable_from_AD_entries", len(reach))
    if len(reach) < 40:
        raise AnalysisError(f"only {len(reach)} functions reachable from the AD entry points (expected > 40)")
    bad_calls = []
    np_calls = []
    for q in sorted(reach):
        fi = p.functions.get(q)
        for e in sites.get(q, []):
            for x in subterms(e.data):
                if x.op == "name" and x.args[0] in BANNED:
                    bad_calls.append((q, e.line, x.args[0]))
                if x.op == "fn" and x.args[0] in BANNED:
                    bad_calls.append((q, e.line, x.args[0]))
            fn = func_name(e.data) or ""
            if fn.startswith("numpy.") and fn not in ("numpy.newaxis",):
                _, pos, kws = call_parts(e.data)
                if not all(_static(a) for a in pos):
                    np_calls.append((q, e.line, fn))
            # NumPy functions handed to a transform (vmap(np.linalg.qr)(x)) act on tracers as well
            for x in subterms(e.data):
                if x.op == "name" and x.args[0].startswith("numpy.") and x is not e.data.args[0] and \
                        x.args[0].split(".")[-1] not in NP_CONSTANTS:
                    np_calls.append((q, e.line, x.args[0] + " (passed as a function)"))
    ctx.ob("PURE-1", "no gradient-blocking call is reachable from the AD entry points", not bad_calls,
           f"{bad_calls[:4]}" if bad_calls else f"{len(reach)} reachable functions scanned", p.functions[roots[0]])
    unresolved = sorted({(path, nm, line) for path, nm, line in w.ev.unknown_names
                         if any(q.split(".")[0] == path.split("/")[-1][:-3] for q in reach)})
    ctx.ob("PURE-1", "every global name on the differentiated path resolves", not unresolved,
           f"unresolved: {unresolved[:4]}" if unresolved else "all names resolve", p.functions[roots[0]])
    ctx.ob("PURE-1", "no NumPy call on traced data is reachable from the AD entry points", not np_calls,
           f"{np_calls[:4]}" if np_calls else "none", p.functions[roots[0]])
    cj = sorted(q for q in reach if q in p.functions and p.functions[q].is_custom_jvp)
    unaudited = [q for q in cj if q not in AUDITED_CUSTOM_JVP]
    ctx.ob("PURE-1", "custom derivative rules on the differentiated path are the audited ones", not unaudited,
           f"unaudited custom_jvp: {unaudited}" if unaudited else f"custom_jvp reachable: {cj}",
           p.functions[roots[0]])
    # decorators that wrap reachable functions in custom_vjp / stop-gradient helpers
    for q in sorted(reach):
        fi = p.functions.get(q)
        if fi is None:
            continue
        for d in fi.decorators:
            s_ = ast.unparse(d)
            if "custom_vjp" in s_ or "stop_gradient" in s_:
                ctx.ob("PURE-1", f"{q}: decorator does not replace the derivative", False, s_, fi)
    return reach


def _static(t) -> bool:
    t = strip_wrappers(t)
    if t.op == "const":
        return True
    if t.op == "attr":
        return t.args[1] in ("shape", "size", "ndim", "dtype") or _static(t.args[0]) or t.args[0].op == "sym"
    if t.op == "getitem":
        return _static(t.args[0]) and _static(t.args[1])
    if t.op in ("tuple", "list"):
        return all(_static(a) for a in t.args)
    if t.op == "binop":
        return _static(t.args[1]) and _static(t.args[2])
    if t.op == "call":
        fn = func_name(t) or ""
        return fn.startswith("builtins.") and all(_static(a) for a in call_parts(t)[1])
    return False


def driver_modes(ctx):
    p = ctx.p
    fi = p.func("driver.afqmc")
    ev = Evaluator(p)
    fr = ev.eval_function(fi)
    calls = [(e, e.data) for e in ev.events if e.kind == "call" and func_name(e.data) in ("jax.jvp", "jax.vjp")]
    jv = [c for c in calls if func_name(c[1]) == "jax.jvp"]
    vj = [c for c in calls if func_name(c[1]) == "jax.vjp"]
    if len(jv) != 1 or len(vj) != 2:
        raise AnalysisError(f"driver.afqmc: expected 1 jvp and 2 vjp calls, found {len(jv)} / {len(vj)}")
    e, t = jv[0]
    _, pos, kws = call_parts(t)
    prim, tang = pos[1], pos[2]
    ok_shape = prim.op == "tuple" and tang.op == "tuple" and len(prim.args) == 3 and len(tang.args) == 3
    ctx.ob("BIND-2", "driver.afqmc (forward): three primals / three tangents for (coupling, observable, state)",
           ok_shape, f"{len(prim.args) if prim.op == 'tuple' else '?'} primals", fi, e.line)
    if ok_shape:
        ok_seed = tang.args[0].op == "const" and tang.args[0].args[0] == 1.0
        z1 = strip_wrappers(tang.args[1])
        m = m_binop(z1, "*")
        ok_zero = m is not None and any(strip_wrappers(a).op == "const" and strip_wrappers(a).args[0] == 0.0 for a in m)
        ctx.ob("BIND-2", "driver.afqmc (forward): unit tangent on the coupling, zero tangent on the operator",
               ok_seed and ok_zero, f"tangents ({show(tang.args[0])}, {show(tang.args[1], maxdepth=2)[:40]}, ...)",
               fi, e.line)
        ok_pt = prim.args[0].op == "const" and prim.args[0].args[0] == 0.0
        ctx.ob("BIND-2", "driver.afqmc (forward): derivative taken at zero coupling", ok_pt,
               f"coupling primal {show(prim.args[0])}", fi, e.line)
        # the operator primal is the observable
        obs = strip_wrappers(prim.args[1])
        ctx.ob("BIND-2", "driver.afqmc (forward): the operator primal is the observable", "observable" in show(obs,
               maxdepth=4) or "h1" in show(obs, maxdepth=4), show(obs, maxdepth=3)[:80], fi, e.line)
    ctx.ob("BIND-2", "driver.afqmc (forward): has_aux=True", is_const(kws.get("has_aux", const(False)), True), "", fi,
           e.line)
    # reverse modes
    for k, (e, t) in enumerate(sorted(vj, key=lambda c: c[0].line)):
        _, pos, kws = call_parts(t)
        mode = "reverse" if k == 0 else "2rdm"
        okn = len(pos) == 4
        ctx.ob("BIND-2", f"driver.afqmc ({mode}): vjp over (coupling, operator, state)", okn, f"{len(pos) - 1} primals",
               fi, e.line)
        if not okn:
            continue
        ok_c = pos[1].op == "const" and pos[1].args[0] == 1.0
        ctx.ob("BIND-2", f"driver.afqmc ({mode}): coupling primal is 1.0", ok_c, show(pos[1]), fi, e.line)
        if mode == "reverse":
            z = strip_wrappers(pos[2])
            m = m_binop(z, "*")
            okz = m is not None and any(strip_wrappers(a).op == "const" and strip_wrappers(a).args[0] == 0.0 for a in m)
            ctx.ob("BIND-2", "driver.afqmc (reverse): the operator primal is the zero matrix (derivative at the "
                   "unperturbed Hamiltonian)", okz, show(z, maxdepth=3)[:60], fi, e.line)
        ctx.ob("BIND-2", f"driver.afqmc ({mode}): has_aux=True", is_const(kws.get("has_aux", const(False)), True), "",
               fi, e.line)
        # cotangent index
        fun = getitem(t, const(1))
        uses = [x for x in all_terms_of(ev) if x.op == "getitem" and x.args[0].op == "call" and x.args[0].args[0] is fun]
        idx = {x.args[1].args[0] for x in uses if x.args[1].op == "const"}
        seeds = {show(call_parts(x.args[0])[1][0]) for x in uses if call_parts(x.args[0])[1]}
        ctx.ob("BIND-2", f"driver.afqmc ({mode}): the cotangent of the operator (index 1) is read, with unit seed",
               idx == {1} and seeds == {"1.0"}, f"indices {sorted(idx)}, seeds {sorted(seeds)}", fi, e.line)
    # unpack order: (energy, derivative/vjp_fun, state): the third result is the new walker state and must be stored
    # back into the variable the state primal of the next call is read from (loop-carried), whatever its name
    order_ok = True
    why = []
    for e, t in calls:
        targets = {}
        for ev_ in ev.events:
            if ev_.kind == "assign" and ev_.data[1].op == "getitem" and ev_.data[1].args[0] is t and \
                    ev_.data[1].args[1].op == "const":
                targets[ev_.data[1].args[1].args[0]] = ev_.data[0]
        _, pos_, _ = call_parts(t)
        state = pos_[1].args[2] if func_name(t) == "jax.jvp" and pos_[1].op == "tuple" and len(pos_[1].args) == 3 else (
            pos_[3] if func_name(t) == "jax.vjp" and len(pos_) == 4 else None)
        carried = {x.args[1] for x in subterms(state) if x.op in ("havoc", "loopout") and len(x.args) > 1
                   and isinstance(x.args[1], str)} if state is not None else set()
        if isinstance(state, type(t)) and state.op == "sym":
            carried.add(state.args[0])
        if sorted(targets) != [0, 1, 2] or len(set(targets.values())) != 3:
            order_ok = False
            why.append(f"results unpacked to {targets}")
        elif targets[2] not in carried:
            order_ok = False
            why.append(f"result [2] is stored to '{targets[2]}' but the state primal is read from {sorted(carried)}")
    ctx.ob("BIND-2", "driver.afqmc: AD results are unpacked as (energy, derivative, state) and the state is carried to "
           "the next block", order_ok, "; ".join(why), fi)
    # forward mode: result [1] is the tangent (the observable); it is the value screened for nan / inf
    e_j, t_j = jv[0]
    screened = [strip_wrappers(call_parts(x)[1][0]) for x in all_terms_of(ev) if x.op == "call" and
                (func_name(x) or "").split(".")[-1] in ("isnan", "isinf", "isfinite") and call_parts(x)[1]]
    fw = [x for x in screened if x.op == "getitem" and x.args[0] is t_j and x.args[1].op == "const"]
    ok_role = bool(fw) and {x.args[1].args[0] for x in fw} == {1}
    ctx.ob("BIND-2", "driver.afqmc (forward): the tangent output (index 1) is the value used and screened as the observable",
           ok_role, f"nan/inf screening reads result index {sorted({x.args[1].args[0] for x in fw})}", fi, e_j.line)
    # wrapper binding is checked in C12 (driver dispatch); restate the link here
    disp, problems = entries.driver_dispatch(p)
    ok = not problems and all(v[1].get("coupling") is sym("§coupling") and v[1].get("observable_op") is sym("§operator")
                              and v[1].get("prop_data") is sym("§prop_data") for v in disp.values())
    ctx.ob("BIND-2", "driver.afqmc: the differentiated wrapper forwards (x, y, z) to (coupling, observable_op, prop_data) "
           "for every option combination", ok and len(disp) == 12, f"{len(disp)} combinations", fi)


def all_terms_of(ev):
    seen = set()
    out = []
    for e in ev.events:
        ts = []
        if e.kind == "call":
            ts = [e.data]
        elif e.kind == "assign":
            ts = [e.data[1]]
        elif e.kind == "store":
            ts = [e.data[2]]
        for t in ts:
            for x in subterms(t, seen):
                out.append(x)
    return out


def primal_path(ctx):
    p = ctx.p
    plain = entries.skeleton(p, p.func("sampling.sampler.propagate_phaseless"))
    for name, fi in sorted(p.cls("sampling.sampler").methods.items()):
        if not name.startswith("propagate_phaseless_ad"):
            continue
        sk = entries.skeleton(p, fi)
        same = sk.ok_shape and (sk.refresh, sk.nk_init, sk.shift_init, sk.estimator_ok) == (
            plain.refresh, plain.nk_init, plain.shift_init, plain.estimator_ok) and sk.body in (
            "_sr_block_scan", "_block_scan")
        ctx.ob("SIB-1", f"{name}: primal path (prologue, block function, estimator) is the plain sampler's", same,
               f"body {sk.body}, estimator ok {sk.estimator_ok}; " + "; ".join(sk.problems), fi)
        ok_edit = sk.ham_edit in ("h1", "chol")
        ctx.ob("SIB-1", f"{name}: the coupling enters only through the Hamiltonian edit", ok_edit,
               f"edit: {sk.ham_edit} {sk.ham_edit_detail[:60]}", fi)
    # orbital relaxation is part of the differentiated function: when the driver asks for it, the wave_data the
    # blocks see is trial.optimize(edited Hamiltonian) on every path -- a branch on the coupling (lax.cond, where)
    # gives forward mode, evaluated at coupling 0, a different function than finite differences see
    disp, problems = entries.driver_dispatch(p)
    for (mode, rot, sr), (meth, amap) in sorted(disp.items()):
        if mode == "2rdm" or not meth.startswith("propagate_phaseless_ad"):
            continue
        sk = entries.skeleton(p, p.func(f"sampling.sampler.{meth}"))
        ctx.ob("SIB-1", f"[ad_mode={mode}, orbital_rotation={rot}, do_sr={sr} -> {meth}]: the blocks see "
               f"{'trial.optimize(edited Hamiltonian)' if rot else 'the unrelaxed trial'} unconditionally",
               sk.ok_shape and sk.optimize == rot,
               f"wave_data handed to the blocks: {'trial.optimize(...)' if sk.optimize else 'not a plain trial.optimize(...) call'}"
               + ("; " + "; ".join(sk.problems) if sk.problems else ""), p.func(f"sampling.sampler.{meth}"))


def optimize_leaves_propagation_inputs(ctx):
    """KEYS-1 (non-interference).  The orbital-relaxing AD entry points call trial.optimize and then build the same
    propagation intermediates as the plain sampler.  Those intermediates read wave_data (the density used for the
    mean-field shift); if optimize rewrote one of the keys they read, the AD primal run would importance-sample with
    a different shift than the plain run of the same trial.  optimize may only replace keys the propagation builders
    do not consume (today: 'mo_coeff')."""
    from ..rules import keys
    p = ctx.p
    ka = keys.key_analysis(p)
    consumed = {}
    for P in p.subclasses("propagation.propagator"):
        if p.abstract_methods(P) or p.lookup_method(P, "_build_propagation_intermediates") is None:
            continue
        for k, site in keys.reads_of(ka, P, ["_build_propagation_intermediates"], "wave_data").items():
            consumed.setdefault(k, (P, site))
    n = 0
    for cname, ci in sorted(p.classes.items()):
        if not cname.startswith("wavefunctions.") or "optimize" not in ci.methods:
            continue
        fi = ci.methods["optimize"]
        if fi.is_abstract or fi.is_refusal():
            continue
        w = keys.writes_of(ka, cname, "optimize", "wave_data")
        if not w:
            continue          # the default returns wave_data unchanged
        n += 1
        clash = sorted(k for k in w if k in consumed)
        ctx.ob("KEYS-1", f"{cname}.optimize: rewrites no wave_data key that the propagation intermediates are built from",
               not clash, f"optimize stores {sorted(w)}; builders read {sorted(consumed)}" +
               (f"; overwritten input(s) {clash}" if clash else ""), fi)
    if n == 0:
        ctx.rep.note("no trial class relaxes its orbitals in optimize; KEYS-1 non-interference rule has no instance")


def run(ctx):
    optimize_leaves_propagation_inputs(ctx)
    from .c18 import fock_symmetric_in_h1
    from ..rules.trialsib import Sib as _Sib
    fock_symmetric_in_h1(ctx, _Sib(ctx))
    pure1(ctx)
    driver_modes(ctx)
    primal_path(ctx)
    eigh_jvp(ctx)
