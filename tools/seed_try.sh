#!/bin/bash
# usage: tools/seed_try.sh <seed-id> <Cxx> [more checks]   -- apply one kept seeded change to /repo, run the named checks, undo
sid=$1; shift
git -C /repo apply /verif/seeded/$sid/patch.diff || exit 2
for c in "$@"; do /verif/check $c --no-write 2>&1 | grep -v "WARNING conda" | cut -c1-${W:-400}; done
git -C /repo checkout -- .
