#!/bin/bash
# usage: tools/brecheck.sh <root>   -- re-run, for every patch of a benign campaign that raised an alarm when it was
# first evaluated (evalK.json non-empty), only the checks that alarmed; prints what still alarms.
root=${1:-/tmp/benign2}
for j in $root/C??.out/eval*.json; do
  checks=$(python3 -c "import json;d=json.load(open('$j'));print(' '.join(sorted(d)))" 2>/dev/null)
  [ -z "$checks" ] && continue
  k=$(basename $j .json); k=${k#eval}; p=$(dirname $j)/patch$k.diff
  out=$(W=260 /verif/tools/ptry.sh $p $checks | grep -v "^\[C\|^VIOLATION" | head -${L:-3})
  if [ -n "$out" ]; then echo "== $(basename $(dirname $j) .out)-$k [$checks]"; echo "$out"; fi
done
