"""C11 -- determinant-list trials mean what they say (structural clauses)."""

from __future__ import annotations

import ast
from typing import Dict, List, Optional, Tuple

from ..model import AnalysisError, dotted
from ..rules import common
from ..rules.match import m_method
from ..rules.trialsib import Sib
from ..symex import (Evaluator, array_fn, call_parts, const, func_name, getitem, is_const, match_vmap,
                     show, strip_wrappers, subterms, sym)

ID = "C11"
EXPLANATION = (
    "KIND-3 (index-space agreement across modules): get_excitations produces, per listed determinant, the "
    "orbital labels vacated in the reference (nonzero((d0 - d) > 0)) and the labels newly occupied "
    "(nonzero((d0 - d) < 0)); multislater evaluates det(G[ix_(cre, des)]) on the half Green's function "
    "G = (phi inv(phi[occ(ref), :]))^T whose first axis is numbered by the *position of the electron among "
    "the occupied reference orbitals* and whose second axis by orbital label. Obligation: on the def-use "
    "path from the producer to G's first axis the creation lists pass through exactly one label -> rank "
    "conversion ((cumsum(reference occupation) - 1)[label], of the same spin), the destruction lists "
    "through none, and the parity is computed from labels. PAIR-1: alpha lists index the alpha Green's "
    "function and beta lists the beta one, with the same (i, j) block key for creation and destruction "
    "lists and coefficients; parity(d0a, Acre, Ades) / parity(d0b, Bcre, Bdes); get_fci_state fills "
    "det[s] from occ_s with nelec[s]; ref_det = [d0a, d0b]. KEYS-2: the six values returned by "
    "get_excitations are the six wave_data keys multislater reads, in the documented order; read_dets "
    "reads int ndets, int norbs, {double coeff, norbs chars} with read sizes matching the struct formats "
    "and maps a/b/2 to up/down/both. SIB-2: restricted and unrestricted multislater overlaps agree for "
    "equal spin blocks (see C01). "
    "PAIR-1 (parity): the occupation segment counted for each move is the running occupation the loop "
    "updates, which is a private copy of the reference. "
    "PAIR-1 (value graph): each parity(...) call receives the reference occupation of spin s, the vacated "
    "labels of spin s and the newly occupied labels of spin s; both ends of the segment counted inside "
    "parity depend on both indices. Producer sites written as D.setdefault(k, []).append(x) are read as "
    "D[k] = D.get(k, []) + [x]. "
    " MUT-1: get_excitations / get_fci_state / read_dets do not store into the objects they are handed (the caller's determinant dictionary is converted again with another cut-off). MINOR-1 (pitfall rule): a written-out 2 x 2 Wick minor subtracts the cross pairing M[a,d]*M[c,b]. "
)
NOT_DECIDED = "parity/sign conventions as formulas, the zero-variance consequence for exact trials."
TECHNIQUE = "static analysis: cross-module index-space (label vs rank) def-use rule, pairing rules, reader format table"

PI = "pyscf_interface"


def run(ctx):
    kind3(ctx)
    consumer(ctx)
    producer_pairing(ctx)
    read_dets(ctx)
    parity_rule(ctx)
    inputs_not_modified(ctx)
    s = Sib(ctx)
    s.multislater_restricted_vs_unrestricted()
    s.multislater_reference_pairing()
    # the multislater trial takes its local energy from the finite-difference machinery of wave_function_auto: the
    # one-body normal-ordering term its builder stores is typed with the index kinds of C15
    from . import c15 as _c15
    _c15.builders(ctx, only_auto=True)


def inputs_not_modified(ctx):
    """MUT-1.  The determinant list handed to get_excitations (and what get_fci_state / read_dets are given) stays the
    caller's: the same dictionary is converted again with another cut-off, or kept for reference.  A store into it --
    `state[d] *= parity(...)` -- changes the meaning of the list for every later use."""
    from ..rules.pitfalls import param_mutations
    for q in ("get_excitations", "get_fci_state", "read_dets"):
        try:
            fi = ctx.p.func(f"{PI}.{q}")
        except AnalysisError:
            continue
        if fi.node is None or fi.is_jit:
            continue
        muts = param_mutations(fi.node, methods=True)
        ctx.ob("MUT-1", f"{q}: the objects it is handed are not modified in place", not muts,
               "; ".join(f"line {ln}: {txt} writes into the caller's '{prm}'" for ln, txt, prm in muts[:3]) or
               "no store into a parameter", fi)


def _assign_targets(fn_node, name: str):
    """Assignments `name[key] = value` in a function, with their enclosing if-test polarity."""
    out = []

    def walk(stmts, conds):
        for st in stmts:
            if isinstance(st, ast.Assign):
                tg = st.targets[0]
                pairs = []
                if isinstance(tg, ast.Tuple) and isinstance(st.value, ast.Tuple) and len(tg.elts) == len(st.value.elts):
                    pairs = list(zip(tg.elts, st.value.elts))
                else:
                    pairs = [(tg, st.value)]
                for t, v in pairs:
                    if isinstance(t, ast.Subscript) and isinstance(t.value, ast.Name) and t.value.id == name:
                        out.append((t, v, list(conds), st.lineno))
            elif isinstance(st, ast.If):
                walk(st.body, conds + [(st.test, True)])
                walk(st.orelse, conds + [(st.test, False)])
            elif isinstance(st, (ast.For, ast.While)):
                walk(st.body, conds)
            elif isinstance(st, ast.With):
                walk(st.body, conds)

    walk(fn_node.body, [])
    return out


def kind3(ctx):
    p = ctx.p
    fi = p.func(f"{PI}.get_excitations")
    node = fi.node
    # the four excitation tables are identified by their position in the returned tuple
    # (Acre, Ades, Bcre, Bdes, coeff, ref_det), not by what the local variables are called
    role: Dict[str, str] = {}
    from ..model import returned_values
    rets = [v_ for _, v_ in returned_values(node, top_level_only=True)]
    if rets and isinstance(rets[-1], ast.Tuple) and len(rets[-1].elts) == 6 and all(
            isinstance(e_, ast.Name) for e_ in rets[-1].elts):
        role = dict(zip(("Acre", "Ades", "Bcre", "Bdes", "coeff", "ref_det"), [e_.id for e_ in rets[-1].elts]))
    else:
        raise AnalysisError("get_excitations: does not return the 6-tuple (Acre, Ades, Bcre, Bdes, coeff, ref_det)")
    # rank maps: names bound to np.cumsum(<ref occupation>) - 1
    rank: Dict[str, str] = {}
    ref_names: Dict[str, str] = {}
    for st in ast.walk(node):
        if isinstance(st, ast.Assign):
            tgts = st.targets[0]
            vals = st.value
            pairs = list(zip(tgts.elts, vals.elts)) if isinstance(tgts, ast.Tuple) and isinstance(
                vals, ast.Tuple) and len(tgts.elts) == len(vals.elts) else [(tgts, vals)]
            for t, v in pairs:
                if not isinstance(t, ast.Name):
                    continue
                if isinstance(v, ast.BinOp) and isinstance(v.op, ast.Sub) and isinstance(v.right, ast.Constant) \
                        and v.right.value == 1 and isinstance(v.left, ast.Call) and \
                        (dotted(v.left.func) or "").endswith("cumsum") and v.left.args and \
                        isinstance(v.left.args[0], ast.Name):
                    rank[t.id] = v.left.args[0].id
                if isinstance(v, ast.Call) and (dotted(v.func) or "").endswith("asarray") and v.args and \
                        isinstance(v.args[0], ast.Subscript) and isinstance(v.args[0].slice, ast.Constant):
                    ref_names[t.id] = f"d0[{v.args[0].slice.value}]"
    # the raw lists come from nonzero((d0x - dix) > 0) / < 0
    raw_kind: Dict[str, List[Tuple[str, str]]] = {}
    # producer sites, read from the value graph (helpers and temporaries are seen through): what is appended to table X
    # is nonzero((ref_s - det_s) > 0)  (labels vacated in the reference) or  ... < 0  (labels newly occupied)
    pev = Evaluator(p)
    pev.eval_function(fi)
    by_var = {role[n_]: n_ for n_ in ("Acre", "Ades", "Bcre", "Bdes")}
    for e in pev.events:
        if e.kind != "store" or e.data[0] not in by_var:
            continue
        seen_c = set()
        # the element appended by this store:  X.get(key, []) + [element]
        added = []
        v0 = strip_wrappers(e.data[2])
        if v0.op == "binop" and v0.args[0] == "+":
            for side in (v0.args[1], v0.args[2]):
                side = strip_wrappers(side)
                if side.op == "list" and len(side.args) == 1:
                    added.append(side.args[0])
        for x in (y for a_ in added for y in subterms(a_)):
            if x.op == "call" and array_fn(x) == "nonzero" and call_parts(x)[1]:
                c_ = strip_wrappers(call_parts(x)[1][0])
                if c_.op == "cmp" and c_.args[0] in (">", "<") and c_.uid not in seen_c and \
                        strip_wrappers(c_.args[2]).op == "const" and strip_wrappers(c_.args[2]).args[0] == 0:
                    seen_c.add(c_.uid)
                    lhs = strip_wrappers(c_.args[1])
                    if lhs.op == "binop" and lhs.args[0] == "-":
                        ref_t = strip_wrappers(lhs.args[1])
                        if ref_t.op == "call" and call_parts(ref_t)[1]:
                            ref_t = strip_wrappers(call_parts(ref_t)[1][0])     # np.asarray(ref[s])
                        spin = ref_t.args[1].args[0] if ref_t.op == "getitem" and ref_t.args[1].op == "const" and \
                            ref_t.args[1].args[0] in (0, 1) and not any(z.op == "iter" for z in subterms(ref_t)) else None
                        raw_kind.setdefault(by_var[e.data[0]], []).append(
                            (f"d0[{spin}]", "Gt" if c_.args[0] == ">" else "Lt"))
    ref_names.update({"d0[0]": "d0[0]", "d0[1]": "d0[1]"})
    for name_, want_op, want_ref in (("Acre", "Gt", "d0[0]"), ("Ades", "Lt", "d0[0]"), ("Bcre", "Gt", "d0[1]"),
                                     ("Bdes", "Lt", "d0[1]")):
        gots = raw_kind.get(name_, [])
        ok = len(gots) >= 1 and all(g_[1] == want_op and ref_names.get(g_[0]) == want_ref for g_ in gots)
        ctx.ob("KIND-3", f"get_excitations: {name_} lists the {'vacated reference' if want_op == 'Gt' else 'newly occupied'} "
               f"labels of spin {'alpha' if name_[0] == 'A' else 'beta'} at every producer site", ok,
               f"{len(gots)} producer sites: " + ", ".join(
                   f"nonzero(({g_[0]} - d) {'>' if g_[1] == 'Gt' else '<'} 0)" for g_ in gots) if gots
               else "producer expression not found", fi)
    # final stores (array conversion stage), read from the value graph: a store into table X whose value reshapes the
    # accumulated lists; it is rank-converted when the lists index (cumsum(reference occupation of spin s) - 1)
    def ref_spin(t):
        t = strip_wrappers(t)
        if t.op == "call" and call_parts(t)[1]:
            t = strip_wrappers(call_parts(t)[1][0])
        if t.op == "getitem" and t.args[1].op == "const" and t.args[1].args[0] in (0, 1) and \
                not any(z.op == "iter" for z in subterms(t)):
            return f"d0[{t.args[1].args[0]}]"
        return None

    def table_of(t) -> set:
        return {z.args[1] for z in subterms(t) if z.op in ("havoc", "loopout") and len(z.args) > 1 and
                isinstance(z.args[1], str)}

    def above_tables(t):
        """sub-terms of t that are not inside the previous contents of a table (havoc / loopout terms carry those)"""
        out, seen, stack = [], set(), [t]
        while stack:
            z = stack.pop()
            if not hasattr(z, "op") or z.uid in seen:
                continue
            seen.add(z.uid)
            out.append(z)
            if z.op in ("havoc", "loopout"):
                continue
            stack.extend(a_ for a_ in z.args if hasattr(a_, "op"))
        return out

    n_conv: Dict[str, List[Tuple[bool, Optional[str], int]]] = {}
    for e in pev.events:
        if e.kind != "store" or e.data[0] not in by_var:
            continue
        name_ = by_var[e.data[0]]
        v = e.data[2]
        if not any(m_method(z, "reshape") is not None or (z.op == "call" and array_fn(z) == "reshape") for z in above_tables(v)):
            continue
        conv = None
        for z in above_tables(v):
            if z.op != "getitem":
                continue
            base = strip_wrappers(z.args[0])
            if base.op == "binop" and base.args[0] in ("-", "+"):
                cs = [c_ for c_ in (strip_wrappers(base.args[1]), strip_wrappers(base.args[2]))
                      if c_.op == "call" and array_fn(c_) == "cumsum" and call_parts(c_)[1]]
                if cs and e.data[0] in table_of(z.args[1]):
                    conv = ref_spin(call_parts(cs[0])[1][0]) or "?"
        n_conv.setdefault(name_, []).append((conv is not None, conv, e.line))
    for name_, spin in (("Acre", "d0[0]"), ("Bcre", "d0[1]")):
        lst = n_conv.get(name_, [])
        conv = [c for c in lst if c[0]]
        all_conv = bool(lst) and len(conv) == len(lst)
        right_spin = all(ref_names.get(c[1]) == spin for c in conv)
        ctx.ob("KIND-3", f"multislater: {name_} is converted from orbital labels to reference positions exactly once",
               all_conv and right_spin and _consumer_conversions(ctx) == 0,
               (f"{len(conv)} of {len(lst)} stores apply (cumsum(reference occupation) - 1)[labels]"
                + ("" if right_spin else " with the other spin's occupation")
                + f"; {_consumer_conversions(ctx)} conversion(s) in multislater") if lst else
               "no array-conversion stores found", fi)
    for name_ in ("Ades", "Bdes"):
        lst = n_conv.get(name_, [])
        conv = [c for c in lst if c[0]]
        ctx.ob("KIND-3", f"multislater: {name_} stays in orbital-label space", bool(lst) and not conv,
               f"{len(conv)} of {len(lst)} stores are rank-converted (the second axis of G is numbered by "
               f"orbital label)", fi)
    # parity from labels: parity(reference occupation of spin s, vacated labels of spin s, newly occupied labels of spin s),
    # read from the value graph (the lists may be passed as table entries, as locals, through a helper ...)
    def label_kind(t):
        """('d0[s]', 'Gt' | 'Lt') if t is nonzero((ref_s - det_s) > 0) / (... < 0), else None"""
        t = strip_wrappers(t)
        if not (t.op == "call" and array_fn(t) == "nonzero" and call_parts(t)[1]):
            return None
        c_ = strip_wrappers(call_parts(t)[1][0])
        if not (c_.op == "cmp" and c_.args[0] in (">", "<") and strip_wrappers(c_.args[2]).op == "const"
                and strip_wrappers(c_.args[2]).args[0] == 0):
            return None
        lhs = strip_wrappers(c_.args[1])
        if not (lhs.op == "binop" and lhs.args[0] == "-"):
            return None
        sp = ref_spin(lhs.args[1])
        return (sp, "Gt" if c_.args[0] == ">" else "Lt") if sp else None

    par_calls = [e for e in pev.events if e.kind == "call" and hasattr(e.data, "op") and e.data.op == "call"
                 and (func_name(e.data) or "").split(".")[-1] == "parity"]
    seen_p, good, detail = set(), True, []
    for e in par_calls:
        if e.data.uid in seen_p:
            continue
        seen_p.add(e.data.uid)
        a_ = call_parts(e.data)[1]
        if len(a_) != 3:
            good = False
            continue
        sp = ref_spin(a_[0])
        kc, kd = label_kind(a_[1]), label_kind(a_[2])
        detail.append((sp, kc, kd))
        if not (sp and kc == (sp, "Gt") and kd == (sp, "Lt")):
            good = False
    if not seen_p:
        ctx.rep.note("get_excitations: no parity(...) call found; the label / spin pairing of the sign is not checked")
    else:
        ctx.ob("PAIR-1", "get_excitations: parity(d0a, Acre, Ades) / parity(d0b, Bcre, Bdes) on the label lists",
               good and len(seen_p) >= 2, f"{len(seen_p)} parity calls: " + "; ".join(
                   f"parity({sp_}, {kc_}, {kd_})" for sp_, kc_, kd_ in detail[:4]), fi)


def parity_rule(ctx):
    """PAIR-1 on pyscf_interface.parity: the sign of a multiple excitation is accumulated move by move, so the
    occupation whose segment is counted must be the running one that the loop updates, and that running
    occupation must be a private copy of the reference (the reference is reused by the caller)."""
    fi = ctx.p.func("pyscf_interface.parity")
    node = fi.node
    loops = [st for st in node.body if isinstance(st, (ast.For, ast.While))]
    if not loops:
        # a closed-form / vectorised parity is a different algorithm: the move-by-move rules do not apply to it and
        # its combinatorics is not something this check decides
        ctx.rep.note("pyscf_interface.parity: no move-by-move loop; the sequential-occupation rules (PAIR-1) are not "
                     "applicable to this shape of the code and the sign convention is not decided")
        return
    loop = loops[-1]
    _parity_segment(ctx, fi)
    updated, counted = set(), set()
    for nd in ast.walk(loop):
        if isinstance(nd, (ast.Assign, ast.AugAssign)):
            tgs = nd.targets if isinstance(nd, ast.Assign) else [nd.target]
            for tg in tgs:
                if isinstance(tg, ast.Subscript) and isinstance(tg.value, ast.Name):
                    updated.add(tg.value.id)
        if isinstance(nd, ast.Subscript) and isinstance(nd.ctx, ast.Load) and isinstance(nd.slice, ast.Slice) and \
                isinstance(nd.value, ast.Name):
            counted.add(nd.value.id)
    # the count delegated to a helper: an argument of a package function whose parameter is sliced there
    for nd in ast.walk(loop):
        if isinstance(nd, ast.Call) and isinstance(nd.func, ast.Name):
            try:
                callee = ctx.p.func(f"{fi.module}.{nd.func.id}")
            except Exception:  # noqa
                callee = None
            if callee is None or callee.node is None:
                continue
            sliced = {x.value.id for x in ast.walk(callee.node) if isinstance(x, ast.Subscript) and
                      isinstance(x.ctx, ast.Load) and isinstance(x.slice, ast.Slice) and isinstance(x.value, ast.Name)}
            cparams = [a.arg for a in callee.node.args.args]
            for k_, a_ in enumerate(nd.args):
                if isinstance(a_, ast.Name) and k_ < len(cparams) and cparams[k_] in sliced:
                    counted.add(a_.id)
            for kw_ in nd.keywords:
                if kw_.arg in sliced and isinstance(kw_.value, ast.Name):
                    counted.add(kw_.value.id)
    params = {a.arg for a in node.args.args}
    if not counted or not updated:
        # no d[lo:hi] read / no in-place update recognisable in the loop: another way of writing the count; not judged
        ctx.rep.note(f"pyscf_interface.parity: counted segment {sorted(counted)} / updated occupation {sorted(updated)} not "
                     f"both recognisable in the loop; the running-occupation rule is not applied")
        return
    ctx.ob("PAIR-1", "parity: the occupation segment counted for each move is the running occupation the loop updates",
           bool(updated) and counted == updated and len(updated) == 1,
           f"counted {sorted(counted)}, updated {sorted(updated)}", fi)
    # the running occupation is a fresh array, not the caller's reference
    fresh = True
    why = []
    for u in updated:
        if u in params:
            fresh = False
            why.append(f"{u} is a parameter")
        for st in node.body:
            if isinstance(st, ast.Assign) and any(isinstance(t, ast.Name) and t.id == u for t in st.targets):
                v = st.value
                alias = isinstance(v, ast.Name) or (isinstance(v, ast.Call) and (dotted(v.func) or "").endswith(
                    ("asarray", "reshape", "ravel", "view")))
                if alias:
                    fresh = False
                    why.append(f"{u} = {ast.unparse(v)} may alias the reference")
    ctx.ob("PAIR-1", "parity: the running occupation is a private copy (the caller's reference is not modified)",
           fresh and bool(updated), "; ".join(why) or f"{sorted(updated)} built by arithmetic / copy", fi,
           alias_exact=True)      # this rule is itself the aliasing judgement, read off the syntax tree


def _parity_segment(ctx, fi):
    """The electrons hopped over lie strictly between the two orbitals of the move whichever of them is lower: both
    bounds of the counted segment must depend on the creation *and* the destruction index (min / max, a sort, a
    comparison ...).  A segment running from one list's entry to the other's is empty for downward moves."""
    pev = Evaluator(ctx.p)
    fr = pev.eval_function(fi)
    r = pev.result(fr)
    prm = [x.name for x in fi.params]
    if r is None or len(prm) < 3:
        return
    cre, des = sym(prm[1]), sym(prm[2])
    segs = []
    for x in subterms(r):
        if x.op == "getitem" and x.args[1].op == "slice" and len(x.args[1].args) >= 2:
            lo, hi = x.args[1].args[0], x.args[1].args[1]
            if hasattr(lo, "op") and hasattr(hi, "op") and lo.op != "const" and hi.op != "const":
                segs.append((lo, hi))
    if not segs:
        ctx.rep.note("pyscf_interface.parity: no counted segment d[lo:hi] found; bound-symmetry rule not applicable")
        return

    def deps(t):
        return {n_ for n_, s_ in (("cre", cre), ("des", des)) if any(y is s_ for y in subterms(t))}
    bad = [(lo, hi) for lo, hi in segs if deps(lo) != {"cre", "des"} or deps(hi) != {"cre", "des"}]
    ctx.ob("PAIR-1", "parity: both ends of the counted segment depend on the creation and the destruction index "
           "(lower = min, upper = max)", not bad,
           f"{len(segs)} segment(s); " + ("; ".join(f"lower bound from {sorted(deps(lo))}, upper bound from {sorted(deps(hi))}"
                                                      for lo, hi in bad) if bad else "bounds are symmetric in the pair"), fi)


_cc_cache = {}


def _consumer_conversions(ctx) -> int:
    """label -> rank conversions applied inside multislater before indexing G."""
    k = id(ctx.p)
    if k in _cc_cache:
        return _cc_cache[k]
    ci = ctx.p.cls("wavefunctions.multislater")
    n = 0
    for fi in ci.methods.values():
        for nd in ast.walk(fi.node):
            if isinstance(nd, ast.Call) and (dotted(nd.func) or "").endswith("cumsum"):
                n += 1
    _cc_cache.clear()
    _cc_cache[k] = n
    return n


def consumer(ctx):
    p = ctx.p
    do = p.func("wavefunctions.multislater._det_overlap")
    ev = Evaluator(p)
    fr = ev.eval_function(do)
    R = strip_wrappers(ev.result(fr))
    prm = [x.name for x in do.params if x.name != "self"]
    # which parameter of the (private) helper is the creation list, the destruction list, the Green's function is
    # read off what its callers pass: a block of a '*cre' table, of a '*des' table, anything else
    sites = {}
    roles = {}
    consistent = True
    for meth in ("_calc_overlap", "_calc_overlap_restricted"):
        fi_ = p.func(f"wavefunctions.multislater.{meth}")
        ev3, fr3 = common.eval_with_terms(p, fi_)
        sites[meth] = (fi_, ev3, [])
        seen = set()
        for t in common.all_terms(ev3):
            vm = match_vmap(t) if t.op == "call" else None
            if vm is None or t.uid in seen:
                continue
            seen.add(t.uid)
            f, in_axes, vargs = vm
            if not (f.op == "attr" and f.args[1] == "_det_overlap") or len(vargs) != len(prm):
                continue
            amap = dict(zip(prm, vargs))
            sites[meth][2].append((t, in_axes, amap))
            for n_, a_ in amap.items():
                lk = _list_key(a_)
                r_ = "cre" if lk is not None and lk[0].endswith("cre") else (
                    "des" if lk is not None and lk[0].endswith("des") else "green")
                if roles.setdefault(n_, r_) != r_:
                    consistent = False
    by_role = {r_: [n_ for n_, x_ in roles.items() if x_ == r_] for r_ in ("green", "cre", "des")}
    have_roles = consistent and all(len(v_) == 1 for v_ in by_role.values())
    if not have_roles:
        ctx.rep.note("multislater._det_overlap: the roles of its parameters could not be read off its call sites "
                     f"({roles}); the index-axis and pairing rules do not apply")
        return
    gpar, cpar, dpar = by_role["green"][0], by_role["cre"][0], by_role["des"][0]
    ok, why = False, "unmodelled _det_overlap"
    if R.op == "call" and (func_name(R) or "").endswith("linalg.det"):
        a = strip_wrappers(call_parts(R)[1][0])
        if a.op == "getitem" and a.args[0] is sym(gpar) and a.args[1].op == "call" and \
                (func_name(a.args[1]) or "").endswith(".ix_"):
            ia = call_parts(a.args[1])[1]
            ok = len(ia) == 2 and ia[0] is sym(cpar) and ia[1] is sym(dpar)
            why = "det(green[ix_(cre, des)])" if ok else f"index order {[show(x) for x in ia]}"
    if why == "unmodelled _det_overlap":
        ctx.rep.note("multislater._det_overlap: not of the form det(G[ix_(rows, columns)]); the index-axis rule does not apply")
    else:
        ctx.ob("KIND-3", "multislater._det_overlap: creation list indexes axis 0 (electron position), destruction "
               "list axis 1 (orbital label)", ok, why, do)
    # Green's function axes
    for meth in ("_calc_green", "_calc_green_restricted"):
        fi = p.func(f"wavefunctions.multislater.{meth}")
        ev2 = Evaluator(p)
        fr2 = ev2.eval_function(fi)
        r = strip_wrappers(ev2.result(fr2))
        comps = list(r.args) if r.op == "list" else [r]
        good = True
        for c in comps:
            c = strip_wrappers(c)
            if not (c.op == "attr" and c.args[1] == "T"):
                good = False
                continue
            inner = strip_wrappers(c.args[0])
            dots = inner.op == "call" and inner.args[0].op == "attr" and inner.args[0].args[1] == "dot"
            invs = [x for x in subterms(inner) if x.op == "call" and (func_name(x) or "").endswith("linalg.inv")]
            nz = [x for x in subterms(inner) if x.op == "call" and (func_name(x) or "").endswith(".nonzero")]
            good = good and dots and len(invs) == 1 and len(nz) == 1
        ctx.ob("KIND-3", f"multislater.{meth}: G = (phi inv(phi[occ(ref), :]))^T -- rows are reference positions",
               good, "transposed product with the inverse of the reference rows" if good else
               "Green's function is not of the expected form", fi)
    # call sites: spin / block-key pairing
    for meth, unrestricted in (("_calc_overlap", True), ("_calc_overlap_restricted", False)):
        fi, ev3, sts = sites[meth]
        n = 0
        bad = []
        for t, in_axes, amap in sts:
            n += 1
            g, cre, des = amap[gpar], amap[cpar], amap[dpar]
            ck = _list_key(cre)
            dk = _list_key(des)
            if ck is None or dk is None:
                bad.append("unmodelled index lists")
                continue
            if ck[0][0] != dk[0][0] or not ck[0].endswith("cre") or not dk[0].endswith("des"):
                bad.append(f"{ck[0]} paired with {dk[0]}")
            if ck[1] is not dk[1]:
                bad.append(f"creation block {show(ck[1])} paired with destruction block {show(dk[1])}")
            if unrestricted:
                gi = g.args[1].args[0] if g.op == "getitem" and g.args[1].op == "const" else None
                want = 0 if ck[0][0] == "A" else 1
                if gi != want:
                    bad.append(f"{ck[0]} lists index Green's function block {gi}")
            want_axes = [None if n_ == gpar else 0 for n_ in prm]
            if not (in_axes is not None and in_axes.op == "tuple" and len(in_axes.args) == len(prm) and
                    all(is_const(a_, w_) for a_, w_ in zip(in_axes.args, want_axes))):
                bad.append("in_axes does not map the two index lists over axis 0 and broadcast the Green's function")
        ctx.ob("PAIR-1", f"multislater.{meth}: every sub-determinant pairs cre/des lists of one spin and one block "
               f"with that spin's Green's function", not bad,
               f"{n} sub-determinant sites" + (f"; {sorted(set(bad))}" if bad else ""), fi)
        if n < 4:
            ctx.rep.note(f"multislater.{meth}: {n} sub-determinant call site(s) recognised (4 in the pinned tree: the excitation "
                         f"blocks may be walked by one loop over a table of block keys); the ones found are judged")
        # coefficient keys: coeff[(i, 0)] with A(i,0), coeff[(0, i)] with B(0,i), coeff[(i,j)] with product
        _coeff_pairing(ctx, fi, ev3)


def _list_key(t):
    """wave_data['Acre'][(i, 0)] -> ('Acre', key term)"""
    t = strip_wrappers(t)
    if t.op == "getitem" and t.args[0].op == "getitem" and t.args[0].args[1].op == "const" and \
            isinstance(t.args[0].args[1].args[0], str):
        return t.args[0].args[1].args[0], t.args[1]
    return None


def _coeff_pairing(ctx, fi, ev):
    """x.dot(coeff[k]) / x @ coeff[k]: the sub-determinants on the left use block key k."""
    bad = []
    n = 0
    seen = set()
    for t in common.all_terms(ev):
        if t.uid in seen:
            continue
        seen.add(t.uid)
        left = right = None
        if t.op == "call" and t.args[0].op == "attr" and t.args[0].args[1] == "dot":
            left, right = t.args[0].args[0], call_parts(t)[1][0]
        elif t.op == "binop" and t.args[0] == "@":
            left, right = t.args[1], t.args[2]
        if right is None:
            continue
        rk = _list_key(right)
        if rk is None or rk[0] != "coeff":
            continue
        n += 1
        keys_left = set()
        for x in subterms(left):
            lk = _list_key(x)
            if lk is not None and lk[0] in ("Acre", "Ades", "Bcre", "Bdes"):
                keys_left.add(lk[1].uid)
        if keys_left != {rk[1].uid}:
            bad.append(f"coeff[{show(rk[1])}] multiplies sub-determinants of another block")
    ctx.ob("PAIR-1", f"{fi.qualname}: coefficients of block (i, j) multiply that block's sub-determinants",
           n >= 3 and not bad, f"{n} contraction sites" + (f"; {bad}" if bad else ""), fi)


def producer_pairing(ctx):
    p = ctx.p
    fi = p.func(f"{PI}.get_excitations")
    from ..model import returned_values
    rets = [v_ for _, v_ in returned_values(fi.node, top_level_only=True)]
    elts = rets[-1].elts if rets and isinstance(rets[-1], ast.Tuple) else []
    # the wave_data keys the overlap reads, through whatever helpers it is split into (interprocedural key summary)
    from ..rules import keys as _keys
    ka = _keys.key_analysis(p)
    read = sorted(_keys.reads_of(ka, "wavefunctions.multislater", ["_calc_overlap"], "wave_data"))
    want = ["Acre", "Ades", "Bcre", "Bdes", "coeff", "ref_det"]
    ctx.ob("KEYS-2", "get_excitations returns one table per wave_data entry multislater reads, in the documented order",
           len(elts) == 6 and read == sorted(want), f"returns {len(elts)} values; multislater reads {read}", fi)
    # names bound to np.asarray(<reference>[s]) : the two reference occupation strings
    ref_spin: Dict[str, int] = {}
    for st in ast.walk(fi.node):
        if isinstance(st, ast.Assign):
            tg, vl = st.targets[0], st.value
            pairs = list(zip(tg.elts, vl.elts)) if isinstance(tg, ast.Tuple) and isinstance(vl, ast.Tuple) and \
                len(tg.elts) == len(vl.elts) else [(tg, vl)]
            for t, v in pairs:
                if isinstance(t, ast.Name) and isinstance(v, ast.Call) and (dotted(v.func) or "").endswith("asarray") \
                        and v.args and isinstance(v.args[0], ast.Subscript) and isinstance(v.args[0].slice, ast.Constant) \
                        and v.args[0].slice.value in (0, 1):
                    ref_spin.setdefault(t.id, v.args[0].slice.value)
    # the last returned value is array([alpha reference, beta reference])
    ok, got = False, "?"
    if len(elts) == 6 and isinstance(elts[5], ast.Name):
        for nd in ast.walk(fi.node):
            if isinstance(nd, ast.Assign) and isinstance(nd.targets[0], ast.Name) and nd.targets[0].id == elts[5].id:
                v = nd.value
                if isinstance(v, ast.Call) and (dotted(v.func) or "").split(".")[-1] in ("array", "asarray", "stack") and \
                        v.args and isinstance(v.args[0], (ast.List, ast.Tuple)) and len(v.args[0].elts) == 2:
                    sp = [ref_spin.get(x.id) if isinstance(x, ast.Name) else None for x in v.args[0].elts]
                    got = str(sp)
                    ok = sp == [0, 1]
    if got == "?":
        # the stacking is not written as array([ref_a, ref_b]) inside get_excitations itself (moved to a helper, built
        # another way): nothing identified, no claim
        ctx.rep.note("get_excitations: the reference-determinant stack was not identified; the [alpha, beta] order rule does "
                     "not apply")
    else:
        ctx.ob("PAIR-1", "get_excitations: ref_det = [alpha reference, beta reference]", ok,
               f"spins of the stacked references {got}", fi)
    # get_fci_state: (coeff, alpha strings, beta strings) = zip(*large_ci(...)); det[s] filled from list s over nelec[s]
    gf = p.func(f"{PI}.get_fci_state")
    unpack = None
    from ..model import norm as _norm
    for nd in _norm(gf.node).body:
        if isinstance(nd, ast.Assign) and isinstance(nd.targets[0], ast.Tuple) and len(nd.targets[0].elts) == 3 and \
                isinstance(nd.value, ast.Call) and dotted(nd.value.func) == "zip" and \
                any(isinstance(x, ast.Attribute) and x.attr == "large_ci" for x in ast.walk(nd.value)):
            unpack = [e_.id if isinstance(e_, ast.Name) else None for e_ in nd.targets[0].elts]
    if unpack is None:
        ctx.rep.note("get_fci_state: the three-way unpacking of zip(*large_ci(...)) was not identified; the (coeff, alpha, beta) "
                     "order rule does not apply")
    else:
        ctx.ob("PAIR-1", "get_fci_state: large_ci tuples unpack as (coeff, alpha occupation, beta occupation)",
               None not in unpack and len(set(unpack)) == 3, f"{unpack}", gf)
    good = 0
    detail = []
    if unpack and None not in unpack:
        occ_of = {unpack[1]: 0, unpack[2]: 1}
        for nd in ast.walk(gf.node):
            if isinstance(nd, ast.For) and isinstance(nd.iter, ast.Call) and dotted(nd.iter.func) == "range" and nd.iter.args:
                rg = nd.iter.args[0]
                rs = rg.slice.value if isinstance(rg, ast.Subscript) and isinstance(rg.slice, ast.Constant) else None
                for st in nd.body:
                    if isinstance(st, ast.Assign) and isinstance(st.targets[0], ast.Subscript) and \
                            isinstance(st.targets[0].value, ast.Subscript) and \
                            isinstance(st.targets[0].value.slice, ast.Constant):
                        block = st.targets[0].value.slice.value
                        used = {n_.id for n_ in ast.walk(st.targets[0].slice) if isinstance(n_, ast.Name)} & set(occ_of)
                        if len(used) == 1:
                            src = occ_of[next(iter(used))]
                            detail.append((block, src, rs))
                            if block == src == rs:
                                good += 1
    if not detail:
        # the determinant is no longer assembled as det[s][occ_s[i][j]] over range(nelec[s]): nothing to pair here
        ctx.rep.note("get_fci_state: the det[s][...] = 1 / range(nelec[s]) idiom is not present; the spin-pairing rule does not apply")
    else:
        ctx.ob("PAIR-1", "get_fci_state: det[s] is filled from the spin-s occupation list with nelec[s] electrons",
               good == len(detail) and len(detail) >= 2, f"(block, list, count) index triples {detail}", gf)


def _inline_single_return_helpers(p, module: str, fnode, sizes):
    """Calls of same-module functions whose body is one return statement (after the docstring) are replaced by that
    expression with the arguments substituted; struct.calcsize('<c>') of a known one-character format becomes its size."""
    import copy

    class Sub(ast.NodeTransformer):
        def __init__(self, env):
            self.env = env

        def visit_Name(self, node):
            if isinstance(node.ctx, ast.Load) and node.id in self.env:
                return copy.deepcopy(self.env[node.id])
            return node

    class Inl(ast.NodeTransformer):
        def visit_Call(self, node):
            self.generic_visit(node)
            if isinstance(node.func, ast.Name):
                try:
                    callee = p.func(f"{module}.{node.func.id}")
                except Exception:  # noqa
                    callee = None
                cn = getattr(callee, "node", None)
                if cn is not None and isinstance(cn, ast.FunctionDef):
                    body = [st for st in cn.body if not (isinstance(st, ast.Expr) and isinstance(st.value, ast.Constant))]
                    prm = [a.arg for a in cn.args.args]
                    if len(body) == 1 and isinstance(body[0], ast.Return) and body[0].value is not None and \
                            not cn.args.vararg and not cn.args.kwarg and len(node.args) + len(node.keywords) == len(prm) \
                            and not any(isinstance(a, ast.Starred) for a in node.args):
                        env = dict(zip(prm, node.args))
                        for kw_ in node.keywords:
                            if kw_.arg in prm:
                                env[kw_.arg] = kw_.value
                        if len(env) == len(prm):
                            new = Sub(env).visit(copy.deepcopy(body[0].value))
                            for x_ in ast.walk(new):          # positions of the call site (file order of the reads)
                                if hasattr(x_, "lineno"):
                                    x_.lineno, x_.col_offset = node.lineno, node.col_offset
                                    x_.end_lineno, x_.end_col_offset = node.end_lineno, node.end_col_offset
                            return new
            if (dotted(node.func) or "").endswith("struct.calcsize") and len(node.args) == 1 and \
                    isinstance(node.args[0], ast.Constant) and node.args[0].value in sizes:
                return ast.copy_location(ast.Constant(sizes[node.args[0].value]), node)
            return node

    out = Inl().visit(copy.deepcopy(fnode))
    out = Inl().visit(out)          # calcsize of a substituted format
    ast.fix_missing_locations(out)
    return out


def read_dets(ctx):
    p = ctx.p
    fi = p.func(f"{PI}.read_dets")
    from ..model import norm
    fnode = norm(fi.node)     # single-use temporaries substituted: f.read(4) may be named before it is unpacked
    sizes = {"i": 4, "d": 8, "c": 1, "q": 8, "f": 4}
    fnode = _inline_single_return_helpers(p, fi.module, fnode, sizes)
    seq = []
    bad = []
    for nd in ast.walk(fnode):
        if isinstance(nd, ast.Call) and (dotted(nd.func) or "").endswith("struct.unpack") and len(nd.args) == 2:
            fmt = nd.args[0].value if isinstance(nd.args[0], ast.Constant) else None
            rd = nd.args[1]
            n_ = None
            if isinstance(rd, ast.Call) and isinstance(rd.func, ast.Attribute) and rd.func.attr == "read" and rd.args \
                    and isinstance(rd.args[0], ast.Constant):
                n_ = rd.args[0].value
            seq.append((nd.lineno, fmt, n_))
            if fmt not in sizes or sizes[fmt] != n_:
                bad.append(f"format '{fmt}' read with {n_} bytes")
    seq.sort()
    fmts = [f for _, f, _ in seq]
    if not seq:
        # the file is not read through struct.unpack(<format>, f.read(<n>)) calls this rule can see (another reader,
        # numpy.fromfile, a helper that is more than one return statement): layout not identified, nothing judged
        ctx.rep.note("read_dets: no struct.unpack(format, f.read(n)) call identified; the record-layout rules (KEYS-2) do not apply")
        return
    ctx.ob("KEYS-2", "read_dets: header and record layout int, int, {double, char...}", fmts == ["i", "i", "d", "c"]
           and not bad, f"formats in file order {fmts}" + (f"; {bad}" if bad else ""), fi)
    # header fields: the first int bounds the loop over determinants (default count), the second the loop over orbitals
    hdr = []
    for nd in ast.walk(fnode):
        if isinstance(nd, ast.Assign) and isinstance(nd.targets[0], ast.Name) and any(
                isinstance(c, ast.Call) and (dotted(c.func) or "").endswith("struct.unpack") and c.args and
                isinstance(c.args[0], ast.Constant) and c.args[0].value == "i" for c in ast.walk(nd.value)):
            hdr.append((nd.lineno, nd.targets[0].id))
    hdr.sort()
    hn = [h for _, h in hdr]
    det_loop = orb_loop = None
    for nd in ast.walk(fnode):
        if isinstance(nd, ast.For) and isinstance(nd.iter, ast.Call) and dotted(nd.iter.func) == "range" and nd.iter.args:
            unp = [c for c in ast.walk(nd) if isinstance(c, ast.Call) and (dotted(c.func) or "").endswith("struct.unpack")
                   and c.args and isinstance(c.args[0], ast.Constant)]
            fm = {c.args[0].value for c in unp}
            rn = {n_.id for n_ in ast.walk(nd.iter.args[0]) if isinstance(n_, ast.Name)}
            if "d" in fm and det_loop is None:
                det_loop = rn
            if fm == {"c"}:
                orb_loop = rn
    cnt_ok = False
    if len(hn) >= 2 and det_loop is not None and orb_loop is not None:
        # the determinant loop count defaults to the first header field
        dflt = set()
        for nd in ast.walk(fnode):
            if isinstance(nd, ast.Assign) and isinstance(nd.targets[0], ast.Name) and nd.targets[0].id in det_loop:
                dflt |= {n_.id for n_ in ast.walk(nd.value) if isinstance(n_, ast.Name)}
        cnt_ok = (hn[0] in det_loop or hn[0] in dflt) and hn[1] in orb_loop and hn[0] != hn[1]
    ctx.ob("KEYS-2", "read_dets: first int is the determinant count, second the orbital count", cnt_ok,
           f"header ints -> {hn[:2]}; determinant loop over {sorted(det_loop or [])}, orbital loop over {sorted(orb_loop or [])}", fi)
    # occupation mapping: which spin blocks each occupation character sets
    mapping = {}
    for nd in ast.walk(fnode):
        if isinstance(nd, ast.If) and isinstance(nd.test, ast.Compare) and isinstance(nd.test.comparators[0], ast.Constant):
            key_ = nd.test.comparators[0].value
            if not isinstance(key_, bytes):
                continue
            blocks = []
            for st in nd.body:
                if isinstance(st, ast.Assign) and isinstance(st.value, ast.Constant) and st.value.value == 1:
                    for tg_ in st.targets:          # det[0][j] = det[1][j] = 1 stores into both targets
                        if isinstance(tg_, ast.Subscript) and isinstance(tg_.value, ast.Subscript) and \
                                isinstance(tg_.value.slice, ast.Constant):
                            blocks.append(tg_.value.slice.value)
            mapping[key_] = sorted(blocks)
    want = {b"a": [0], b"b": [1], b"2": [0, 1]}
    if not mapping or not any(mapping.values()):
        ctx.rep.note("read_dets: the occupation byte is not decoded by an if-chain of det[s][j] = 1 stores; the "
                     "character-to-spin rule does not apply")
    else:
        ctx.ob("KEYS-2", "read_dets: 'a' -> up, 'b' -> down, '2' -> both", mapping == want, f"{mapping}", fi)


