"""C07 -- stochastic reconfiguration is an unbiased, weight-conserving comb."""

from __future__ import annotations

import ast
from typing import Dict, List, Optional, Tuple

from ..model import AnalysisError, FuncInfo, dotted
from ..rules import bind, common
from ..rules.match import (m_arrcall, m_binop, m_method, product_factors, strip_reshape)
from ..symex import (T, Evaluator, array_fn, call, call_parts, const, match_scan, func_name, getitem, is_const,
                     match_vmap, mk, show, strip_wrappers, substitute, subterms, sym)

ID = "C07"
EXPLANATION = (
    "For each of the five comb implementations in sr.py the def-use value graph is reduced to a comb "
    "descriptor: cumulative = cumsum(abs(weights combed)), total = cumulative[-1], comb positions "
    "total*(i+zeta)/D for i over S slots, index = searchsorted(cumulative, position) with the default "
    "(left) side, survivors' weight total/D' on a vector of S' entries. Obligations: D == D' == S == S' "
    "as products of (population size, rank count) -- equal survivor weight and conservation of the total "
    "absolute weight; the output walkers are gathers/copies of the input walkers by that index only (no "
    "arithmetic); both spin blocks are gathered with the same index in the same iteration (PAIR-1); all "
    "five descriptors are equal up to the slot product (SIB-1). PRNG-1: each caller draws the offset from "
    "a fresh subkey. MPI-1/2: every collective is unconditional w.r.t. the rank, the comb runs on the root "
    "over the gathered buffer, each Gather is matched by a Scatter into a buffer shaped like the send "
    "buffer. BIND-5: the single-process stub offers every communicator method used, with copy semantics."
    "PAIR-1: the comb gathers from a buffer that its own copy loop does not store into (an in-place comb "
    "re-reads slots it has already overwritten). SIB-1: the offset handed to the comb is one scalar "
    "uniform draw (shape ()), not a vector. Comb positions computed for all teeth at once (a "
    "comprehension handed to one searchsorted) and buffers kept in a dict are read as the same comb. "
    " MPI-1: on the root, the cumulative weights of the comb are taken over the receive buffer of the Gather whose send buffer is the weights argument, not over the rank's own weights. PAIR-1: a block of the argument handed back inside a freshly built container is a block the comb did not touch. The container kind ([up, dn] or one array) is read from how the first parameter is used (literal or module-constant 0 / 1 subscripts, unpacking into two names), not from its name. "
)
NOT_DECIDED = (
    "floor/ceil selection counts and exact unbiasedness over the offset (mathematical consequences of the "
    "checked comb form); behaviour at exact ties; real MPI transport."
)
TECHNIQUE = "static analysis: comb-descriptor extraction by def-use matching, sibling comparison, collective placement query"

SR_FUNCS = ["stochastic_reconfiguration", "stochastic_reconfiguration_uhf",
            "stochastic_reconfiguration_np", "stochastic_reconfiguration_mpi",
            "stochastic_reconfiguration_mpi_uhf"]


def frac(t: T) -> Tuple[List[T], List[T]]:
    """Flatten products / quotients into (numerator factors, denominator factors)."""
    t = strip_wrappers(t)
    if t.op == "binop" and t.args[0] == "*":
        a, b = frac(t.args[1]), frac(t.args[2])
        return a[0] + b[0], a[1] + b[1]
    if t.op == "binop" and t.args[0] == "/":
        a, b = frac(t.args[1]), frac(t.args[2])
        return a[0] + b[1], a[1] + b[0]
    return [t], []


def live_arm(t: T) -> T:
    """phi(rank == 0 ? x : None-derived) -> x (buffers that only exist on the root)."""
    t = strip_wrappers(t)
    for _ in range(6):
        if t.op != "phi":
            break
        a, b = strip_wrappers(t.args[1]), strip_wrappers(t.args[2])

        def dead(x):
            return any(y.op == "const" and y.args[0] is None for y in subterms(x)) and \
                x.op in ("const", "getitem", "call", "attr")
        t = b if dead(a) and not dead(b) else a
    return t


def canon(ts: List[T]) -> List[str]:
    # a factor that is the literal 1 (a defaulted `size=1`) does not change the product
    ts = [x for x in ts if not (strip_wrappers(x).op == "const" and strip_wrappers(x).args[0] in (1, 1.0)
                                and not isinstance(strip_wrappers(x).args[0], bool))]
    return sorted(show(strip_wrappers(x), maxdepth=6) for x in ts)


class Comb:
    def __init__(self):
        self.problems: List[str] = []
        self.slots: Optional[List[str]] = None       # S: positions enumerated
        self.pos_div: Optional[List[str]] = None     # D
        self.avg_div: Optional[List[str]] = None     # D'
        self.out_len: Optional[List[str]] = None     # S'
        self.cum_of: Optional[T] = None
        self.abs_ok = False
        self.total_ok = False
        self.side_ok = False
        self.zeta_ok = False
        self.gathers: List[Tuple[str, str, T]] = []  # (dest, src, index)
        self.inplace: List[Tuple[int, str, str]] = []  # gathers that read a buffer the copy loop writes
        self.tree_gather: Optional[str] = None          # tree_map(lambda b: b[index], <container>): the container
        self.copy_only = True
        self.where_root = None


def norm_iter(t):
    """loops over the same range are one iteration space: drop the loop identity from iteration terms"""
    its = {x: mk("iter", x.args[0], 0) for x in subterms(t) if x.op == "iter" and x.args[1] != 0}
    return substitute(t, its) if its else t


def analyse_comb(ctx, fi: FuncInfo) -> Comb:
    p = ctx.p
    ev = Evaluator(p)
    ev.record_terms = []
    fr = ev.eval_function(fi)
    c = Comb()
    terms = common.all_terms(ev)
    # searchsorted sites
    ss = []
    for t in terms:
        if t.op == "call" and array_fn(t) == "searchsorted":
            ss.append(("direct", t))
        vm = match_vmap(t) if t.op == "call" else None
        if vm is not None and vm[0].op == "name" and vm[0].args[0].endswith(".searchsorted"):
            ss.append(("vmap", t))
        if vm is not None and vm[0].op == "closure" and vm[1] is None:
            # vmap(lambda target: searchsorted(ladder, target))(z): the ladder is captured, the positions are mapped over
            # axis 0 -- the same lookup as searchsorted(ladder, z) on the whole position vector
            try:
                r_ = strip_wrappers(ev.open_closure(vm[0], list(vm[2]), at_call=t))
            except AnalysisError:
                r_ = None
            if r_ is not None and r_.op == "call" and array_fn(r_) == "searchsorted":
                ss = [x_ for x_ in ss if x_[1] is not r_]
                ss.append(("direct", r_))
                opened_ss = getattr(c, "_opened", [])
                opened_ss.append((t, r_))
                c._opened = opened_ss
    # lax.map(lambda target: searchsorted(ladder, target), z) / lax.map(partial(searchsorted, ladder), z): a sequential map
    # over the positions -- the same lookup as searchsorted(ladder, z)
    for t in terms:
        sc_ = match_scan(t) if t.op == "call" else None
        if sc_ is None or sc_[0].op != "closure" or not is_const(sc_[1], None):
            continue
        x_ = mk("scan_x", sc_[2], 0)
        try:
            b_ = strip_wrappers(ev.open_closure(sc_[0], [sc_[1], x_], at_call=t))
        except AnalysisError:
            continue
        y_ = strip_wrappers(b_.args[1]) if b_.op == "tuple" and len(b_.args) == 2 else None
        if y_ is not None and y_.op == "partial" and len(y_.args) >= 2:
            continue
        if y_ is not None and y_.op == "call" and array_fn(y_) == "searchsorted":
            _, p_, k_ = call_parts(y_)
            if len(p_) >= 2 and strip_wrappers(p_[1]) is x_ and not any(z_ is x_ for z_ in subterms(p_[0])):
                whole = call(y_.args[0], p_[0], sc_[2], *p_[2:], *[mk("kw", a_, v_) for a_, v_ in k_.items()])
                ss = [q_ for q_ in ss if q_[1] is not y_]
                ss.append(("direct", whole))
                opened_ss = getattr(c, "_opened", [])
                opened_ss.append((getitem(t, const(1)), whole))
                c._opened = opened_ss
    # the comb tooth may be computed in one loop and used in a second pass over the collected indices: loops over the
    # same range are the same iteration space
    uniq = {}
    for kind_, t_ in ss:
        uniq.setdefault(norm_iter(t_).uid, (kind_, t_))
    ss = list(uniq.values())
    if len(ss) != 1:
        c.problems.append(f"{len(ss)} searchsorted sites (expected 1)")
        return c
    kind, st = ss[0]
    if kind == "direct":
        _, pos, kws = call_parts(st)
        c.side_ok = "side" not in kws or (kws["side"].op == "const" and kws["side"].args[0] == "left")
        if len(pos) < 2:
            c.problems.append("searchsorted without (cumulative, position)")
            return c
        cum, posn = pos[0], pos[1]
        if len(pos) > 2:
            c.side_ok = pos[2].op == "const" and pos[2].args[0] == "left"
        # all teeth at once:  searchsorted(cum, [E(i) for i in range(S)])  is the loop  for i in range(S): searchsorted(cum, E(i))
        pc = strip_wrappers(posn)
        if pc.op == "comp" and len(pc.args) == 3 and pc.args[0] in ("list", "gen") and pc.args[2].op == "gen" and \
                len(pc.args[2].args) == 1 and pc.args[1].op == "tuple" and len(pc.args[1].args) == 1:
            posn = pc.args[1].args[0]
        else:
            # ... or collected tooth by tooth in a list that an earlier loop fills
            ap = Evaluator.appended_elements(pc)
            if ap is not None and ap[1] is not None:
                posn = ap[0]
    else:
        f, in_axes, vargs = match_vmap(st)
        c.side_ok = len(vargs) == 2
        cum, posn = vargs[0], vargs[1]
        if not (in_axes is not None and in_axes.op == "tuple" and len(in_axes.args) == 2
                and is_const(in_axes.args[0], None) and is_const(in_axes.args[1], 0)):
            c.problems.append("vmap(searchsorted) must map the positions only: in_axes=(None, 0)")
    index_term = st
    for t_vm, r_dir in getattr(c, "_opened", []):
        if r_dir is st:
            index_term = t_vm          # the index vector the function works with is the result of the vmap call
    # cumulative = cumsum(abs(W))
    cs = m_arrcall(strip_wrappers(cum), "cumsum")
    if cs is None:
        c.problems.append("searchsorted is not applied to a cumsum")
        return c
    ab = m_arrcall(strip_wrappers(cs[0]), "abs", "absolute")
    c.abs_ok = ab is not None
    c.cum_of = strip_wrappers(ab[0]) if ab else strip_wrappers(cs[0])
    total = getitem(cum, const(-1))
    # position = total * (i + zeta) / D
    num, den = frac(posn)
    num = [strip_wrappers(x) for x in num]
    c.total_ok = any(x is total for x in num)
    rest = [x for x in num if x is not total]
    c.pos_div = canon(den)
    slots = None
    if len(rest) == 1:
        m = m_binop(rest[0], "+")
        if m is not None:
            a, b = strip_wrappers(m[0]), strip_wrappers(m[1])
            for idx, z in ((a, b), (b, a)):
                if z.op == "sym" and z.args[0] == "zeta":
                    c.zeta_ok = True
                    if idx.op == "iter":  # for i in range(S)
                        rng = idx.args[0]
                        if rng.op == "call" and func_name(rng) == "builtins.range":
                            ra = call_parts(rng)[1]
                            if len(ra) == 1:
                                slots = canon(frac(ra[0])[0])
                    else:
                        ar = m_arrcall(idx, "arange")
                        if ar is not None and len(ar) == 1:
                            slots = canon(frac(ar[0])[0])
    if slots is None:
        c.problems.append(f"comb position is not total*(i + zeta)/N: {show(posn, maxdepth=4)[:100]}")
    c.slots = slots
    # average weight and new weights: find ones(S') * (total / D')
    for t in terms:
        if t.op == "binop" and t.args[0] == "*":
            for a, b in ((t.args[1], t.args[2]), (t.args[2], t.args[1])):
                on = m_arrcall(strip_wrappers(a), "ones")
                if on is not None:
                    n2, d2 = frac(b)
                    n2 = [strip_wrappers(x) for x in n2]
                    if len(n2) == 1 and n2[0] is total:
                        c.avg_div = canon(d2)
                        c.out_len = canon(frac(on[0])[0])
    if c.avg_div is None:
        c.problems.append("survivor weight is not ones(N) * (total / N)")
    # gathers / copies of walkers
    for e in ev.events:
        if e.kind == "store" and len(e.data[1]) >= 1 and all(
                k_.op == "const" and isinstance(k_.args[0], str) for k_ in e.data[1][:-1]):
            # buf[i] = ...   or   buffers["walkers_new"][i] = ...  (a dict of named buffers)
            var = e.data[0] + "".join(f"[{k_.args[0]!r}]" for k_ in e.data[1][:-1])
            key, val = e.data[1][-1], e.data[2]
            v = live_arm(val)
            if v.op == "getitem" and (v.args[1] is index_term or strip_wrappers(v.args[1]) is index_term or
                                      norm_iter(strip_wrappers(v.args[1])) is norm_iter(index_term)):
                c.gathers.append((f"{var}[{show(key, maxdepth=1)}]", show(strip_wrappers(v.args[0]), maxdepth=3),
                                  v.args[1]))
                # the buffer read by the gather must be the pre-reconfiguration one: if the loop that does the copying
                # also stores into it, slot new_i may already hold a survivor (the comb index can be < i)
                src = strip_wrappers(v.args[0])
                lids = {l_[0] for l_ in e.loops}
                # name of the buffer that is read: a loop-carried variable, or a named entry of a loop-carried dict of buffers
                sid = None
                if src.op == "havoc" and src.args[0] in lids:
                    sid = src.args[1]
                elif src.op == "getitem" and src.args[1].op == "const" and isinstance(src.args[1].args[0], str) and \
                        strip_wrappers(src.args[0]).op == "havoc" and strip_wrappers(src.args[0]).args[0] in lids:
                    sid = f"{strip_wrappers(src.args[0]).args[1]}[{src.args[1].args[0]!r}]"
                if sid is not None and sid == var:
                    c.inplace.append((e.line, var, show(src, maxdepth=2)[:60]))
    R = ev.result(fr)
    if R.op == "tuple" and len(R.args) == 2:
        w_out = strip_wrappers(R.args[0])
        if w_out.op == "getitem" and norm_iter(strip_wrappers(w_out.args[1])) is norm_iter(index_term):
            c.gathers.append(("return", show(strip_wrappers(w_out.args[0]), maxdepth=3), w_out.args[1]))
        if w_out.op == "call" and (func_name(w_out) or "").split(".")[-1] in ("tree_map", "map") and \
                "tree" in (func_name(w_out) or "") and len(call_parts(w_out)[1]) == 2 and call_parts(w_out)[1][0].op == "closure":
            # tree_map(lambda block: block[index], walkers): every array of the walker container is gathered with the
            # one comb index (the container's shape -- one array or an [up, dn] pair -- does not matter)
            leaf = sym("§leaf")
            try:
                body = strip_wrappers(ev.open_closure(call_parts(w_out)[1][0], [leaf]))
            except AnalysisError:
                body = None
            if body is not None and body.op == "getitem" and body.args[0] is leaf and \
                    norm_iter(strip_wrappers(body.args[1])) is norm_iter(index_term):
                c.tree_gather = show(call_parts(w_out)[1][1], maxdepth=2)
    c.ungathered = []
    if R.op == "tuple" and len(R.args) == 2 and strip_wrappers(R.args[0]).op in ("list", "tuple"):
        # a freshly built container: every block of it is a gather by the comb index; a block of the argument handed back
        # as it came is a positive witness of a block the comb did not touch
        prm0 = sym(fi.pos_params()[0].name) if fi.pos_params() else None
        for k_, el in enumerate(strip_wrappers(R.args[0]).args):
            el = strip_wrappers(el)
            if el.op == "getitem" and norm_iter(strip_wrappers(el.args[1])) is norm_iter(index_term):
                c.gathers.append((f"return[{k_}]", show(strip_wrappers(el.args[0]), maxdepth=3), el.args[1]))
            elif prm0 is not None and (el is prm0 or (el.op == "getitem" and strip_wrappers(el.args[0]) is prm0 and
                                                      el.args[1].op == "const")):
                c.ungathered.append((k_, show(el, maxdepth=2)))
    c.events = ev.events
    c.ev = ev
    c.result = R
    c.index_term = index_term
    return c


def run(ctx):
    p = ctx.p
    mod = p.module("sr")
    combs: Dict[str, Comb] = {}
    for name in SR_FUNCS:
        fi = mod.functions.get(name)
        if fi is None:
            raise AnalysisError(f"sr.{name} not found")
        c = analyse_comb(ctx, fi)
        combs[name] = c
        q = fi.qualname
        ctx.ob("SIB-1", f"{q}: comb descriptor extracted", not c.problems, "; ".join(c.problems) or
               f"slots {c.slots}, position divisor {c.pos_div}, weight divisor {c.avg_div}, output length {c.out_len}", fi)
        if c.problems:
            continue
        ctx.ob("COUNT-1", f"{q}: cumulative weights are cumsum(abs(weights))", c.abs_ok,
               "abs present" if c.abs_ok else "cumsum of signed weights: a negative weight breaks the comb", fi)
        ctx.ob("COUNT-1", f"{q}: total weight is the last cumulative entry", c.total_ok,
               "positions scale with cumulative[-1]", fi)
        same = c.slots == c.pos_div == c.avg_div == c.out_len
        ctx.ob("COUNT-1", f"{q}: slot count == comb divisor == weight divisor == output length", same,
               f"S={c.slots} D={c.pos_div} D'={c.avg_div} S'={c.out_len}" +
               ("" if same else " (total weight not conserved / not every slot filled)"), fi)
        ctx.ob("SIB-1", f"{q}: searchsorted uses the default (left) side", c.side_ok,
               "side default" if c.side_ok else "side != left changes which walker a tie selects", fi)
        ctx.ob("SIB-1", f"{q}: one offset zeta for every slot", c.zeta_ok, "i + zeta", fi)
        # what is combed: the weights parameter (or its gathered buffer)
        src = show(c.cum_of, maxdepth=3)
        okw = "weights" in src
        ctx.ob("SIB-1", f"{q}: the comb runs over the weights", okw, f"cumsum(abs({src}))", fi)
        _copies(ctx, fi, c)
    # sibling agreement on the descriptor shape
    good = [n for n in SR_FUNCS if not combs[n].problems]
    if len(good) >= 2:
        ref = combs[good[0]]
        for n in good[1:]:
            cc = combs[n]
            agree = (cc.abs_ok, cc.total_ok, cc.side_ok, cc.zeta_ok) == (
                ref.abs_ok, ref.total_ok, ref.side_ok, ref.zeta_ok)
            ctx.ob("SIB-1", f"sr.{n} agrees with sr.{good[0]} on the comb form", agree,
                   "same comb", mod.functions[n])
    if len(good) < 5:
        ctx.rep.note(f"only {len(good)} of 5 comb implementations recognised")
    callers(ctx)
    mpi_rules(ctx)
    stub(ctx)


def _copies(ctx, fi: FuncInfo, c: Comb):
    """Returned walkers are gathers/copies of input walkers by the comb index only; both spin
    blocks use the same index."""
    q = fi.qualname
    wprm_ = (fi.pos_params() or [None])[0]
    uses_pair = bool(_subscripts_pair(fi.node, wprm_.name if wprm_ is not None else "walkers",
                                      ctx.p.modules[fi.module].constants))
    n_g = len(c.gathers)
    want = 2 if uses_pair else 1
    if getattr(c, "ungathered", None):
        ctx.ob("PAIR-1", f"{q}: every block handed back is gathered with the comb index", False,
               f"block(s) {c.ungathered} of the returned container are the argument's own blocks: the comb selected "
               f"survivors for the other block(s) only", fi)
    if n_g == 0 and c.tree_gather is None:
        # no copy through the comb index was recognised at all.  A positive witness would be the container handed back as
        # it came; anything else (the copying parked in a helper, written over a list of blocks, ...) is not judged
        R_ = getattr(c, "result", None)
        w_out = strip_wrappers(R_.args[0]) if R_ is not None and R_.op == "tuple" and R_.args else None
        if w_out is not None and wprm_ is not None and w_out is sym(wprm_.name):
            ctx.ob("PAIR-1", f"{q}: the walkers handed back are gathered with the comb index", False,
                   f"the function returns its `{wprm_.name}` argument unchanged", fi)
        else:
            ctx.rep.note(f"{q}: no gather by the comb index was recognised in this shape of the code; the gather-count rule "
                         f"is not applied to it")
    if c.tree_gather is not None and n_g == 0:
        ctx.ob("PAIR-1", f"{q}: every block of the walker container is gathered with the comb index", True,
               f"tree_map(block -> block[index], {c.tree_gather})", fi)
        return
    if n_g > 0:
      ctx.ob("PAIR-1", f"{q}: {'both spin blocks are' if uses_pair else 'the walker block is'} gathered with the comb index",
           n_g == want, f"{n_g} gather(s) by the searchsorted index: {[(d, s) for d, s, _ in c.gathers]}"
           + ("" if n_g == want else f" (expected {want})"), fi)
    if uses_pair and n_g == 2:
        srcs = sorted(s for _, s, _ in c.gathers)
        distinct = srcs[0] != srcs[1]
        ctx.ob("PAIR-1", f"{q}: up and down blocks are gathered from their own buffers", distinct,
               f"sources {srcs}", fi)
    ctx.ob("PAIR-1", f"{q}: the comb copies out of the pre-reconfiguration buffer (source is not written by the copy loop)",
           not c.inplace, f"in-place gather(s): {c.inplace}" if c.inplace else
           f"{n_g} gather(s) read buffers the loop does not store into", fi)
    # no arithmetic on walkers on the way out: every store into an output walker buffer is a
    # gather-by-index (optionally .copy()), an allocation (0.0 * x, zeros) or a conversion
    bad = []
    for e in c.events:
        if e.kind == "store" and len(e.data[1]) == 1:
            var = e.data[0]
            if "walkers" not in var:
                continue
            v = live_arm(e.data[2])
            if v.op == "getitem":
                idx = strip_wrappers(v.args[1])
                if idx is c.index_term or norm_iter(idx) is norm_iter(c.index_term):
                    continue
            if e.loops and not (v.op == "getitem" and norm_iter(strip_wrappers(v.args[1])) is norm_iter(c.index_term)):
                bad.append((e.line, show(v, maxdepth=2)[:60]))
                continue
            if v.op == "getitem" and v.args[1].op == "const":
                continue
    ctx.ob("PAIR-1", f"{q}: survivors are copies of existing walkers", not bad,
           f"non-gather stores into walker buffers inside the comb loop: {bad}" if bad else
           "stores into walker buffers are gathers by the comb index", fi)
    # the loop covers all slots: range(S) with S == slots (already in COUNT-1); jitted: index vector has S entries


def _state_level(p, fi, depth: int = 0) -> bool:
    """a function of module sr that works on the walker-state dict (reads prop_data['key'] ..., or hands its first
    parameter to one that does) rather than on (walkers, weights, zeta): a wrapper around a comb, not a comb"""
    if fi is None or fi.module != "sr" or depth > 4:
        return False
    pp = fi.pos_params()
    if not pp:
        return False
    first = pp[0].name
    for nd in ast.walk(fi.node):
        if isinstance(nd, ast.Subscript) and isinstance(nd.value, ast.Name) and nd.value.id == first and \
                isinstance(nd.slice, ast.Constant) and isinstance(nd.slice.value, str):
            return True
    for nd in ast.walk(fi.node):
        if isinstance(nd, ast.Call) and nd.args and isinstance(nd.args[0], ast.Name) and nd.args[0].id == first:
            r_ = p.resolve_name(p.modules[fi.module], dotted(nd.func) or "") if dotted(nd.func) else None
            if r_ is not None and r_[0] == "func" and r_[1] != fi.qualname and _state_level(p, p.functions.get(r_[1]), depth + 1):
                return True
    return False


def _wrapper_policy(p):
    return lambda callee, rc, fr: _state_level(p, callee)


def _comb_of(p, fi, q) -> str:
    """qualified name of the sr.* comb the reconfiguration wrapper `fi` calls when self is exactly class q"""
    ev = Evaluator(p)
    ev.auto_inline_helpers = True
    ev.inline_policy = _wrapper_policy(p)
    try:
        ev.exact_types[sym("self")] = q
        fr = ev.eval_function(fi, self_class=q)
    except AnalysisError:
        return "?"
    ks = sorted({e.data.args[0].args[0] for e in ev.events if e.kind == "call" and e.data.args[0].op == "fn"
                 and e.data.args[0].args[0].startswith("sr.")})
    return ",".join(ks) or "?"


def callers(ctx):
    p = ctx.p
    n = 0
    done_callers = set()
    for q in p.subclasses("propagation.propagator"):
        ci = p.classes[q]
        for mname in ("stochastic_reconfiguration_local", "stochastic_reconfiguration_global"):
            # the implementation this class resolves the name to, evaluated for this class (a shared wrapper may pick
            # its comb through a class-level strategy attribute); one judgement per (implementation, comb)
            fi = p.lookup_method(q, mname)
            if fi is None or fi.is_abstract or fi.is_refusal():
                continue
            kern = _comb_of(p, fi, q)
            if (fi.qualname, kern) in done_callers:
                continue
            done_callers.add((fi.qualname, kern))
            n += 1
            k_split = common.prng1(ctx, fi, self_class=q, inline=_wrapper_policy(p))
            ctx.ob("PRNG-1", f"{fi.qualname}: the key is split before the offset is drawn", k_split >= 1,
                   f"{k_split} random.split call(s)", fi)
            ev = Evaluator(p)
            ev.auto_inline_helpers = True
            ev.inline_policy = _wrapper_policy(p)
            ev.exact_types[sym("self")] = q
            fr = ev.eval_function(fi, self_class=q)
            R = ev.result(fr)
            calls = [e.data for e in ev.events if e.kind == "call" and e.data.args[0].op == "fn"
                     and e.data.args[0].args[0].startswith("sr.")]
            if len(calls) != 1:
                ctx.ob("SIB-1", f"{fi.qualname}: calls one comb", False, f"{len(calls)} sr.* calls", fi)
                continue
            c = calls[0]
            _, pos, kws = call_parts(c)
            # the comb's public signature is (walkers, weights, zeta[, comm]); arguments may be passed by keyword
            from ..model import bind_call
            comb_fi = p.functions[c.args[0].args[0]]
            okb_, _, mp_ = bind_call(comb_fi, len(pos), list(kws), False)
            actual = {h_: (pos[m_[1]] if m_[0] == "pos" else kws[m_[1]]) for h_, m_ in mp_.items()} if okb_ else {}
            cparams = [x.name for x in comb_fi.pos_params()]
            pos = [actual.get(h_) for h_ in cparams]
            while pos and pos[-1] is None:
                pos.pop()
            if any(a_ is None for a_ in pos):
                pos = []
            pd = sym([x.name for x in fi.params if x.name != "self"][0])
            # arguments: walkers, weights of the same prop_data; zeta = uniform(subkey)
            arg_ok = len(pos) >= 3 and pos[0] is getitem(pd, const("walkers")) and \
                pos[1] is getitem(pd, const("weights"))
            z = strip_wrappers(pos[2]) if len(pos) >= 3 else None
            z_ok = z is not None and z.op == "call" and func_name(z) == "jax.random.uniform"
            ctx.ob("PRNG-1", f"{fi.qualname}: offset is a fresh uniform draw", z_ok,
                   f"zeta = {show(z, maxdepth=2)[:80] if z is not None else '?'}", fi)
            if z_ok:
                # one offset for the whole comb: uniform(key) / uniform(key, ()) -- a vector of offsets broadcasts
                # silently against arange(N) and gives every tooth its own offset
                _, zp, zk = call_parts(z)
                shp = zk.get("shape", zp[1] if len(zp) > 1 else None)
                shp = strip_wrappers(shp) if shp is not None else None
                scalar = shp is None or (shp.op in ("tuple", "list") and len(shp.args) == 0) or \
                    (shp.op == "const" and shp.args[0] in ((), None))
                ctx.ob("SIB-1", f"{fi.qualname}: the offset is one scalar draw shared by every tooth", scalar,
                       "uniform(key) with the default shape ()" if scalar else f"shape={show(shp)[:40]}", fi)
            w_store = getitem(R, const("walkers")) is getitem(c, const(0))
            wt_store = getitem(R, const("weights")) is getitem(c, const(1))
            ctx.ob("PAIR-1", f"{fi.qualname}: comb outputs stored to their own slots", arg_ok and w_store and wt_store,
                   "walkers, weights = comb(walkers, weights, zeta)" if (arg_ok and w_store and wt_store)
                   else "comb arguments/results are not (walkers, weights) of prop_data in that order", fi)
            # container kind agreement
            callee = p.functions[c.args[0].args[0]]
            wname = (callee.pos_params() or [None])[0]
            callee_pair = _subscripts_pair(callee.node, wname.name if wname is not None else "walkers",
                                           p.modules[callee.module].constants)
            trot = p.lookup_method(q, "_apply_trotprop")
            cls_pair = _subscripts_pair(trot.node, "walkers", p.modules[trot.module].constants) if trot is not None else None
            if callee_pair is None or cls_pair is None:
                ctx.rep.note(f"{fi.qualname}: {callee.qualname if callee_pair is None else q + '._apply_trotprop'} hands the walker "
                             f"container on without indexing it; the container-kind rule is not applied")
                continue
            ctx.ob("PAIR-1", f"{fi.qualname}: comb matches the walker container of the class",
                   callee_pair == cls_pair,
                   f"{callee.qualname} treats walkers as {'[up, dn]' if callee_pair else 'one array'}; "
                   f"{q} stores them as {'[up, dn]' if cls_pair else 'one array'}", fi)
            if mname.endswith("global"):
                has_comm = any(x is sym("comm") for x in pos if x is not None) or "comm" in kws
                ctx.ob("MPI-2", f"{fi.qualname}: forwards the communicator", has_comm, "comm passed", fi)
    if n < 4:
        raise AnalysisError(f"found {n} reconfiguration callers (expected 4)")


def _subscripts_pair(node, name, consts=None) -> Optional[bool]:
    """How the function treats the container `name`: True -- as an [up, dn] pair (name[0] / name[1], also through a
    module constant UP / DN, or unpacked into two names); False -- as one array (name.shape / .dtype / arithmetic on it /
    indexed by a computed index); None -- the body shows neither (it hands the container on)."""
    consts = consts or {}

    def is01(sl):
        if isinstance(sl, ast.Constant):
            return sl.value in (0, 1) and not isinstance(sl.value, bool)
        if isinstance(sl, ast.Name) and sl.id in consts:
            v = consts[sl.id]
            return isinstance(v, ast.Constant) and v.value in (0, 1) and not isinstance(v.value, bool)
        return False
    pair = single = False
    for nd in ast.walk(node):
        if isinstance(nd, ast.Subscript) and isinstance(nd.value, ast.Name) and nd.value.id == name:
            if is01(nd.slice):
                pair = True
            elif not isinstance(nd.slice, (ast.Slice, ast.Tuple)):
                single = True
        elif isinstance(nd, ast.Assign) and isinstance(nd.value, ast.Name) and nd.value.id == name and \
                len(nd.targets) == 1 and isinstance(nd.targets[0], (ast.Tuple, ast.List)) and len(nd.targets[0].elts) == 2:
            pair = True
        elif isinstance(nd, ast.Attribute) and isinstance(nd.value, ast.Name) and nd.value.id == name and \
                nd.attr in ("shape", "dtype", "size", "ndim", "at", "reshape"):
            single = True
        elif isinstance(nd, ast.BinOp) and any(isinstance(x, ast.Name) and x.id == name for x in (nd.left, nd.right)):
            single = True
    if pair:
        return True
    if single:
        return False
    return None


COLLECTIVES = {"Gather", "Scatter", "Reduce", "Bcast", "bcast", "Barrier", "Allreduce", "Allgather",
               "gather", "scatter", "reduce", "allreduce"}


def _rank_dependent(t: T) -> bool:
    for x in subterms(t):
        if x.op == "sym" and x.args[0] == "rank":
            return True
        if x.op == "call" and x.args[0].op == "attr" and x.args[0].args[1] == "Get_rank":
            return True
        if x.op == "global" and x.args[0].endswith(".rank"):
            return True
    return False


def _on_rank(cond: T, pol: bool, root: bool) -> Optional[bool]:
    """truth of the path condition (cond is pol) on the root / on any other rank; None when cond does not compare the
    rank with the literal 0 in a form read here"""
    c = strip_wrappers(cond)
    neg = False
    while c.op == "unop" and c.args[0] == "not":
        neg, c = not neg, strip_wrappers(c.args[1])
    if c.op != "cmp" or len(c.args) != 3:
        return None
    op_, a, b = c.args
    a, b = strip_wrappers(a), strip_wrappers(b)
    if is_const(a, 0) and _rank_dependent(b):
        a, b = b, a
        op_ = {"<": ">", ">": "<", "<=": ">=", ">=": "<="}.get(op_, op_)
    if not (is_const(b, 0) and _rank_dependent(a)) or any(x.op == "call" and x.args[0].op != "attr" for x in subterms(a)):
        return None
    table = {"==": (True, False), "!=": (False, True), ">": (False, True), "<": (False, False),
             ">=": (True, True), "<=": (True, False)}
    if op_ not in table:
        return None
    v = table[op_][0 if root else 1]
    v = (not v) if neg else v
    return v if pol else not v


def mpi_rules(ctx):
    p = ctx.p
    n_coll = 0
    for q in ("sr.stochastic_reconfiguration_mpi", "sr.stochastic_reconfiguration_mpi_uhf",
              "driver.afqmc", "driver.fp_afqmc"):
        fi = p.func(q)
        ev = Evaluator(p)
        if q.startswith("sr."):
            ev.auto_inline_helpers = True        # private helpers that issue the collectives of one rank are part of it
        fr = ev.eval_function(fi)
        gathers, scatters = [], []
        bad = []
        # every rank must issue the same sequence of collectives: the sequence seen by the root and the one seen by any
        # other rank are read off the path conditions; a collective that only one of them reaches is a deadlock
        seqs = {True: [], False: []}
        unread = []
        for e in ev.events:
            if e.kind != "call":
                continue
            f = e.data.args[0]
            if f.op == "attr" and f.args[1] in COLLECTIVES and show(f.args[0]) in ("comm",
                                                                                  "MPI.COMM_WORLD"):
                n_coll += 1
                dep = [(c, pol) for c, pol in e.path if _rank_dependent(c)]
                other = tuple(sorted((c.uid, pol) for c, pol in e.path if not _rank_dependent(c)))
                _, pos, kws = call_parts(e.data)
                rootkw = kws.get("root")
                sig = (f.args[1], show(rootkw) if rootkw is not None else "", other)
                on_root = True
                for is_root in (True, False):
                    tv = [_on_rank(c, pol, is_root) for c, pol in dep]
                    if any(v is None for v in tv):
                        unread.append((e.line, f.args[1]))
                        break
                    if all(tv):
                        seqs[is_root].append((sig, e.line))
                    elif is_root:
                        on_root = False
                if not on_root:
                    continue                      # the root-side buffers are judged on the calls the root makes
                if f.args[1] == "Gather":
                    gathers.append((e, pos))
                elif f.args[1] == "Scatter":
                    scatters.append((e, pos))
        if unread:
            bad = unread
        else:
            ra, rb = [s_ for s_, _ in seqs[True]], [s_ for s_, _ in seqs[False]]
            if ra != rb:
                k_ = next((i for i, (x_, y_) in enumerate(zip(ra, rb)) if x_ != y_), min(len(ra), len(rb)))
                lr = seqs[True][k_][1] if k_ < len(seqs[True]) else None
                lo = seqs[False][k_][1] if k_ < len(seqs[False]) else None
                bad = [("root", lr, ra[k_][0] if k_ < len(ra) else None), ("other ranks", lo, rb[k_][0] if k_ < len(rb) else None)]
        ctx.ob("MPI-1", f"{q}: no collective is control-dependent on the rank", not bad,
               f"collectives under a rank-dependent condition (deadlock on the other ranks): {bad}" if bad
               else "the root and every other rank issue the same sequence of collectives", fi)
        if q.startswith("sr."):
            ok = len(gathers) == len(scatters) and len(gathers) >= 2
            ctx.ob("MPI-2", f"{q}: every Gather has a matching Scatter", ok,
                   f"{len(gathers)} Gather, {len(scatters)} Scatter", fi)
            for k, ((eg, pg), (es, ps)) in enumerate(zip(gathers, scatters)):
                send = strip_wrappers(pg[0]) if pg else None
                recv = strip_wrappers(ps[1]) if len(ps) > 1 else None
                m = m_binop(recv, "*") if recv is not None else None
                shaped = False
                if m is not None:
                    for a, b in ((m[0], m[1]), (m[1], m[0])):
                        if a.op == "const" and a.args[0] in (0, 0.0) and strip_wrappers(b) is send:
                            shaped = True
                ctx.ob("MPI-2", f"{q}: Scatter #{k} fills a buffer shaped like the gathered send buffer",
                       shaped, f"send {show(send, maxdepth=2)[:50]} / recv {show(recv, maxdepth=2)[:50]}",
                       fi, es.line)
                # root buffers allocated alike
                gb = pg[1] if len(pg) > 1 else None
                sb = ps[0] if ps else None
                # what the root sends out is what the comb wrote: a send buffer that is, on the root, still the bare
                # allocation (np.zeros(..) that nothing was stored into -- at best the Gather filled it with the old
                # population) drops the selection
                if sb is not None:
                    def _leaves(t_):
                        t_ = strip_wrappers(t_)
                        if t_.op in ("phi", "ifexp") and len(t_.args) == 3:
                            return _leaves(t_.args[1]) + _leaves(t_.args[2])
                        return [t_]
                    lv_ = [x_ for x_ in _leaves(sb) if not is_const(x_, None)]
                    # a buffer handed to some other call (np.copyto(buf, ..), np.take(.., out=buf), a helper) may have been
                    # filled there: only the collectives themselves are known not to comb
                    handed = set()
                    for e2 in ev.events:
                        if e2.kind == "call" and not (e2.data.args[0].op == "attr" and e2.data.args[0].args[1] in COLLECTIVES):
                            _, p2, k2 = call_parts(e2.data)
                            for a2 in list(p2) + list(k2.values()):
                                a2 = strip_wrappers(a2)
                                handed.add(a2.uid)
                                while a2.op == "getitem":            # a view buf[i:j] handed on is the buffer handed on
                                    a2 = strip_wrappers(a2.args[0])
                                    handed.add(a2.uid)
                    bare = [x_ for x_ in lv_ if x_.op == "call" and array_fn(x_) in ("zeros", "empty", "zeros_like", "empty_like")
                            and x_.uid not in handed]
                    if lv_:
                        ctx.ob("MPI-2", f"{q}: Scatter #{k} sends a buffer the comb has written", len(bare) < len(lv_),
                               f"root send buffer {show(lv_[0], maxdepth=2)[:60]}" + (
                                   " is only allocated (or filled by the Gather): the combed population is never sent"
                                   if len(bare) == len(lv_) else ""), fi, es.line)
                if gb is not None and sb is not None and (_alloc_shape(gb) is None or _alloc_shape(sb) is None):
                    ctx.rep.note(f"{q}: the root buffer of Gather / Scatter #{k} is allocated in a way the value graph does "
                                 f"not follow ({show(gb if _alloc_shape(gb) is None else sb, maxdepth=2)[:60]}); the extent "
                                 f"rule is not applied to this pair")
                else:
                  ctx.ob("MPI-2", f"{q}: Gather #{k} and Scatter #{k} use root buffers of the same extent",
                       gb is not None and sb is not None and _same_alloc(gb, sb),
                       f"{show(gb, maxdepth=2)[:70]} vs {show(sb, maxdepth=2)[:70]}", fi, eg.line)
                dg, ds_ = (_alloc_dtype(gb) if gb is not None else None), (_alloc_dtype(sb) if sb is not None else None)
                if dg is not None and ds_ is not None:
                    # the receive buffer of the Scatter side is filled from the gathered one: a buffer allocated without
                    # the walkers' dtype (numpy's default float64) silently drops the imaginary part of what is copied in
                    ctx.ob("MPI-2", f"{q}: Gather #{k} and Scatter #{k} use root buffers of the same dtype", dg == ds_,
                           f"gathered into dtype {dg}, scattered from dtype {ds_}", fi, es.line)
            # what the root combs: the cumulative weights are taken over the receive buffer of the Gather that collected the
            # weights argument (second parameter) of every rank -- the rank's own weights are a different array of a
            # different length whenever there is more than one rank
            wprm = [x.name for x in fi.pos_params()]
            wsym = sym(wprm[1]) if len(wprm) > 1 else None

            def phi_leaves(t_):
                t_ = strip_wrappers(t_)
                if t_.op in ("phi", "ifexp"):
                    return phi_leaves(t_.args[1]) + phi_leaves(t_.args[2])
                return [t_]
            wg = [pg_ for (_, pg_) in gathers if len(pg_) > 1 and wsym is not None and any(x is wsym for x in subterms(pg_[0]))]
            cums = [e.data for e in ev.events if e.kind == "call" and array_fn(e.data) == "cumsum"]
            if len(wg) == 1 and cums:
                recv_leaves = phi_leaves(wg[0][1])
                for cu in cums:
                    arg = strip_wrappers(call_parts(cu)[1][0])
                    while arg.op == "call" and (array_fn(arg) or "") in ("abs", "absolute", "fabs") and call_parts(arg)[1]:
                        arg = strip_wrappers(call_parts(arg)[1][0])
                    roots = phi_leaves(arg)
                    from_recv = any(r_ is l_ for r_ in roots for l_ in recv_leaves)
                    local = any(r_ is wsym for r_ in roots)
                    if from_recv or local:
                        ctx.ob("MPI-1", f"{q}: the cumulative weights are those of the gathered buffer", from_recv and not local,
                               "cumsum over the receive buffer of the weights Gather" if from_recv and not local else
                               f"cumsum over the rank's own `{wprm[1]}`: the comb sees the walkers of rank 0 only", fi)
                    else:
                        ctx.rep.note(f"{q}: cumulative weights are taken over {show(arg, maxdepth=2)[:50]}, neither the gathered "
                                     f"buffer nor the argument; the source rule is not applied")
            # the comb itself runs on the root only
            ss_paths = [e.path for e in ev.events if e.kind == "call" and array_fn(e.data) == "searchsorted"]
            on_root = bool(ss_paths) and all(any(_rank_dependent(c) and pol for c, pol in path)
                                             for path in ss_paths)
            ctx.ob("MPI-1", f"{q}: the comb runs on the root over the gathered buffer", on_root,
                   "searchsorted under `if rank == 0`", fi)
    if n_coll < 10:
        raise AnalysisError(f"only {n_coll} collectives seen")


def _alloc_dtype(t: T) -> Optional[str]:
    """dtype expression of the allocation reaching t through phis / stores ('default' when none is given); None when the
    allocation is not recognised"""
    t = strip_wrappers(t)
    for _ in range(16):
        if t.op == "phi":
            a, b = strip_wrappers(t.args[1]), strip_wrappers(t.args[2])
            t = a if not is_const(a, None) else b
        elif t.op in ("loopout", "havoc"):
            t = strip_wrappers(t.args[2])
        elif t.op == "setitem":
            t = strip_wrappers(t.args[0])
        else:
            break
    mm = m_method(t, "astype")
    if mm is not None and mm[1]:
        return show(mm[1][0], maxdepth=3)
    if t.op == "call" and array_fn(t) in ("zeros_like", "ones_like", "empty_like") and call_parts(t)[1] and \
            "dtype" not in call_parts(t)[2]:
        return _alloc_dtype(call_parts(t)[1][0])
    if t.op == "call" and array_fn(t) in ("zeros", "ones", "empty"):
        kw = call_parts(t)[2]
        pos = call_parts(t)[1]
        d = kw.get("dtype", pos[1] if len(pos) > 1 else None)
        return show(d, maxdepth=3) if d is not None else "default"
    return None


def _alloc_shape(t: T) -> Optional[str]:
    """Extent (first dimension / length) expression of an allocation reaching t through phis."""
    t = strip_wrappers(t)
    for _ in range(16):
        if t.op == "phi":
            a, b = strip_wrappers(t.args[1]), strip_wrappers(t.args[2])
            t = a if not is_const(a, None) else b
        elif t.op == "loopout":
            t = strip_wrappers(t.args[2])
        elif t.op == "havoc":
            t = strip_wrappers(t.args[2])
        elif t.op == "setitem":
            t = strip_wrappers(t.args[0])          # buf[...] = v  keeps the extent of buf
        elif t.op == "getitem" and t.args[1].op == "const" and isinstance(t.args[1].args[0], str) and \
                strip_wrappers(t.args[0]).op in ("loopout", "havoc", "phi"):
            # an entry of a dict of buffers that a loop / branch passes through: the entry of what went in
            b_ = strip_wrappers(t.args[0])
            if b_.op == "phi":
                a_, c_ = getitem(b_.args[1], t.args[1]), getitem(b_.args[2], t.args[1])
                t = strip_wrappers(a_ if not is_const(strip_wrappers(b_.args[1]), None) else c_)
            else:
                t = strip_wrappers(getitem(b_.args[2], t.args[1]))
        else:
            break
    zl = m_arrcall(t, "zeros_like", "ones_like", "empty_like")
    if zl is not None and zl:
        return _alloc_shape(zl[0])          # a buffer allocated like another one has its extent
    z = m_arrcall(t, "zeros", "ones", "empty")
    if z is not None and z:
        shp = z[0]
        if shp.op == "tuple":
            return show(shp.args[0], maxdepth=4)
        return show(shp, maxdepth=4)
    mm = m_method(t, "astype")
    if mm is not None:
        return _alloc_shape(mm[0])
    if t.op == "binop" and t.args[0] == "*":
        for a in (t.args[1], t.args[2]):
            s = _alloc_shape(a)
            if s is not None:
                return s
    return None


def _same_alloc(a: T, b: T) -> bool:
    sa, sb = _alloc_shape(a), _alloc_shape(b)
    return sa is not None and sa == sb


def stub(ctx):
    p = ctx.p
    bind.bind5_stub(ctx, ["sr", "driver", "mpi_jax"])
    ci = p.cls("config.not_a_comm")
    # copy semantics of the stub
    init = p.lookup_method(ci.qualname, "__init__")
    vals = {}
    if init is not None:
        for nd in ast.walk(init.node):
            if isinstance(nd, ast.Assign) and isinstance(nd.targets[0], ast.Attribute) and \
                    isinstance(nd.value, ast.Constant):
                vals[nd.targets[0].attr] = nd.value.value
            elif isinstance(nd, ast.AnnAssign) and isinstance(nd.target, ast.Attribute) and \
                    isinstance(nd.value, ast.Constant):                   # self.size: int = 1
                vals[nd.target.attr] = nd.value.value
    ctx.ob("BIND-5", "config.not_a_comm: one rank, rank 0", vals.get("size") == 1 and vals.get("rank") == 0,
           f"size={vals.get('size')} rank={vals.get('rank')}", init)
    for mname, ret in (("Get_size", "size"), ("Get_rank", "rank")):
        fi = p.lookup_method(ci.qualname, mname)
        from ..model import returned_values
        ok = fi is not None and any(isinstance(v_, ast.Attribute) and v_.attr == ret for _, v_ in returned_values(fi.node))
        ctx.ob("BIND-5", f"config.not_a_comm.{mname} returns self.{ret}", ok, "", fi)
    for mname in ("Gather", "Scatter"):
        fi = p.lookup_method(ci.qualname, mname)
        ok = False
        if fi is not None:
            # evaluated with the class's own helpers in place: a store into the receive buffer whose value is the send
            # buffer (recbuf[:] = sendbuf), or numpy.copyto(recbuf, sendbuf)
            prm = [x.name for x in fi.params if x.name != "self"]
            ev = Evaluator(p)
            ev.auto_inline_helpers = True
            ev.eval_function(fi, self_class="config.not_a_comm")
            snd, rcv = sym(prm[0]), sym(prm[1])
            for e in ev.events:
                if e.kind == "store" and e.data[5] is rcv and strip_wrappers(e.data[2]) is snd:
                    ok = True
                if e.kind == "call" and (func_name(e.data) or "").endswith("copyto"):
                    cp_ = call_parts(e.data)[1]
                    if len(cp_) == 2 and cp_[0] is rcv and strip_wrappers(cp_[1]) is snd:
                        ok = True
        ctx.ob("BIND-5", f"config.not_a_comm.{mname} copies the send buffer into the receive buffer", ok,
               "recbuf[:] = sendbuf" if ok else "stub does not copy send -> receive", fi)
    fi = p.lookup_method(ci.qualname, "bcast")
    ok = fi is not None and any(isinstance(v_, ast.Name) and v_.id == fi.params[1].name for _, v_ in returned_values(fi.node))
    ctx.ob("BIND-5", "config.not_a_comm.bcast returns its argument", ok, "", fi)
    fi = p.lookup_method(ci.qualname, "Reduce")
    ok = False
    if fi is not None:
        prm = [x.name for x in fi.params if x.name != "self"]
        for nd in ast.walk(fi.node):
            if isinstance(nd, ast.Call) and (dotted(nd.func) or "").endswith("copyto") and len(nd.args) == 2:
                ok = prm[1] in ast.unparse(nd.args[0]) and prm[0] in ast.unparse(nd.args[1])
    ctx.ob("BIND-5", "config.not_a_comm.Reduce copies the send buffer into the receive buffer", ok, "", fi)
