"""NI-1 (dispatch layer) -- batching is a pure split / scan / vmap / merge of the walker axis."""

from __future__ import annotations

from typing import List, Optional

from ..model import AnalysisError, FuncInfo
from ..symex import (T, Evaluator, array_fn, call_parts, const, func_name, getitem, is_const,
                     match_scan, match_vmap, mk, show, strip_wrappers, subterms, sym)
from .match import m_arrcall, m_binop, m_method


def _reshape_split(t: T):
    """X.reshape(a, b, ...) -> (X, [a, b, ...])"""
    m = m_method(t, "reshape")
    if m is None:
        a = m_arrcall(t, "reshape") if t.op == "call" else None
        if a is None or len(a) < 2:
            return None
        m = (a[0], list(a[1:]))
    dims = list(m[1])
    if len(dims) == 1 and strip_wrappers(dims[0]).op in ("tuple", "list"):   # reshape((a, b, ..)) == reshape(a, b, ..)
        dims = list(strip_wrappers(dims[0]).args)
    elif len(dims) == 1 and strip_wrappers(dims[0]).op == "attr" and strip_wrappers(dims[0]).args[1] == "shape":
        # reshape(Y.shape): the leading extent is Y.shape[0], the rest is Y's own trailing shape
        sh = strip_wrappers(dims[0])
        dims = [getitem(sh, const(0)), mk("star", getitem(sh, mk("slice", const(1), const(None), const(None))))]
    return m[0], dims


def check_batched(ctx, fi: FuncInfo, cls: str, rule: str = "NI-1") -> int:
    p = ctx.p
    ev = Evaluator(p)
    fr = ev.eval_function(fi, self_class=cls)
    R = ev.result(fr)
    q = fi.qualname
    nb = mk("attr", sym("self"), "n_batch")
    n_ob = 0

    def ob(name, ok, msg):
        nonlocal n_ob
        n_ob += 1
        ctx.ob(rule, f"{q}: {name}", ok, msg, fi)

    # result: either a reshape(n_walkers, ...) of the scan outputs, or a list of such
    outs = list(R.args) if R.op == "list" else [R]
    scans = [x for x in subterms(R) if x.op == "call" and match_scan(x) is not None]
    if len(scans) != 1:
        ob("one scan over batches", False, f"{len(scans)} scans")
        return n_ob
    S = scans[0]
    f, init, xs, length = match_scan(S)
    ys = getitem(S, const(1))
    def seq_members(t):
        t = strip_wrappers(t)
        if t.op == "record":
            # a NamedTuple of arrays scanned as a whole; a field left at None is an empty subtree
            t = mk("tuple", *[a for a in t.args[1:] if not (a.op == "const" and a.args[0] is None)])
        if t.op in ("tuple", "list"):
            out = []
            for a in t.args:
                sub = seq_members(a) if strip_wrappers(a).op in ("tuple", "list", "record") else None   # (fields, (w_up, w_dn))
                out.extend(sub if sub is not None else [a])
            return out
        if t.op == "binop" and t.args[0] == "+":
            l, r = seq_members(t.args[1]), seq_members(t.args[2])
            if l is not None and r is not None:
                return l + r
        if t.op == "call" and func_name(t) in ("builtins.tuple", "builtins.list") and len(call_parts(t)[1]) == 1:
            return seq_members(call_parts(t)[1][0])
        return None

    members = seq_members(xs) if strip_wrappers(xs).op in ("tuple", "list", "binop", "record") or (
        strip_wrappers(xs).op == "call" and func_name(strip_wrappers(xs)) in ("builtins.tuple", "builtins.list")) else None
    if members is None:
        members = [xs]
    # (a) every scanned member is X.reshape(self.n_batch, batch_size, ...)
    batch_size = None
    n_walkers = None
    split_ok = True
    why = []
    unknown_members = [k for k, m in enumerate(members) if strip_wrappers(m).op in ("star", "comp", "genseq")]
    if unknown_members:
        # (fields.reshape(..), *<generated blocks>): how many arrays are scanned, and how each is split, is not
        # fixed by the source text; the split / vmap / merge rules have nothing definite to judge
        ctx.rep.note(f"{q}: the scanned tuple is built with a starred / generated part (member {unknown_members[0]}); "
                     f"the batching rules do not apply to this form")
        return n_ob
    for k, m in enumerate(members):
        rs = _reshape_split(strip_wrappers(m))
        if rs is None or len(rs[1]) < 2:
            split_ok = False
            why.append(f"member {k} is not reshaped into (n_batch, batch_size, ...)")
            continue
        src, dims = rs
        s0 = strip_wrappers(src)
        plain = s0.op == "sym" or (s0.op == "getitem" and s0.args[0].op == "sym" and
                                   s0.args[1].op == "const" and isinstance(s0.args[1].args[0], int))
        if not plain:
            split_ok = False
            why.append(f"member {k} reshapes {show(s0, maxdepth=2)[:50]}, not the per-walker argument itself "
                       f"(reordered / sliced walker axis)")
        if dims[0] is not nb:
            split_ok = False
            why.append(f"member {k}: leading dimension is {show(dims[0])}, not self.n_batch")
        if batch_size is None:
            batch_size = dims[1]
        elif dims[1] is not batch_size:
            split_ok = False
            why.append(f"member {k} is split with a different batch size than member 0")
    ob("every scanned array is split as (n_batch, batch_size, ...)", split_ok,
       "; ".join(why) or f"{len(members)} member(s), same split")
    if batch_size is not None:
        d = m_binop(batch_size, "//")
        okb = d is not None and d[1] is nb
        if okb:
            n_walkers = d[0]
            shp = n_walkers
            okn = shp.op == "getitem" and is_const(shp.args[1], 0) and shp.args[0].op == "attr" and \
                shp.args[0].args[1] == "shape"
        else:
            okn = False
        ob("batch_size = n_walkers // n_batch with n_walkers = walkers.shape[0]", okb and okn,
           f"batch_size = {show(batch_size, maxdepth=3)}")
    # (b) body: vmap over the batch members with in_axes 0 for them and None for shared data
    if f.op != "closure":
        ob("scan body is a local function", False, "unmodelled scan body")
        return n_ob
    carry, x = sym("§carry"), mk("scan_x", xs, 0)
    body = ev.open_closure(f, [carry, x])
    if body.op != "tuple" or len(body.args) != 2:
        ob("scan body returns (carry, batch result)", False, "unmodelled body result")
        return n_ob
    ob("scan carry is passed through untouched", body.args[0] is carry, "carry returned as is")
    y = body.args[1]
    vms = [t for t in subterms(y) if t.op == "call" and match_vmap(t) is not None]
    # only the outermost vmaps over the batch (those whose args derive from x)
    n_v = 0
    for t in vms:
        fvm, in_axes, vargs = match_vmap(t)
        derived = [any(s is x for s in subterms(a)) for a in vargs]
        if not any(derived):
            continue
        n_v += 1
        axes = list(in_axes.args) if in_axes is not None and in_axes.op in ("tuple", "list") else None
        if in_axes is None:
            axes = [const(0)] * len(vargs)               # vmap's default: every argument is mapped along its axis 0
        elif in_axes.op == "const" and (in_axes.args[0] is None or type(in_axes.args[0]) is int):
            axes = [in_axes] * len(vargs)                # one specification for all arguments
        if axes is None or len(axes) != len(vargs):
            ob(f"vmap #{n_v} in_axes has one entry per argument", False,
               f"in_axes = {show(in_axes) if in_axes is not None else 'default'} for {len(vargs)} arguments")
            continue
        bad = []

        def leaves(ax):
            """axis specification per leaf: an int / None, or a tuple giving one per leaf of a pytree argument"""
            if ax.op in ("tuple", "list"):
                out = []
                for x_ in ax.args:
                    out += leaves(x_)
                return out
            return [ax]
        for k, (a, ax, dv) in enumerate(zip(vargs, axes, derived)):
            lv = leaves(ax)
            if dv and not (lv and all(is_const(x_, 0) for x_ in lv)):
                bad.append(f"argument {k} carries the batch but in_axes[{k}] = {show(ax)}")
            if not dv and not (lv and all(is_const(x_, None) for x_ in lv)):
                bad.append(f"argument {k} ({show(a, maxdepth=1)}) is shared data but in_axes[{k}] = {show(ax)}")
        ob(f"vmap #{n_v} maps exactly the per-walker arguments over axis 0", not bad,
           "; ".join(bad) or f"in_axes {show(in_axes)}")
    ob("the batch is evaluated by vmap", n_v >= 1, f"{n_v} vmap(s) over the batch")
    # (c) merge: reshape(n_walkers, ...) of the scan outputs through whitelisted ops only
    for k, o in enumerate(outs):
        o = strip_wrappers(o)
        rs = _reshape_split(o)
        okm, whym = False, ""
        if rs is None:
            whym = f"result {k} is not a reshape of the scan output"
        else:
            src, dims = rs
            def same_count(a, b) -> bool:
                """the walker count read off one block of the [up, dn] container is the count read off the other"""
                if a is b:
                    return True
                a, b = strip_wrappers(a), strip_wrappers(b)

                def block_of(t):
                    if t.op == "getitem" and is_const(t.args[1], 0) and t.args[0].op == "attr" and t.args[0].args[1] == "shape":
                        blk = strip_wrappers(t.args[0].args[0])
                        if blk.op == "getitem" and blk.args[1].op == "const" and blk.args[1].args[0] in (0, 1):
                            return strip_wrappers(blk.args[0])
                    return None
                ba, bb = block_of(a), block_of(b)
                return ba is not None and ba is bb
            if not dims or (n_walkers is not None and not same_count(dims[0], n_walkers)):
                whym = f"merged leading dimension is {show(dims[0]) if dims else '?'}, not n_walkers"
            else:
                s2 = strip_wrappers(src)
                cc = m_arrcall(s2, "concatenate")
                if cc is not None:
                    _, _, kw = call_parts(s2)
                    ax = kw.get("axis")
                    if ax is None or not is_const(ax, 0):
                        whym = "concatenate of the batch results is not along axis 0"
                        s2 = None
                    else:
                        s2 = strip_wrappers(cc[0])
                if s2 is not None:
                    while s2.op == "getitem" and s2.args[1].op == "const" and s2 is not ys:
                        s2 = s2.args[0]
                    okm = s2 is ys
                    if not okm:
                        whym = (f"the merge applies {show(strip_wrappers(src), maxdepth=2)[:70]} to the scan "
                                f"output (reordering / slicing of the walker axis)")
        ob(f"result {k} is the scan output merged back to n_walkers", okm, whym or "reshape(n_walkers, ...)")
    return n_ob
