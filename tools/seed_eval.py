#!/venv/bin/python
"""Run every check (quick tier, no evidence written) against /repo with one seeded change applied.

usage: tools/seed_eval.py <patch.diff> [--json out.json]

The patch is applied with `git -C /repo apply`, all 20 checks run in parallel, and the working tree is
restored with `git -C /repo checkout -- .` in a finally block.  Nothing is committed to /repo.
Prints one line per check that is not silent:  Cxx rc=<1|2>  <first reported obligations>.
"""
from __future__ import annotations

import json
import os
import subprocess
import sys
from concurrent.futures import ThreadPoolExecutor

VERIF = os.path.dirname(os.path.dirname(os.path.abspath(__file__)))
IDS = [f"C{i:02d}" for i in range(1, 21)]


def run_check(pid: str, repo: str):
    p = subprocess.run([os.path.join(VERIF, "check"), pid, "--tier", "quick", "--no-write", "--repo", repo],
                       capture_output=True, text=True)
    lines = [l for l in p.stdout.splitlines() if l.strip() and not l.startswith("WARNING conda")]
    hits = [l for l in lines if not l.startswith("[") and not l.startswith("VIOLATION")]
    return pid, p.returncode, hits


def evaluate(patch: str, repo: str = os.environ.get("REPO", "/repo")):   # REPO: a scratch worktree of the same commit
    dirty = subprocess.run(["git", "-C", repo, "status", "--porcelain", "--untracked-files=no"],
                           capture_output=True, text=True).stdout.strip()
    if dirty:
        raise SystemExit(f"{repo} has local modifications; refusing to apply a seeded change on top:\n{dirty}")
    subprocess.run(["git", "-C", repo, "apply", os.path.abspath(patch)], check=True)
    try:
        with ThreadPoolExecutor(10) as ex:
            res = list(ex.map(lambda i: run_check(i, repo), IDS))
    finally:
        subprocess.run(["git", "-C", repo, "checkout", "--", "."], check=True)
    return res


def main():
    patch = sys.argv[1]
    out = None
    if "--json" in sys.argv:
        out = sys.argv[sys.argv.index("--json") + 1]
    res = evaluate(patch)
    summary = {}
    for pid, rc, hits in res:
        if rc != 0:
            summary[pid] = {"rc": rc, "reports": hits[:8]}
            print(f"{pid} rc={rc}")
            for h in hits[:int(os.environ.get("SEED_EVAL_LINES", "4"))]:
                print("    " + h[:int(os.environ.get("SEED_EVAL_WIDTH", "260"))])
    if not summary:
        print("ALL SILENT")
    if out:
        with open(out, "w") as fh:
            json.dump(summary, fh, indent=1)


if __name__ == "__main__":
    main()
