"""C03 -- force bias (structural clauses)."""

from __future__ import annotations

from ..model import AnalysisError
from ..rules import batching, bind
from ..rules.match import m_arrcall, m_binop, m_method
from ..rules.siblings import swap_map
from ..rules.trialsib import HD, WD, Sib, key, nelec, restricted_default
from ..symex import (Evaluator, array_fn, call_parts, const, func_name, getitem, is_const, show,
                     strip_wrappers, subterms, sym)
from .c02 import FB, keys1

ID = "C03"
EXPLANATION = (
    "KEYS-1: ham_data keys read by each class's resolved force-bias routine (rot_chol, chol_b, ...) are "
    "written by its resolved measurement builder. BIND-2 (cotangent binding) in wave_function_auto: the "
    "reverse-mode force bias calls vjp on _overlap_with_rot_sd(_restricted) with the primal for the field "
    "coefficients equal to zeros(chol.shape[0]), selects cotangent index 0 -- the primal bound to the "
    "parameter that is contracted with the Cholesky vectors in the callee -- with unit cotangent, and divides "
    "by the primal value (logarithmic derivative). SIB-2: rhf's restricted and unrestricted force biases "
    "agree for equal spin blocks; the overlap ratio dividing the hand-coded cisd / ucisd force bias equals "
    "the ratio of their energy and overlap routines. SYM-1: uhf and ucisd force biases are invariant "
    "under a consistent exchange of spin labels; NOCI's up and down contributions are mirror images. "
    "NI-1: batched evaluation is a pure split/merge of the walker axis. "
    "BIND-2: the primal of the differentiated field coefficients is complex (a real primal makes "
    "reverse mode return Re dO/dx). SIB-2: the force bias equals the Coulomb trace(s) that enter the "
    "two-body energy of the same class (times 2 for the restricted RHF routines). SYM-1 mirror rule for "
    "_overlap_with_rot_sd. "
    "HOLO-1 on every _calc_force_bias*; CAP-1 (Cholesky-vector axis complete); SIB-2 (dependence form) "
    "for hand-written restricted force biases. "
    ' SIB-2 (dependence form): the force bias of a class reads each trial component its overlap reads. The function differentiated by vjp may be the overlap helper itself or a wrapper (lambda / partial / local def) that fixes some of its arguments: the cotangent index is resolved through the wrapper. '
)
NOT_DECIDED = "numerical equality of the three evaluation modes; signs and factors inside the hand-coded contractions where no second copy exists (ghf)."
TECHNIQUE = "static analysis: cotangent-index binding check, linear value numbering of sibling implementations, spin-exchange symmetry"


def run(ctx):
    p = ctx.p
    bind.bind3(ctx, "wavefunctions.wave_function", ["_calc_force_bias", "_calc_force_bias_restricted",
                                                    "calc_force_bias"])
    keys1(ctx, FB, "force bias")
    for fi in p.lookup_dispatch("wavefunctions.wave_function", "calc_force_bias"):
        batching.check_batched(ctx, fi, "wavefunctions.wave_function")
    restricted_default(ctx, "force_bias")
    s = Sib(ctx)
    s.auto_helper_mirrors(["_overlap_with_rot_sd"])
    s.force_bias_is_coulomb_trace()
    s.holomorphy(("_calc_force_bias",))
    s.restricted_consumes_trial_data("force_bias")
    s.cholesky_axis_complete(("_calc_force_bias",))
    s.estimator_sees_the_trial("force_bias")
    s.rhf_restricted_vs_unrestricted("force_bias")
    s.cisd_overlap_ratio()
    s.ucisd_overlap_ratio()
    s.noci_total_overlap()
    s.uhf_spin_symmetry("_calc_force_bias")
    s.ucisd_spin_symmetry("_calc_force_bias")
    noci_fb(ctx, s)
    cotangent(ctx)


def noci_fb(ctx, s: Sib):
    e = s.E("noci", "_calc_force_bias")
    r = strip_wrappers(e.result)
    m = m_binop(r, "+")
    ctx.ob("SYM-1", "noci._calc_force_bias: returns the sum of an up-spin and a down-spin contribution", m is not None,
           "a + b" if m is not None else f"returns {show(r, maxdepth=2)[:80]}", e.fi)
    if m is None:
        return

    def spin_of(t):
        """(spin index of rot_chol used, the Green's-function operand) of one contribution"""
        sp, g = None, None
        for x in subterms(t):
            if x.op == "call" and array_fn(x) == "einsum":
                allp = call_parts(x)[1]
                ops = allp[1:]
                spec = allp[0].args[0] if allp and allp[0].op == "const" and isinstance(allp[0].args[0], str) else ""
                subs = spec.replace(" ", "").split("->")[0].split(",")
                for i, o in enumerate(ops):
                    o = strip_wrappers(o)
                    if o.op == "getitem" and o.args[0] is key(HD, "rot_chol") and o.args[1].op == "const":
                        sp = o.args[1].args[0]
                        # the Green's functions: the other operand that carries the two orbital indices of rot_chol
                        mine = subs[i] if i < len(subs) else ""
                        gs = [strip_wrappers(y) for j, y in enumerate(ops) if j != i and j < len(subs)
                              and len(subs[j]) >= 2 and set(subs[j][-2:]) <= set(mine)]
                        g = gs[0] if len(gs) == 1 else None
        return sp, g

    (sa, ga), (sb, gb) = spin_of(m[0]), spin_of(m[1])
    if {sa, sb} != {0, 1} or ga is None or gb is None:
        ctx.ob("SYM-1", "noci._calc_force_bias: the down contribution mirrors the up contribution", False,
               f"contributions use rot_chol[{sa}] and rot_chol[{sb}]; Green's-function operands "
               f"{'found' if ga is not None and gb is not None else 'not identified'}", e.fi)
        return
    up, dn, ug, dg = (m[0], m[1], ga, gb) if sa == 0 else (m[1], m[0], gb, ga)
    to_dn = {key(HD, "rot_chol", 0): key(HD, "rot_chol", 1), ug: dg}
    s.cmp("SYM-1", "noci._calc_force_bias: the down contribution mirrors the up contribution", up, dn, e.fi,
          to_dn, hyp_b={}, frame=e.frame, what="rot_chol[0] -> rot_chol[1], up Green's functions -> down")


def cotangent(ctx):
    p = ctx.p
    n = 0
    for meth, helper in (("_calc_force_bias", "_overlap_with_rot_sd"),
                         ("_calc_force_bias_restricted", "_overlap_with_rot_sd_restricted")):
        fi = p.func(f"wavefunctions.wave_function_auto.{meth}")
        hf = p.func(f"wavefunctions.wave_function_auto.{helper}")
        ev = Evaluator(p)
        fr = ev.eval_function(fi)
        R = strip_wrappers(ev.result(fr))
        vj = [e.data for e in ev.events if e.kind == "call" and func_name(e.data) == "jax.vjp"]
        if len(vj) == 0:
            other = sorted({(func_name(e.data) or "").split(".")[-1] for e in ev.events if e.kind == "call" and
                            (func_name(e.data) or "") in ("jax.value_and_grad", "jax.grad", "jax.jacrev", "jax.jacfwd",
                                                           "jax.jvp", "jax.linearize")})
            if other:
                ctx.rep.note(f"wave_function_auto.{meth}: the derivative is taken with {other} rather than vjp; the vjp binding "
                             f"rules are not applied")
                continue
        if len(vj) != 1:
            ctx.ob("BIND-2", f"wave_function_auto.{meth}: one vjp call", False, f"{len(vj)} vjp calls", fi)
            continue
        n += 1
        _, pos, _ = call_parts(vj[0])
        f0 = pos[0]
        primals = list(pos[1:])
        hparams = [x.name for x in hf.params if x.name != "self"]
        # the differentiated function is the helper itself, or a wrapper (lambda / partial / local def) that fixes some
        # of the helper's arguments: either way every helper parameter receives a primal or a captured value, and the
        # cotangent index counts the primals
        full: dict = {}
        diff_index: dict = {}
        callee_ok = f0.op == "attr" and f0.args[1] == helper
        if callee_ok:
            for i, (h_, v_) in enumerate(zip(hparams, primals)):
                full[h_], diff_index[h_] = v_, i
            okn = len(primals) == len(hparams)
        elif f0.op == "closure":
            P = [sym(f"§primal{i}") for i in range(len(primals))]
            n0 = len(ev.events)
            try:
                ev.open_closure(f0, P, at_call=vj[0])
            except AnalysisError:
                pass
            for e_ in ev.events[n0:]:
                binding_ = None
                if e_.kind == "enter_call":
                    callee_, binding_ = e_.data
                    callee_ok = callee_.name == helper
                elif e_.kind == "call" and e_.data.op == "call" and e_.data.args[0].op == "attr":
                    from ..model import bind_call
                    f_, pos_, kws_ = call_parts(e_.data)
                    callee_ok = f_.args[1] == helper
                    ok_, _, mp_ = bind_call(hf, len(pos_), list(kws_), True)
                    binding_ = [(h_, pos_[m_[1]] if m_[0] == "pos" else kws_[m_[1]]) for h_, m_ in mp_.items()] if ok_ else []
                if binding_ is not None:
                    for h_, v_ in binding_:
                        if h_ == "self":
                            continue
                        hit = [i for i, q in enumerate(P) if q is v_]
                        if hit:
                            full[h_], diff_index[h_] = primals[hit[0]], hit[0]
                        else:
                            full[h_] = v_
                    break
            okn = all(h_ in full for h_ in hparams)
        else:
            okn = False
        ctx.ob("BIND-2", f"wave_function_auto.{meth}: differentiates {helper}", callee_ok,
               f"vjp of {show(f0, maxdepth=1)}", fi)
        ctx.ob("BIND-2", f"wave_function_auto.{meth}: primal count matches {helper}", okn,
               f"{len(primals)} primals for parameters {hparams}", fi)
        if not okn or not callee_ok:
            continue
        # which parameter of the helper is contracted with the Cholesky vectors?
        hev = Evaluator(p)
        hfr = hev.eval_function(hf)
        field_param = None
        for e in hev.events:
            if e.kind == "call" and array_fn(e.data) == "einsum":
                _, ep, _ = call_parts(e.data)
                if ep and ep[0].op == "const" and "->" in ep[0].args[0]:
                    ops = ep[1:]
                    has_chol = any(any(y is sym("chol") for y in subterms(o)) for o in ops)
                    vecs = [o for o in ops if o.op == "sym" and o.args[0] in hparams and o is not sym("chol")]
                    if has_chol and len(vecs) == 1:
                        field_param = vecs[0].args[0]
        if field_param is None:
            raise AnalysisError(f"{helper}: cannot identify the field-coefficient parameter")
        want = diff_index.get(field_param)
        if want is None:
            ctx.ob("BIND-2", f"wave_function_auto.{meth}: cotangent index selects the field coefficients", False,
                   f"the field coefficients (parameter '{field_param}') are not among the differentiated primals", fi)
            continue
        # result == grad(seed)[idx] / val
        m = m_binop(R, "/")
        ok_div = m is not None and strip_wrappers(m[1]) is getitem(vj[0], const(0))
        ctx.ob("BIND-2", f"wave_function_auto.{meth}: logarithmic derivative (divided by the primal value)",
               ok_div, "grad / val" if ok_div else "the cotangent is not divided by the overlap itself", fi)
        num = strip_wrappers(m[0]) if m is not None else R
        idx_ok, seed_ok = False, False
        if num.op == "getitem" and num.args[1].op == "const" and num.args[0].op == "call":
            gcall = num.args[0]
            idx = num.args[1].args[0]
            idx_ok = idx == want and gcall.args[0] is getitem(vj[0], const(1))
            _, gp, _ = call_parts(gcall)
            if len(gp) == 1:
                sd = strip_wrappers(gp[0])
                sm = m_binop(sd, "+")
                vals = []
                for x in ([sm[0], sm[1]] if sm is not None else [sd]):
                    x = strip_wrappers(x)
                    if x.op == "const":
                        vals.append(complex(x.args[0]))
                seed_ok = bool(vals) and sum(vals) == 1
            sel_ = [h_ for h_, i_ in diff_index.items() if i_ == idx]
            why = (f"cotangent index {idx} selects parameter '{sel_[0] if sel_ else '?'}'"
                   f"; the field coefficients are parameter '{field_param}' (index {want})")
        else:
            why = f"result numerator is {show(num, maxdepth=2)[:80]}"
        ctx.ob("BIND-2", f"wave_function_auto.{meth}: cotangent index selects the field coefficients", idx_ok,
               why, fi)
        ctx.ob("BIND-2", f"wave_function_auto.{meth}: unit cotangent", seed_ok, "seed 1.0 + 0.0j" if seed_ok
               else "cotangent seed is not 1", fi)
        # primal for the field coefficients: zeros(chol.shape[0])
        x0 = strip_wrappers(full[field_param])
        zs = [t for t in subterms(x0) if t.op == "call" and array_fn(t) in ("zeros", "zeros_like")]
        z_ok = False
        if len(zs) == 1:
            sm = m_binop(x0, "+")
            rest_zero = sm is None or any(strip_wrappers(a).op == "const" and complex(strip_wrappers(a).args[0]) == 0
                                          for a in sm)
            shp = call_parts(zs[0])[1][0] if call_parts(zs[0])[1] else None
            shp_s = show(shp, maxdepth=4) if shp is not None else ""
            z_ok = rest_zero and "chol" in shp_s and "shape[0]" in shp_s
        ctx.ob("BIND-2", f"wave_function_auto.{meth}: derivative taken at zero field, one coefficient per Cholesky vector",
               z_ok, f"x_gamma primal = {show(x0, maxdepth=3)[:80]}", fi)
        # reverse mode through a complex-valued overlap: a real primal makes jax project the cotangent on the real
        # axis (Re dO/dx instead of the holomorphic derivative), silently
        def dtype_class(t):
            """'complex' / 'real' / None (unknown) for the array a primal expression builds"""
            t = strip_wrappers(t)
            sm = m_binop(t, "+")
            if sm is not None:
                ks = [dtype_class(a) for a in sm]
                return "complex" if "complex" in ks else ("real" if all(k == "real" for k in ks) else None)
            if t.op == "const":
                return "complex" if isinstance(t.args[0], complex) else "real"
            if t.op == "call" and array_fn(t) in ("zeros", "ones", "zeros_like", "ones_like", "full", "empty"):
                _, pos_, kws_ = call_parts(t)
                dt = kws_.get("dtype")
                if dt is None:
                    if array_fn(t).endswith("_like") and pos_:
                        root = [y for y in subterms(pos_[0]) if y.op == "sym"]
                        return "real" if root and all(y.args[0] == "ham_data" for y in root) else None
                    return "real"
                dts = show(dt, maxdepth=4)
                if "complex" in dts:
                    return "complex"
                if "float" in dts or "int" in dts:
                    return "real"
                if dt.op == "attr" and dt.args[1] == "dtype":
                    root = [y for y in subterms(dt.args[0]) if y.op == "sym"]
                    if root and all(y.args[0] == "ham_data" for y in root):
                        return "real"      # the Hamiltonian arrays are real (FCIDUMP_chol is written real)
                    if root and all(y.args[0].startswith("walker") for y in root):
                        return "complex"   # as complex as the walker the overlap is a function of
                return None
            mm = m_method(t, "astype")
            if mm is not None and mm[1]:
                return "complex" if "complex" in show(mm[1][0], maxdepth=3) else None
            return None

        dc = dtype_class(x0)
        ctx.ob("BIND-2", f"wave_function_auto.{meth}: the differentiated field coefficients are a complex primal",
               dc != "real", f"primal {show(x0, maxdepth=3)[:70]} is {dc or 'of unknown dtype (not provably real)'}", fi)
        # the remaining primals are the walker(s), chol, wave_data in the helper's order
        rest_ok = True
        for k, (prm, a) in enumerate(zip(hparams, primals)):
            if k == want:
                continue
            a = strip_wrappers(a)
            if prm == "chol":
                rest_ok = rest_ok and a is key(HD, "chol")
            else:
                rest_ok = rest_ok and a is sym(prm)
        ctx.ob("BIND-2", f"wave_function_auto.{meth}: remaining primals bind in the helper's parameter order",
               rest_ok, f"primals {[show(a, maxdepth=1) for a in primals]} for {hparams}", fi)
        # helper: linear-order rotation  walker + (sum_g x_g L_g) walker
        hres = strip_wrappers(hev.result(hfr))
        lin_ok = hres.op == "call" and hres.args[0].op == "attr" and hres.args[0].args[1].startswith("_calc_overlap")
        ctx.ob("BIND-2", f"wave_function_auto.{helper}: returns the overlap of the rotated walker", lin_ok,
               show(hres, maxdepth=1)[:80], hf)
    if n < 2:
        # the derivative is taken with another entry point of the AD API (value_and_grad, grad, jacrev ...): the rules above
        # are written for the vjp form; not applied
        ctx.rep.note(f"wave_function_auto force bias: {n} of 2 vjp sites recognised; the cotangent / primal binding rules are "
                     f"not applied to the entry points written with another derivative API")
