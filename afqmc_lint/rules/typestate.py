"""TS -- overlap / Green's-function coherence typestate (property C08, shared by C05, C10).

For each sampler entry point and each concrete propagator class the resolved call
graph is inlined into one value graph (trial methods, the Trotter propagator, QR and
the reconfiguration combs stay primitive calls).  Every load of the cached overlap
(and of the cached Green's functions) is then judged symbolically:

  coherent(D, W)  -- "D is the trial overlap of walker container W" -- holds when
    R1  D == trial.calc_overlap(W', ..) with W' == W
    R2  (D, W) is an assumed / established fact (scan invariant, scan result)
    R4  D == where(m, D0, D1), W == [where(m, U0, U1), where(m, V0, V1)] and
        coherent(D0, [U0, V0]), coherent(D1, [U1, V1])          (slow CPMC select)
    R5  D == ratios * D', W == rows of W' scaled by the constants the ratios were
        computed for, G' coherent with W', ratios == where(mask, r0, r1) of the two
        calc_overlap_ratio_vmap results on G' with the same index pairs and the same
        mask that selected the constants                        (fast CPMC update)
  a load of D while the walkers are W_now is legitimate when coherent(D, W_now)
  (COH), or coherent(D, W_old) and W_now derives from W_old through propagation
  operations only -- no QR, no reconfiguration gather -- (LAG: the old overlap of
  an importance ratio inside a step).
lax.scan bodies are checked inductively (assume the invariant for the carry, prove it
for the body's result; otherwise the assumption is withdrawn and the reads inside are
judged without it).
"""

from __future__ import annotations

from typing import Dict, List, Optional, Set, Tuple

from ..model import AnalysisError, FuncInfo, Program
from ..symex import (T, Evaluator, Event, Frame, array_fn, call_parts, const, func_name, getitem,
                     is_const, match_scan, mk, show, strip_wrappers, subterms, sym, transparent)
from .match import (m_binop, m_method, m_where, peel_guards, product_factors, strip_real,
                    strip_reshape, contains_term)

REP_SEEDS = {
    "jax.numpy.linalg.qr", "numpy.linalg.qr", "jax.numpy.searchsorted", "numpy.searchsorted",
    "jax.scipy.linalg.qr", "scipy.linalg.qr",
}


def rep_change_functions(p: Program) -> Set[str]:
    """Functions that (transitively) re-orthonormalise or gather walkers."""
    from .bind import package_walk

    w = package_walk(p)
    mentions: Dict[str, Set[str]] = {}
    for e, fi in w.sites:
        if fi is None:
            continue
        s = mentions.setdefault(fi.qualname, set())
        for x in subterms(e.data):
            if x.op == "name":
                s.add(x.args[0])
            elif x.op == "fn":
                s.add(x.args[0])
        f = e.data.args[0]
        cands = w.ev.resolve_callees(f, e.frame)
        for c, _ in cands or []:
            s.add(c.qualname)
    rep = {q for q, s in mentions.items() if s & REP_SEEDS}
    changed = True
    while changed:
        changed = False
        for q, s in mentions.items():
            if q not in rep and s & rep:
                rep.add(q)
                changed = True
    return rep


class TSRun:
    """One inlined evaluation of `entry` with the propagator parameter bound exactly
    to class `prop_cls`."""

    def __init__(self, p: Program, entry: FuncInfo, prop_cls: str, rep: Set[str]):
        self.p = p
        self.entry = entry
        self.prop_cls = prop_cls
        self.rep = rep
        ev = Evaluator(p)
        ev.open_transforms = True
        ev.emit_loads = True
        self.ev = ev
        # which parameter is the propagator / the prop_data dict?  by annotation / by flow
        mod = p.modules[entry.module]
        self.prop_param = None
        for prm in entry.params:
            c = p.annotation_class(mod, prm.annotation)
            if c is not None and "propagation.propagator" in p.classes[c].mro:
                self.prop_param = prm.name
        if self.prop_param is None:
            raise AnalysisError(f"{entry.qualname}: no propagator-typed parameter")
        ev.exact_types[sym(self.prop_param)] = prop_cls
        self.pd_roots: Set[T] = set()
        for prm in entry.params:
            if prm.annotation is not None and getattr(prm.annotation, "id", None) == "dict" and \
                    prm.name.startswith("prop"):
                self.pd_roots.add(sym(prm.name))
        ev.inline_policy = self._policy
        self.frame = ev.eval_function(entry)
        self.events = ev.events

    def root_of(self, t: T) -> Optional[T]:
        for _ in range(500):
            if t in self.pd_roots:
                return t
            if t.op == "setitem":
                t = t.args[0]
            elif t.op in ("scan_carry",):
                t = t.args[0]
            elif t.op == "getitem" and t.args[0].op == "call" and match_scan(t.args[0]) is not None \
                    and is_const(t.args[1], 0):
                t = match_scan(t.args[0])[1]
            elif t.op == "phi":
                t = t.args[1]
            else:
                return None
        return None

    def _policy(self, callee: FuncInfo, recv_cls, fr) -> bool:
        # decided at the call site by apply(); we only get the callee here, so inline every
        # sampler / propagator method and module function that is not a rep-change primitive
        # and takes a dict-like walker-state parameter (checked by annotation or name flow).
        from ..symex import walker_state_glue
        return walker_state_glue(callee)


def assume_loops_ran(t: T) -> T:
    """t with every phi(n > 0 ? <loop over n> : <before>) replaced by the arm in which the loop ran (see
    Judge._taken_arm): the reading of a block function under the standing assumption of at least one step"""
    from ..symex import subterms as _sub, substitute as _subst
    m = {}
    for x in _sub(t):
        if x.op == "phi":
            y = Judge._taken_arm(x)
            if y is not x:
                m[x] = y
    return _subst(t, m) if m else t


class Judge:
    def __init__(self, run: TSRun):
        self.run = run
        self.ev = run.ev
        self.facts: Set[Tuple[int, int]] = set()   # (ov uid, walkers uid)
        self.gfacts: Set[Tuple[int, int]] = set()  # (greens uid, walkers uid)
        self.trace: List[str] = []
        self.scan_bodies: Dict[int, Tuple[T, T, T]] = {}   # scan call uid -> (scan call, carry term, body result)
        self._slot_busy: Set[Tuple[int, int]] = set()

    # ----------------------------------------------------------- helpers
    @staticmethod
    def _scan_slot(x: T):
        """x == scan(...)[0][k] for a literal k -> (scan call, k)"""
        x = strip_wrappers(x)
        if x.op == "getitem" and x.args[1].op == "const" and isinstance(x.args[1].args[0], int) and \
                not isinstance(x.args[1].args[0], bool):
            b = x.args[0]
            if b.op == "getitem" and is_const(b.args[1], 0) and b.args[0].op == "call" and match_scan(b.args[0]) is not None:
                return b.args[0], x.args[1].args[0]
        return None

    def _slot_induction(self, D: T, W: T, depth: int) -> bool:
        """R6: D and the two components of W are slots k, i0, i1 of the final carry of one scan whose carry is a plain
        tuple / record (not the walker-state dict): the relation holds after the scan when it holds for the initial
        carry and the body re-establishes it from the assumption on the incoming carry."""
        sd = self._scan_slot(D)
        if sd is None or sd[0].uid not in self.scan_bodies:
            return False
        t, k = sd
        comps = [self._scan_slot(getitem(W, const(i))) for i in (0, 1)]
        if any(c is None or c[0] is not t for c in comps):
            return False
        i0, i1 = comps[0][1], comps[1][1]
        key_ = (t.uid, k)
        if key_ in self._slot_busy:
            return False
        self._slot_busy.add(key_)
        try:
            _, C, body_res = self.scan_bodies[t.uid]
            init = match_scan(t)[1]
            slots = lambda X: (getitem(X, const(k)), mk("list", getitem(X, const(i0)), getitem(X, const(i1))))
            d_i, w_i = slots(init)
            if not self.coherent(d_i, w_i, depth + 1):
                return False
            snap = self.snapshot()
            try:
                self._ft.append(slots(C))
                d_e, w_e = slots(getitem(body_res, const(0)))
                return self.coherent(d_e, w_e, depth + 1)
            finally:
                self.restore(snap)
        finally:
            self._slot_busy.discard(key_)

    @staticmethod
    def W_eq(a: T, b: T) -> bool:
        if a is b:
            return True
        a, b = strip_wrappers(a), strip_wrappers(b)
        if a is b:
            return True
        if a.op in ("list", "setitem", "tuple") or b.op in ("list", "setitem", "tuple"):
            pa = (getitem(a, const(0)), getitem(a, const(1)))
            pb = (getitem(b, const(0)), getitem(b, const(1)))
            return pa[0] is pb[0] and pa[1] is pb[1]
        return False

    def is_rep_call(self, t: T) -> bool:
        if t.op != "call":
            return False
        fn = func_name(t)
        if fn in REP_SEEDS:
            return True
        f = t.args[0]
        if f.op == "fn" and f.args[0] in self.run.rep:
            return True
        if f.op == "call":  # vmap(qr)(x)
            return any(x.op == "name" and x.args[0] in REP_SEEDS for x in subterms(f))
        if f.op == "attr":
            cands = self.ev.resolve_callees(f, None)
            for c, _ in cands or []:
                if c.qualname in self.run.rep:
                    return True
        return False

    def derives(self, w_now: T, w_old: T) -> bool:
        """w_now is computed from w_old through propagation operations only."""
        if self.W_eq(w_now, w_old):
            return True
        olds = {w_old.uid}
        for i in (0, 1):
            g = getitem(w_old, const(i))
            olds.add(g.uid)
        seen = set()
        stack = [w_now]
        found = False
        while stack:
            x = stack.pop()
            if x.uid in seen:
                continue
            seen.add(x.uid)
            if x.uid in olds:
                found = True
                continue
            if self.is_rep_call(x):
                continue  # do not look through QR / reconfiguration
            if x.op == "call" and x.args[0].op == "attr" and x.args[0].args[1] in (
                    "calc_overlap", "calc_energy", "calc_force_bias"):
                continue
            for a in x.args:
                if isinstance(a, T):
                    stack.append(a)
        if not found:
            return False
        # additionally no rep-change call may sit between: check that every path from w_now
        # to w_old avoids rep calls == there is no rep call among the walker-carrying spine.
        return not self._rep_on_spine(w_now, olds)

    def _rep_on_spine(self, t: T, olds: Set[int], memo=None) -> bool:
        """True if some path from t down to an old-walker term crosses a rep-change call."""
        reach: Dict[int, bool] = {}

        def reaches(x: T) -> bool:
            if x.uid in reach:
                return reach[x.uid]
            reach[x.uid] = False
            r = x.uid in olds or any(reaches(a) for a in x.args if isinstance(a, T))
            reach[x.uid] = r
            return r

        bad: Dict[int, bool] = {}

        def crosses(x: T) -> bool:
            if x.uid in bad:
                return bad[x.uid]
            bad[x.uid] = False
            if x.uid in olds:
                return False
            r = False
            if self.is_rep_call(x) and reaches(x):
                r = True
            else:
                r = any(crosses(a) for a in x.args if isinstance(a, T) and reaches(a))
            bad[x.uid] = r
            return r

        return crosses(t)

    # --------------------------------------------------------- judgement
    @staticmethod
    def _taken_arm(t: T) -> T:
        """phi(n > 0 ? <result of a loop over n steps> : <state before>): the loop guarded against a zero trip count.
        Scans are judged under the assumption of at least one iteration (what they establish, they establish); the same
        assumption selects the arm in which the loop ran."""
        from ..symex import subterms as _sub
        for _ in range(4):
            if t.op == "phi" and len(t.args) == 3 and isinstance(t.args[0], T):
                c = t.args[0]
                n_ = None
                if c.op == "cmp" and len(c.args) == 3:
                    op_, a_, b_ = c.args
                    if op_ == ">" and b_.op == "const" and b_.args[0] == 0:
                        n_ = a_
                    elif op_ == ">=" and b_.op == "const" and b_.args[0] == 1:
                        n_ = a_
                if n_ is not None and any(x.op == "call" and match_scan(x) is not None and any(y is n_ for y in _sub(x))
                                          for x in _sub(t.args[1])):
                    t = t.args[1]
                    continue
            break
        return t

    def coherent(self, D: T, W: T, depth: int = 0) -> bool:
        if depth > 40:
            return False
        D = strip_wrappers(self._taken_arm(strip_wrappers(D)))
        W = self._taken_arm(W)
        if (D.uid, W.uid) in self.facts:
            return True
        for (du, wu) in self.facts:
            if du == D.uid:
                # same overlap value, walkers equal up to container form
                pass
        # R2 with container normalisation
        for fd, fw in self._fact_terms:
            if fd is D and self.W_eq(fw, W):
                return True
        # R1
        if D.op == "call" and D.args[0].op == "attr" and D.args[0].args[1] == "calc_overlap":
            _, pos, _ = call_parts(D)
            if pos and self.W_eq(pos[0], W):
                return True
        # R4 where-select
        w = m_where(D)
        if w is not None:
            m, d0, d1 = w
            comps0, comps1 = [], []
            ok = True
            for i in (0, 1):
                c = strip_wrappers(getitem(W, const(i)))
                wc = m_where(c)
                if wc is not None and strip_reshape(wc[0]) is strip_reshape(m):
                    comps0.append(wc[1])
                    comps1.append(wc[2])
                else:
                    comps0.append(c)
                    comps1.append(c)
            if ok:
                W0 = mk("list", *comps0)
                W1 = mk("list", *comps1)
                if self.coherent(d0, W0, depth + 1) and self.coherent(d1, W1, depth + 1):
                    return True
        # R5 incremental update
        mm = m_binop(D, "*")
        if mm is not None:
            for ratios, dprev in ((mm[0], mm[1]), (mm[1], mm[0])):
                r = self._peel_fast_block(ratios, W)
                if r is None:
                    continue
                w_prev, g_prev = r
                if self.coherent(dprev, w_prev, depth + 1) and self.gcoherent(g_prev, w_prev, depth + 1):
                    return True
        # R6 slots of a scan over a plain tuple / record carry
        if self._slot_induction(D, W, depth):
            return True
        return False

    def fcoherent(self, D: T, W: T, N: T) -> bool:
        """Free projection: D == trial.calc_overlap(W) * norms with the dict's own norms N."""
        D = strip_wrappers(self._taken_arm(strip_wrappers(D)))
        W, N = self._taken_arm(W), self._taken_arm(N)
        for fd, fw, fn in self._fft:
            if fd is D and self.W_eq(fw, W) and fn is N:
                return True
        mm = m_binop(D, "*")
        if mm is not None:
            for a, b in ((mm[0], mm[1]), (mm[1], mm[0])):
                if b is N and self.coherent(a, W):
                    return True
        return False

    def gcoherent(self, G: T, W: T, depth: int = 0) -> bool:
        if depth > 40:
            return False
        G = strip_wrappers(self._taken_arm(strip_wrappers(G)))
        W = self._taken_arm(W)
        for fg, fw in self._gfact_terms:
            if fg is G and self.W_eq(fw, W):
                return True
        if G.op == "call" and G.args[0].op == "attr":
            meth = G.args[0].args[1]
            _, pos, _ = call_parts(G)
            if meth == "calc_full_green_vmap" and pos and self.W_eq(pos[0], W):
                return True
            if meth == "update_greens_function_vmap" and len(pos) == 4:
                g_prev, ratios, idx, uconst = pos
                r = self._peel_fast_block(ratios, W, want_idx=idx, want_uconst=uconst)
                if r is not None:
                    w_prev, g_prev2 = r
                    if g_prev2 is strip_wrappers(g_prev) and self.gcoherent(g_prev, w_prev, depth + 1):
                        return True
        return False

    def _peel_fast_block(self, ratios: T, W: T, want_idx: Optional[T] = None,
                         want_uconst: Optional[T] = None):
        """ratios == where(mask, guard(ratio_vmap(G, idx, h0-1)), guard(ratio_vmap(G, idx, h1-1)));
        W == W_prev with rows idx scaled by constants == where(mask', h0, h1).
        Returns (W_prev, G) or None."""
        w = m_where(ratios)
        if w is None:
            return None
        mask, r0, r1 = w
        calls = []
        for r in (r0, r1):
            guards, core = peel_guards(r)
            core = strip_real(core)
            if not (core.op == "call" and core.args[0].op == "attr" and
                    core.args[0].args[1] == "calc_overlap_ratio_vmap"):
                return None
            _, pos, _ = call_parts(core)
            if len(pos) != 3:
                return None
            calls.append(pos)
        (g0, idx0, c0), (g1, idx1, c1) = calls
        if g0 is not g1 or idx0 is not idx1:
            return None
        if want_idx is not None and want_idx is not idx0:
            return None
        h = []
        for c in (c0, c1):
            mb = m_binop(c, "-")
            if mb is None or not is_const(mb[1], 1):
                return None
            h.append(mb[0])
        pairs = _index_pairs(idx0)
        if pairs is None:
            return None
        # locate the constants through the scaled walkers
        comps = [strip_wrappers(getitem(W, const(0))), strip_wrappers(getitem(W, const(1)))]
        prev = list(comps)
        constants_term = None
        for j, (spin, row) in enumerate(pairs):
            if not (spin.op == "const" and spin.args[0] in (0, 1)):
                return None
            k = spin.args[0]
            found = _peel_row_scale(prev[k], row, j)
            if found is None:
                return None
            prev[k], cterm = found
            if constants_term is None:
                constants_term = cterm
            elif constants_term is not cterm:
                return None
        cw = m_where(constants_term) if constants_term is not None else None
        if cw is None:
            return None
        cmask, ch0, ch1 = cw
        if strip_reshape(cmask) is not strip_reshape(mask):
            return None
        if ch0 is not h[0] or ch1 is not h[1]:
            return None
        if want_uconst is not None:
            mb = m_binop(want_uconst, "-")
            if mb is None or mb[0] is not constants_term or not is_const(mb[1], 1):
                return None
        return mk("list", *prev), strip_wrappers(g0)

    # ------------------------------------------------------------ facts
    @property
    def _fact_terms(self):
        return self._ft

    @property
    def _gfact_terms(self):
        return self._gt

    def reset(self):
        self._ft: List[Tuple[T, T]] = []
        self._gt: List[Tuple[T, T]] = []
        self._fft: List[Tuple[T, T, T]] = []

    def assume(self, X: T, kinds):
        if kinds.get("ov"):
            self._ft.append((getitem(X, const("overlaps")), getitem(X, const("walkers"))))
        if kinds.get("g"):
            self._gt.append((getitem(X, const("greens")), getitem(X, const("walkers"))))
        if kinds.get("f"):
            self._fft.append((getitem(X, const("overlaps")), getitem(X, const("walkers")),
                              getitem(X, const("norms"))))

    def add_fact(self, X: T):
        self._ft.append((getitem(X, const("overlaps")), getitem(X, const("walkers"))))
        self._gt.append((getitem(X, const("greens")), getitem(X, const("walkers"))))

    def snapshot(self):
        return (list(self._ft), list(self._gt), list(self._fft))

    def restore(self, s):
        self._ft, self._gt, self._fft = list(s[0]), list(s[1]), list(s[2])


def _index_pairs(idx: T) -> Optional[List[Tuple[T, T]]]:
    """jnp.array([[s0, r0], [s1, r1]]) -> [(s0, r0), (s1, r1)]"""
    idx = strip_wrappers(idx)
    if idx.op != "list" or len(idx.args) != 2:
        return None
    out = []
    for row in idx.args:
        if row.op != "list" or len(row.args) != 2:
            return None
        out.append((row.args[0], row.args[1]))
    return out


def _peel_row_scale(comp: T, row: T, col: int, _depth: int = 0):
    """comp == X.at[:, row, :].mul(constants[:, col].reshape(-1, 1)) possibly underneath another
    row-scale layer of the same block.  Returns (X with this layer removed, constants term)."""
    if _depth > 3:
        return None
    m = m_method(comp, "mul")
    if m is None:
        return None
    target, args = m
    if len(args) != 1:
        return None
    if not (target.op == "getitem" and target.args[0].op == "attr" and target.args[0].args[1] == "at"):
        return None
    base = target.args[0].args[0]
    sl = target.args[1]
    this_row = None
    if sl.op == "tuple" and len(sl.args) == 3 and sl.args[0].op == "slice" and sl.args[2].op == "slice":
        this_row = sl.args[1]
    factor = strip_reshape(args[0])
    this_col = None
    cterm = None
    if factor.op == "getitem" and factor.args[1].op == "tuple" and len(factor.args[1].args) == 2 and \
            factor.args[1].args[0].op == "slice" and factor.args[1].args[1].op == "const":
        this_col = factor.args[1].args[1].args[0]
        cterm = factor.args[0]
    if this_row is row and this_col == col and cterm is not None:
        return base, cterm
    # maybe this layer belongs to the other index of the same block: look underneath
    inner = _peel_row_scale(base, row, col, _depth + 1)
    if inner is None:
        return None
    new_base, c2 = inner
    # rebuild this layer on top of new_base
    rebuilt = mk("call", mk("attr", getitem(mk("attr", new_base, "at"), sl), "mul"), *comp.args[1:])
    return rebuilt, c2


# ---------------------------------------------------------------------------


class TSResult:
    def __init__(self):
        self.reads: List[Tuple[Event, str, bool, str]] = []  # (event, key, ok, why)
        self.invariants: List[Tuple[int, bool, str]] = []
        self.exit_coherent: Optional[bool] = None


def analyse_run(run: TSRun, keys=("overlaps", "greens"), entry_coherent: bool = False) -> TSResult:
    j = Judge(run)
    j.reset()
    res = TSResult()
    ev = run.events
    if entry_coherent:
        for r in run.pd_roots:
            j.add_fact(r)
    # match scan_enter / scan_exit
    match: Dict[int, int] = {}
    stack = []
    for i, e in enumerate(ev):
        if e.kind == "scan_enter":
            stack.append(i)
        elif e.kind == "scan_exit":
            match[stack.pop()] = i

    def is_pd(X: T) -> bool:
        return run.root_of(X) is not None

    def judge_dict(X: T) -> Dict[str, bool]:
        w_ = getitem(X, const("walkers"))
        return {
            "ov": j.coherent(getitem(X, const("overlaps")), w_),
            "g": j.gcoherent(getitem(X, const("greens")), w_),
            "f": j.fcoherent(getitem(X, const("overlaps")), w_, getitem(X, const("norms"))),
        }

    def run_block(i0: int, i1: int, report: bool):
        i = i0
        while i < i1:
            e = ev[i]
            if e.kind == "scan_enter" and i in match:
                jx = match[i]
                t = e.data
                sc = match_scan(t)
                init = sc[1]
                if not is_pd(init):
                    j.scan_bodies[t.uid] = (t, mk("scan_carry", init, t.uid), ev[jx].data[1])
                    run_block(i + 1, jx, report)
                    i = jx + 1
                    continue
                C = mk("scan_carry", init, t.uid)
                body_res = ev[jx].data[1]
                Cexit = getitem(body_res, const(0))
                snap = j.snapshot()
                keep = judge_dict(init)
                # greatest fixed point: withdraw assumptions the body does not re-establish
                for _round in range(4):
                    j.restore(snap)
                    j.assume(C, keep)
                    run_block(i + 1, jx, False)
                    ex = judge_dict(Cexit)
                    new_keep = {k: keep[k] and ex[k] for k in keep}
                    if new_keep == keep:
                        break
                    keep = new_keep
                # facts the body establishes whatever it was entered with (trip count >= 1)
                j.restore(snap)
                j.assume(C, {k: v for k, v in keep.items()})
                uncond = judge_dict(Cexit)
                j.restore(snap)
                uncond0 = judge_dict(Cexit)
                if report:
                    res.invariants.append((e.line, dict(keep), e.frame.label))
                j.restore(snap)
                j.assume(C, keep)
                run_block(i + 1, jx, report)
                R = getitem(t, const(0))
                j.restore(snap)
                j.assume(R, {k: keep[k] or uncond0[k] for k in keep})
                i = jx + 1
                continue
            if e.kind == "load":
                base, key, val = e.data
                if is_pd(base):
                    wn = getitem(base, const("walkers"))
                    if not history or history[-1] is not wn:
                        history.append(wn)
            if e.kind == "load" and report:
                base, key, val = e.data
                if key in keys and is_pd(base):
                    w_now = getitem(base, const("walkers"))
                    if key == "overlaps":
                        ok = j.coherent(val, w_now)
                        why = "COH"
                        if not ok and j.fcoherent(val, w_now, getitem(base, const("norms"))):
                            ok, why = True, "COH-free (overlap x accumulated norms)"
                        if not ok:
                            # LAG: some fact / provable walker container the value is coherent with
                            ok, why = lag(val, w_now)
                    else:
                        ok = j.gcoherent(val, w_now)
                        why = "COH"
                        if not ok:
                            ok, why = glag(val, w_now)
                    res.reads.append((e, key, ok, why))
            i += 1

    history: List[T] = []

    def candidates_old(w_now: T) -> List[T]:
        """walker containers the current one may derive from: walkers of facts, earlier
        values of the walker slot, and walker subterms that are dict loads."""
        out = list(reversed(history[-12:]))
        for fact in j._ft + j._gt + j._fft:
            out.append(fact[1])
        for x in subterms(w_now):
            if x.op == "getitem" and x.args[1].op == "const" and x.args[1].args[0] == "walkers":
                out.append(x)
            if x.op in ("list",) and len(x.args) == 2:
                out.append(x)
        return out

    def lag(val: T, w_now: T):
        for w_old in candidates_old(w_now):
            if j.coherent(val, w_old) and j.derives(w_now, w_old):
                return True, "LAG"
        # the value is itself a recomputation calc_overlap(W_old)
        v = strip_wrappers(val)
        if v.op == "call" and v.args[0].op == "attr" and v.args[0].args[1] == "calc_overlap":
            w_old = call_parts(v)[1][0]
            if j.derives(w_now, w_old):
                return True, "LAG"
        return False, "STALE"

    def glag(val: T, w_now: T):
        for w_old in candidates_old(w_now):
            if j.gcoherent(val, w_old) and j.derives(w_now, w_old):
                return True, "LAG"
        v = strip_wrappers(val)
        if v.op == "call" and v.args[0].op == "attr" and v.args[0].args[1] == "calc_full_green_vmap":
            w_old = call_parts(v)[1][0]
            if j.derives(w_now, w_old):
                return True, "LAG"
        return False, "STALE"

    run_block(0, len(ev), True)
    # exit coherence of the returned prop_data (informational)
    return res
