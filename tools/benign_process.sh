#!/bin/bash
# usage: tools/benign_process.sh C07 [dir=/tmp/benign]
id=$1; root=${2:-/tmp/benign}
out=$root/$id.out
for k in 1 2 3 4 5; do
  [ -f $out/patch$k.diff ] || continue
  /verif/tools/benign_confirm.sh $out/patch$k.diff $out/demo$k.py ${id}_$k > $out/confirm$k.txt 2>&1 &
done
for k in 1 2 3 4 5; do
  [ -f $out/patch$k.diff ] || continue
  echo "=== $id-$k: $(python3 -c "import json;print(json.load(open('$out/meta$k.json')).get('summary','')[:200])" 2>/dev/null)"
  SEED_EVAL_LINES=2 SEED_EVAL_WIDTH=300 /venv/bin/python /verif/tools/seed_eval.py $out/patch$k.diff --json $out/eval$k.json 2>&1 | grep -v "WARNING conda"
done
wait
cat $out/confirm*.txt | grep -v "WARNING conda"
