"""C14 -- walkers evolve independently; batching and storage format change nothing."""

from __future__ import annotations

import ast
import re
from typing import Dict, List, Optional, Set

from ..model import AnalysisError
from ..rules import batching, guard as G, keys
from ..rules.gvn import GVN, TooBig, f_key
from ..rules.match import m_arrcall, m_binop
from ..symex import (Evaluator, array_fn, call_parts, const, func_name, getitem, is_const, match_vmap,
                     mk, show, strip_wrappers, subterms, sym)

ID = "C14"
EXPLANATION = (
    "NI-1 (dispatch layer): each of the six batched measurement routines and both _apply_trotprop "
    "variants splits every per-walker array as (n_batch, n_walkers // n_batch, ...), scans over batches "
    "with an untouched carry, vmaps exactly the per-walker arguments over axis 0 (shared data None) and "
    "merges with reshape(n_walkers, ...); no reversal, roll, sort or gather touches the walker axis. NI-1 "
    "(step functions): in every propagator's resolved propagate / propagate_free no reduction, "
    "cumulative operation, sort, reversal or einsum contraction spans the walker axis of per-walker data, "
    "except the plain sum of the weights inside the population-control shift (a symmetric function). "
    "The *_vmap methods of the CPMC trials map exactly the arguments documented as '(mapped over)'. "
    "SIB-2: the restricted and unrestricted propagation builders agree on the live keys mf_shifts, "
    "h0_prop and exp_h1[s] under h1[0] == h1[1] (linear value numbering); dead keys (mf_shifts_fp, "
    "h0_prop_fp of the restricted class, whose propagate_free is an explicit refusal) are excluded. "
    "PRNG-1: the restricted and the unrestricted local reconfiguration consume the key identically (new "
    "key stored back, subkey drawn from). "
    " KEYS-4: a trial builder that rewrites ham_data['h1'] (symmetrisation) computes what it stores next to it (rot_h1 ...) from the h1 it stores, not from the incoming one. "
    ' PAIR-1 (half rotation): in the rhf / uhf builders the matrix applied to h1 for rot_h1 and the one applied to the Cholesky vectors for rot_chol do not differ by a complex conjugation (frozen exception: noci, real determinants). '
)
NOT_DECIDED = "equality of restricted and unrestricted trajectories and energies (numerical)."
TECHNIQUE = "static analysis: batching shape rule, walker-axis mixing query over def-use terms, linear value numbering of the two builders"

MIXERS = {"sum", "cumsum", "cumprod", "max", "min", "mean", "sort", "argsort", "roll", "flip", "median",
          "prod", "amax", "amin", "argmax", "argmin", "average", "std", "var", "linalg.norm", "nansum",
          "count_nonzero", "searchsorted", "fliplr", "flipud", "trace", "dot", "vdot"}
PER_WALKER_KEYS = {"weights", "overlaps", "walkers", "greens", "norms", "normed_overlaps"}


def run(ctx):
    p = ctx.p
    n = 0
    for name in ("calc_overlap", "calc_force_bias", "calc_energy"):
        impls = p.lookup_dispatch("wavefunctions.wave_function", name)
        if len(impls) != 2:
            raise AnalysisError(f"wave_function.{name}: expected 2 registered implementations")
        for fi in impls:
            n += batching.check_batched(ctx, fi, "wavefunctions.wave_function")
    for P in ("propagation.propagator_restricted", "propagation.propagator_unrestricted"):
        n += batching.check_batched(ctx, p.lookup_method(P, "_apply_trotprop"), P)
    if n < 40:
        raise AnalysisError("NI-1 (dispatch layer) matched fewer than 40 obligations")
    step_mixing(ctx)
    vmap_docs(ctx)
    builder_agreement(ctx)
    key_handling(ctx)
    stored_h1_is_the_one_used(ctx)
    same_half_rotation(ctx)


def stored_h1_is_the_one_used(ctx):
    """KEYS-4.  A trial's _build_measurement_intermediates that replaces ham_data['h1'] (symmetrisation) and also stores
    quantities computed from the one-body integrals (rot_h1 ...) must compute them from the h1 it stores: the energy mixes
    rot_h1 with terms that read ham_data['h1'] afterwards, and the other walker representation (unrestricted trial, whose
    builder symmetrises first) is compared with it.  Positive witness: a stored value still depends on the *incoming* h1
    after every occurrence of the stored h1 (whole or per spin block) has been taken out."""
    from ..symex import substitute, subterms, strip_wrappers
    p = ctx.p
    hd = sym("ham_data")
    h_in = getitem(hd, const("h1"))
    seen = set()
    for cq in p.subclasses("wavefunctions.wave_function", include_self=False):
        fi = p.lookup_method(cq, "_build_measurement_intermediates")
        if fi is None or fi.node is None or fi.qualname in seen or fi.is_abstract:
            continue
        seen.add(fi.qualname)
        ev = Evaluator(p)
        try:
            R = ev.result(ev.eval_function(fi, self_class=cq))
        except Exception:  # noqa
            continue
        if R is None:
            continue
        h_out = strip_wrappers(getitem(R, const("h1")))
        if h_out is h_in or (h_out.op == "getitem" and h_out.args[0] is R):
            continue                      # h1 is not rewritten by this builder
        marks = {h_out: sym("__stored_h1__")}
        for s_ in (0, 1):
            c_ = strip_wrappers(getitem(h_out, const(s_)))
            if c_ is not strip_wrappers(getitem(h_in, const(s_))):
                marks[c_] = sym(f"__stored_h1_{s_}__")
        ks = ctx_keys_written(R, hd)
        bad = []
        for k in ks:
            if k == "h1":
                continue
            v = getitem(R, const(k))
            if v.op == "getitem" and v.args[0] is R:
                continue
            v2 = substitute(v, marks)
            uses_stored = v2 is not v
            if any(x is h_in for x in subterms(v2)) and any(x is h_in for x in subterms(v)):
                # reads the incoming integrals outside the stored ones
                bad.append((k, uses_stored))
        if not ks:
            continue
        ctx.ob("KEYS-4", f"{fi.qualname}: what it stores next to the rewritten h1 is computed from that h1", not bad,
               "; ".join(f"'{k}' reads the incoming ham_data['h1'], not the one stored" for k, _ in bad[:3]) or
               f"keys {sorted(ks)} read h1 only through the stored value", fi)


def same_half_rotation(ctx):
    """PAIR-1 (half rotation).  rot_h1 = A h1 and rot_chol[g] = A L_g are the same one-sided rotation of two operators: the
    energy adds a one-body term built from the first to two-body terms built from the second, and the restricted /
    unrestricted siblings are compared term by term.  Positive witness: for one spin block the matrix applied to h1 and
    the one applied to the Cholesky vectors are built from the same orbitals and differ by a complex conjugation (one is
    C^dagger, the other C^T).  Frozen exception: noci, whose determinants are documented as real (both spellings coincide)."""
    from ..symex import strip_wrappers, subterms, array_fn, call_parts
    p = ctx.p
    hd = sym("ham_data")
    seen = set()

    def unconj(t):
        """(term without conjugations, number of conjugations removed mod 2)"""
        t = strip_wrappers(t)
        n = 0
        for _ in range(8):
            if t.op == "call" and t.args[0].op == "attr" and t.args[0].args[1] in ("conj", "conjugate") and len(t.args) == 1:
                t, n = strip_wrappers(t.args[0].args[0]), n + 1
            elif t.op == "call" and (array_fn(t) or "") in ("conj", "conjugate") and len(call_parts(t)[1]) == 1:
                t, n = strip_wrappers(call_parts(t)[1][0]), n + 1
            elif t.op == "attr" and t.args[1] == "T":
                inner, k = unconj(t.args[0])
                return (simplify_T(inner), (n + k) % 2)
            else:
                break
        return t, n % 2

    def simplify_T(x):
        from ..symex import mk
        return mk("attr", x, "T")

    for cq in p.subclasses("wavefunctions.wave_function", include_self=False):
        fi = p.lookup_method(cq, "_build_measurement_intermediates")
        if fi is None or fi.node is None or fi.qualname in seen or fi.is_abstract:
            continue
        seen.add(fi.qualname)
        if cq.split(".")[-1] == "noci":
            continue
        ev = Evaluator(p)
        ev.inline_policy = lambda callee, rc, fr_: callee.module == "wavefunctions"
        try:
            R = ev.result(ev.eval_function(fi, self_class=cq))
        except Exception:  # noqa
            continue
        if R is None:
            continue
        rh, rc = strip_wrappers(getitem(R, const("rot_h1"))), strip_wrappers(getitem(R, const("rot_chol")))
        if (rh.op == "getitem" and rh.args[0] is R) or (rc.op == "getitem" and rc.args[0] is R):
            continue
        pairs = []
        blocks = [(getitem(rh, const(s_)), getitem(rc, const(s_))) for s_ in (0, 1)] if rh.op in ("list", "tuple") else [(rh, rc)]
        for a, b in blocks:
            a, b = strip_wrappers(a), strip_wrappers(b)
            la = a.args[1] if a.op == "binop" and a.args[0] == "@" else None
            lb = None
            if b.op == "call" and array_fn(b) == "einsum":
                ops_ = call_parts(b)[1]
                if len(ops_) == 3:
                    lb = ops_[1]
            if la is not None and lb is not None:
                pairs.append((la, lb))
        bad = []
        for la, lb in pairs:
            ua, na = unconj(la)
            ub, nb = unconj(lb)
            if ua is ub and na != nb:
                bad.append((show(la, maxdepth=2)[:40], show(lb, maxdepth=2)[:40]))
        if pairs:
            ctx.ob("PAIR-1", f"{fi.qualname}: rot_h1 and rot_chol are half-rotated with the same matrix", not bad,
                   "; ".join(f"h1 is rotated with {x}, the Cholesky vectors with {y}: they differ by a complex conjugation"
                             for x, y in bad[:2]) or f"{len(pairs)} spin block(s): same matrix on both", fi)


def ctx_keys_written(R, hd):
    """string keys stored on top of the incoming dictionary in the builder's result"""
    from ..symex import strip_wrappers
    out = []
    t = strip_wrappers(R)
    n = 0
    while t.op == "setitem" and n < 200:
        k = t.args[1]
        if k.op == "const" and isinstance(k.args[0], str) and k.args[0] not in out:
            out.append(k.args[0])
        t = strip_wrappers(t.args[0])
        n += 1
    return out if t is hd else []


def key_handling(ctx):
    """PRNG-1 for the two storage formats: a closed-shell run gives the same numbers with restricted and with
    unrestricted walkers only if both consume the PRNG key identically (new key stored back, subkey drawn from)."""
    from ..rules import common
    p = ctx.p
    for P in ("propagation.propagator_restricted", "propagation.propagator_unrestricted"):
        for meth in ("stochastic_reconfiguration_local",):
            fi = p.lookup_method(P, meth)
            if fi is None:
                raise AnalysisError(f"{P}.{meth} not found")
            n = common.prng1(ctx, fi, self_class=P)
            if n < 1:
                ctx.rep.note(f"{P}.{meth}: no random.split was found on its value graph (the key handling is written in a "
                             f"form that is not followed); the key-linearity rule is not applied")


def _per_walker(run_: G.StepRun, t, fields_syms: Set) -> bool:
    for x in subterms(t):
        if x.op == "getitem" and x.args[1].op == "const" and x.args[1].args[0] in PER_WALKER_KEYS:
            return True
        if x in fields_syms:
            return True
    return False


def step_mixing(ctx):
    p = ctx.p
    props = [q for q in p.subclasses("propagation.propagator") if not p.abstract_methods(q)]
    seen_steps = set()
    total = 0
    for P in props:
        for meth in ("propagate", "propagate_free"):
            step = p.lookup_method(P, meth)
            if step is None or step.is_refusal() or (step.qualname, P) in seen_steps:
                continue
            key_ = step.qualname
            if key_ in seen_steps:
                continue
            seen_steps.add(key_)
            run_ = G.StepRun(p, step, P)
            run_.ev.record_terms = None
            params = [x.name for x in step.params if x.name != "self"]
            fields_syms = {sym(params[3])} if len(params) >= 4 else set()
            pd = run_.result
            allowed = set()
            shift = strip_wrappers(getitem(pd, const("pop_control_ene_shift")))
            for x in subterms(shift):
                if x.op == "call" and array_fn(x) == "log":
                    la = strip_wrappers(call_parts(x)[1][0])
                    d = m_binop(la, "/")
                    if d is not None:
                        sm = strip_wrappers(d[0])
                        a = m_arrcall(sm, "sum")
                        if a is not None and len(call_parts(sm)[2]) == 0 and len(a) == 1:
                            allowed.add(sm.uid)
            bad = []
            seen = set()
            terms = []
            for e in run_.events:
                if e.kind in ("store", "assign"):
                    v = e.data[2] if e.kind == "store" else e.data[1]
                    for x in subterms(v, seen):
                        terms.append((x, e.line))
                elif e.kind == "call":
                    for x in subterms(e.data, seen):
                        terms.append((x, e.line))
            for x, line in terms:
                if x.op == "call":
                    fn = array_fn(x)
                    _, pos, kws = call_parts(x)
                    if fn in MIXERS and pos and _per_walker(run_, pos[0], fields_syms):
                        if x.uid in allowed:
                            continue
                        ax = kws.get("axis", pos[1] if len(pos) > 1 and fn not in ("dot", "vdot", "searchsorted") else None)
                        within = ax is not None and ax.op == "const" and isinstance(ax.args[0], int) and \
                            ax.args[0] not in (0,)
                        if fn in ("linalg.norm",):
                            within = within
                        if not within:
                            bad.append((line, f"{fn}(...) over the walker axis"))
                    if fn == "einsum" and pos and pos[0].op == "const" and "->" in str(pos[0].args[0]):
                        spec = pos[0].args[0].replace(" ", "")
                        ins, out = spec.split("->")
                        for sub_, op_ in zip(ins.split(","), pos[1:]):
                            if sub_ and _walker_leading(op_, fields_syms) and sub_[0] not in out:
                                bad.append((line, f"einsum '{spec}' sums the walker axis"))
                    f = x.args[0]
                    if f.op == "attr" and f.args[1] in ("sum", "cumsum", "max", "min", "mean", "sort", "prod") \
                            and _per_walker(run_, f.args[0], fields_syms):
                        ax = kws.get("axis", pos[0] if pos else None)
                        within = ax is not None and ax.op == "const" and ax.args[0] not in (0, None)
                        if not within:
                            bad.append((line, f".{f.args[1]}() over the walker axis"))
                if x.op == "getitem" and _walker_leading(x.args[0], fields_syms):
                    idx = x.args[1]
                    first = idx.args[0] if idx.op == "tuple" and idx.args else idx
                    if first.op == "slice" and first.args[2].op == "const" and isinstance(first.args[2].args[0], int) \
                            and first.args[2].args[0] < 0:
                        bad.append((line, "reversed slice of the walker axis"))
            total += 1
            ctx.ob("NI-1", f"{step.qualname}: no operation mixes the walker axis", not bad,
                   f"{sorted(set(bad))[:4]}" if bad else
                   f"only the weight sum of the shift update reduces over walkers ({len(allowed)} site)", step)
            ctx.ob("NI-1", f"{step.qualname}: the population-control coupling is the plain sum of the weights",
                   len(allowed) == 1 or meth == "propagate_free",
                   f"{len(allowed)} symmetric reduction site(s) in the shift update", step,
                   nontrivial=(meth != "propagate_free"))
    if total < 6:
        raise AnalysisError(f"NI-1 (steps) analysed only {total} step functions")


def _walker_leading(t, fields_syms) -> bool:
    """Term is one of the per-walker containers themselves (leading axis = walker)."""
    t = strip_wrappers(t)
    if t in fields_syms:
        return True
    if t.op == "getitem" and t.args[1].op == "const":
        k = t.args[1].args[0]
        if k in PER_WALKER_KEYS and k != "walkers":
            return True
        if isinstance(k, int) and t.args[0].op == "getitem" and t.args[0].args[1].op == "const" and \
                t.args[0].args[1].args[0] == "walkers":
            return True
    return False


def vmap_docs(ctx):
    """CPMC trial *_vmap methods map exactly the arguments documented '(mapped over)'."""
    p = ctx.p
    base = p.cls("wavefunctions.wave_function_cpmc")
    n = 0
    for mname, bfi in base.methods.items():
        if not mname.endswith("_vmap"):
            continue
        doc = ast.get_docstring(bfi.node) or ""
        params = [x.name for x in bfi.params if x.name != "self"]
        mapped = []
        # doc lines "name: ... (mapped over)" in parameter order
        arg_lines = [ln.strip() for ln in doc.splitlines() if ":" in ln and not ln.strip().startswith(("Args", "Returns"))]
        doc_args = [ln for ln in arg_lines][:len(params)]
        if len(doc_args) < len(params):
            continue
        want = ["mapped over" in ln for ln in doc_args]
        done_ = set()
        for q in p.subclasses(base.qualname, include_self=False):
            # the implementation the subclass resolves the name to (its own, or one pulled up into a base class)
            fi = p.lookup_method(q, mname)
            if fi is None or fi.is_abstract or fi.is_refusal() or fi.is_empty() or (fi.qualname, ) in done_:
                continue
            done_.add((fi.qualname, ))
            ev = Evaluator(p)
            fr = ev.eval_function(fi, self_class=q)
            R = strip_wrappers(ev.result(fr))
            vm = match_vmap(R) if R.op == "call" else None
            if vm is None:
                ctx.ob("NI-1", f"{fi.qualname}: is a vmap over walkers", False, "not a vmap call", fi)
                continue
            f, in_axes, vargs = vm
            axes = [None if is_const(a, None) else (a.args[0] if a.op == "const" else "?") for a in
                    (in_axes.args if in_axes is not None and in_axes.op in ("tuple", "list") else [])]
            own = [x.name for x in fi.params if x.name != "self"]
            doc_of = dict(zip(own, want)) if len(own) == len(want) else {}
            exp = []
            for a in vargs:
                roots = [x.args[0] for x in subterms(a) if x.op == "sym" and x.args[0] in doc_of]
                exp.append(any(doc_of[r] for r in roots) if roots else None)
            got = [a == 0 for a in axes]
            ok = len(axes) == len(vargs) and all(a in (0, None) for a in axes) and \
                all(e is None or e == g_ for e, g_ in zip(exp, got)) and None not in exp
            n += 1
            ctx.ob("NI-1", f"{fi.qualname}: in_axes maps exactly the per-walker arguments", ok,
                   f"in_axes {axes} for arguments {[show(a, maxdepth=1) for a in vargs]}; documented "
                   f"mapped-over {doc_of}", fi)
    if n == 0:
        if not any(m_.endswith("_vmap") for m_ in base.methods):
            raise AnalysisError("vmap/doc rule: wave_function_cpmc has no *_vmap method (anchor vanished)")
        ctx.rep.note("vmap/doc rule: the *_vmap methods of wave_function_cpmc no longer document their arguments as "
                     "'(mapped over)' line by line; the in_axes / documentation agreement is not judged")
        return
    if n < 6:
        ctx.rep.note(f"vmap/doc rule: {n} *_vmap implementations found (6 on the reference tree); shared implementations "
                     f"are judged once")


def builder_agreement(ctx):
    p = ctx.p
    R = "propagation.propagator_restricted"
    U = "propagation.propagator_unrestricted"
    ka = keys.key_analysis(p)
    fr_ = p.lookup_method(R, "_build_propagation_intermediates")
    fu_ = p.lookup_method(U, "_build_propagation_intermediates")
    if fr_ is fu_:
        ctx.ob("SIB-2", "propagation builders: restricted and unrestricted share one implementation", True,
               "single copy", fr_, nontrivial=False)
        return
    ev = Evaluator(p)
    rr = ev.result(ev.eval_function(fr_, self_class=R))
    ru = ev.result(ev.eval_function(fu_, self_class=U))
    live_r = set(keys.reads_of(ka, R, ["propagate", "propagate_free"], "ham_data"))
    live_u = set(keys.reads_of(ka, U, ["propagate", "propagate_free"], "ham_data"))
    wr = keys.writes_of(ka, R, "_build_propagation_intermediates", "ham_data")
    wu = keys.writes_of(ka, U, "_build_propagation_intermediates", "ham_data")
    live = sorted((live_r & set(wr)) & (live_u & set(wu)))
    dead = sorted((set(wr) | set(wu)) - set(live))
    ctx.rep.note(f"builder keys compared (live in both classes): {live}; excluded as dead in one class: {dead}")
    if not live:
        raise AnalysisError("no live propagation-builder keys found")
    hd = sym("ham_data")
    h1 = getitem(hd, const("h1"))
    hyp = {getitem(h1, const(1)): getitem(h1, const(0))}
    for k in live:
        a = getitem(rr, const(k))
        b = getitem(ru, const(k))
        g = GVN(ev, hyp)
        try:
            fa = g.number(a)
            fb = g.number(b)
            ok = f_key(fa) == f_key(fb)
            per_spin = False
            if not ok:
                # the unrestricted value may be the per-spin stack of the restricted one
                oks = []
                for s_ in (0, 1):
                    fbs = g.number(getitem(b, const(s_)))
                    oks.append(f_key(fa) == f_key(fbs))
                ok = all(oks)
                per_spin = ok
        except TooBig:
            raise AnalysisError("builder agreement: value numbering budget exceeded")
        msg = ("equal value numbers" + (" for each spin entry" if per_spin else "") +
               " under h1[0] == h1[1]") if ok else (
            f"restricted: {g.describe(fa)[:160]}  vs  unrestricted: {g.describe(fb)[:160]}")
        ctx.ob("SIB-2", f"propagation builders: '{k}' agrees between propagator_restricted and "
               f"propagator_unrestricted", ok, msg, fu_)
