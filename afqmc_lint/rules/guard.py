"""GUARD-1 / GUARD-2 -- form of every update of the population weights.

For one propagator class the step function is evaluated with its helper methods
inlined; every store to the ['weights'] slot of the walker-state dict is then
classified from its def-use term:
   multiplicative   w_new == w_old * f  (either order)
   zeroing guard    w_new == where(c(w_old), 0, w_old)
anything else is reported (GUARD-2).  For a multiplicative store the factor f is
inspected (GUARD-1): constraint ratios must pass a lower zeroing guard of their own
or be followed by a lower clip of the weights; growth factors must be followed by
an upper clip; the phaseless factor must carry the NaN / lower / upper guards around
|I| cos(theta); factors must be real by construction.
"""

from __future__ import annotations

from typing import Dict, List, Optional, Set, Tuple

from ..model import AnalysisError, FuncInfo, Program
from ..symex import (T, Evaluator, Event, array_fn, call_parts, const, func_name, getitem, is_const,
                     match_scan, mk, show, strip_wrappers, subterms, sym)
from .match import (const_num, m_arrcall, m_binop, m_cmp, m_method, m_where, peel_guards,
                    product_factors, strip_real, sum_terms, zero_guard)


class WeightStore:
    def __init__(self, e: Event, value: T, old: T):
        self.e = e
        self.value = value
        self.old = old
        self.kind = "other"      # mul | guard | other
        self.factor: Optional[T] = None
        self.guard: Optional[Tuple[str, T, T, T]] = None
        self.in_scan = False
        self.label = e.frame.label
        self.line = e.line


class StepRun:
    """Inlined evaluation of one step function for an exact propagator class."""

    def __init__(self, p: Program, step: FuncInfo, prop_cls: str):
        self.p = p
        self.step = step
        self.prop_cls = prop_cls
        ev = Evaluator(p)
        ev.open_transforms = True
        ev.emit_loads = True
        ev.inline_policy = self._policy
        self.ev = ev
        fr = ev.new_frame(step, None, prop_cls)
        fr.exact_self = True
        for prm in step.params:
            fr.env.vars[prm.name] = sym(prm.name)
            t = fr.env.vars[prm.name]
            if prm.name == "self":
                fr.types[t] = prop_cls
            else:
                c = p.annotation_class(fr.mod, prm.annotation)
                if c is not None:
                    fr.types[t] = c
        ev.exact_types[sym("self")] = prop_cls
        ev.exec_block(fr, step.body())
        self.frame = fr
        self.events = ev.events
        self.result = ev.result(fr)
        self.overlap_loads: Set[int] = set()
        for e in self.events:
            if e.kind == "load" and e.data[1] == "overlaps":
                self.overlap_loads.add(e.data[2].uid)

    def _policy(self, callee: FuncInfo, rc, fr) -> bool:
        from ..symex import walker_state_glue
        return callee.module == "propagation" and walker_state_glue(callee)

    def _through_scan_slot(self, val: T, old: T):
        """w = scan(body, (.., w0, ..), xs)[0][k] over a plain tuple / record carry is the sequence  w = w0 ; w = body's
        slot k of its incoming slot k  (once per step)"""
        from .typestate import Judge
        sd = Judge._scan_slot(val)
        if sd is None:
            return [(val, old)]
        t, k = sd
        body = None
        for e in self.events:
            if e.kind == "scan_exit" and e.data[0] is t:
                body = e.data[1]
        if body is None:
            return [(val, old)]
        init = match_scan(t)[1]
        C = mk("scan_carry", init, t.uid)
        out = []
        w0 = getitem(init, const(k))
        if strip_wrappers(w0) is not strip_wrappers(old):
            out.append((w0, old))
        out.append((getitem(getitem(body, const(0)), const(k)), getitem(C, const(k)), True))
        return out

    def weight_stores(self, key: str = "weights") -> List[WeightStore]:
        out = []
        depth = 0
        for e in self.events:
            if e.kind == "scan_enter":
                depth += 1
            elif e.kind == "scan_exit":
                depth -= 1
            elif e.kind == "store":
                keys = e.data[1]
                if len(keys) == 1 and keys[0].op == "const" and keys[0].args[0] == key:
                    # one assignment may combine an update with the clips that follow it,
                    #   w = where(f*w > 100, 0, f*w):  it is the sequence  w = f*w ; w = where(w > 100, 0, w)
                    chain = []
                    cur = strip_wrappers(e.data[2])
                    old = e.data[4]
                    while True:
                        g = zero_guard(cur)
                        if g is None or not (strip_wrappers(g[1]) is strip_wrappers(g[3])) or \
                                strip_wrappers(g[3]) is strip_wrappers(old):
                            break
                        chain.append(cur)
                        cur = strip_wrappers(g[3])
                    if chain:
                        seq = [(cur, old)]
                        inner = cur
                        for outer in reversed(chain):
                            seq.append((outer, inner))
                            inner = outer
                    else:
                        seq = [(e.data[2], old)]
                    seq = [y for x in seq for y in self._through_scan_slot(*x)]
                    for val, old_, *in_body in seq:
                        ws = WeightStore(e, val, old_)
                        ws.in_scan = depth > 0 or bool(in_body)
                        classify(ws)
                        out.append(ws)
        return out


def classify(ws: WeightStore):
    v = strip_wrappers(ws.value)
    old = strip_wrappers(ws.old)
    m = m_binop(v, "*")
    if m is not None:
        a, b = m
        if strip_wrappers(a) is old:
            ws.kind, ws.factor = "mul", b
            return
        if strip_wrappers(b) is old:
            ws.kind, ws.factor = "mul", a
            return
    g = zero_guard(v)
    if g is not None:
        kind, tested, thr, passed = g
        if strip_wrappers(passed) is old and strip_wrappers(tested) is old and kind in ("<", ">", "<=", ">=", "isnan"):
            ws.kind, ws.guard = "guard", g
            return
    ws.kind = "other"


REAL_PD_KEYS = {"weights", "pop_control_ene_shift", "e_estimate"}


def is_real(t: T, depth: int = 0) -> bool:
    """Real-valued by construction."""
    if depth > 30:
        return False
    t = strip_wrappers(t)
    if t.op == "const":
        return isinstance(t.args[0], (int, float)) and not isinstance(t.args[0], complex)
    if t.op == "attr":
        if t.args[1] == "real":
            return True
        if t.args[1] in ("dt", "n_walkers"):
            return True
        return False
    if t.op == "getitem":
        k = t.args[1]
        if k.op == "const" and k.args[0] in REAL_PD_KEYS:
            return True
        return is_real(t.args[0], depth + 1) and t.args[0].op != "sym"
    if t.op == "binop":
        if t.args[0] == "**":
            return is_real(t.args[1], depth + 1) and is_real(t.args[2], depth + 1)
        return is_real(t.args[1], depth + 1) and is_real(t.args[2], depth + 1)
    if t.op == "unop":
        return is_real(t.args[1], depth + 1)
    if t.op == "call":
        fn = array_fn(t)
        _, pos, _ = call_parts(t)
        if fn in ("abs", "real", "angle", "absolute"):
            return True
        if fn in ("cos", "sin", "exp", "log", "sqrt", "sum", "array", "tanh", "cosh"):
            return bool(pos) and is_real(pos[0], depth + 1)
        if fn == "where" and len(pos) == 3:
            return is_real(pos[1], depth + 1) and is_real(pos[2], depth + 1)
        mm = m_method(t, "reshape", "sum", "astype")
        if mm is not None:
            return is_real(mm[0], depth + 1)
    if t.op in ("scan_x", "vmap_elem"):
        return is_real(t.args[0], depth + 1)
    return False


def ratio_terms(run: StepRun, f: T) -> List[T]:
    """Constraint-ratio subterms of a factor: calc_overlap_ratio_vmap(...) calls and
    quotients whose denominator is a cached-overlap load / numerator a fresh overlap."""
    out = []
    for x in subterms(f):
        if x.op == "call" and x.args[0].op == "attr" and x.args[0].args[1] == "calc_overlap_ratio_vmap":
            out.append(x)
        elif x.op == "binop" and x.args[0] == "/":
            den = strip_wrappers(x.args[2])
            num = strip_wrappers(x.args[1])
            if den.uid in run.overlap_loads or (
                    num.op == "call" and num.args[0].op == "attr" and num.args[0].args[1] == "calc_overlap"):
                out.append(x)
    return out


def lower_guarded_inside(f: T, r: T) -> bool:
    """Is ratio r, on its way into f, passed through where(v < thr, 0, v) with v built from r
    (tested value == passed value)?"""
    for g in subterms(f):
        zg = zero_guard(g)
        if zg is None:
            continue
        kind, tested, thr, passed = zg
        if kind not in ("<", "<="):
            continue
        if strip_wrappers(tested) is not strip_wrappers(passed):
            continue
        th = const_num(thr)
        if th is None or th <= 0:
            continue
        if any(s is r for s in subterms(passed)):
            return True
    return False


def guard_shape_ok(g: Tuple[str, T, T, T]) -> Tuple[bool, str]:
    kind, tested, thr, passed = g
    if strip_wrappers(tested) is not strip_wrappers(passed):
        return False, "the guard tests a different value than the one it passes through"
    if kind in ("<", "<=", ">", ">="):
        th = const_num(thr)
        if th is None:
            return False, "guard threshold is not a literal"
        if th <= 0:
            return False, f"guard threshold {th} is not positive"
    return True, ""
