"""Obligations, evidence, known findings, VIOLATION lines."""

from __future__ import annotations

import json
import os
import time
from dataclasses import dataclass, field
from typing import Any, Dict, List, Optional

VERIF_DIR = os.path.dirname(os.path.dirname(os.path.abspath(__file__)))
EVIDENCE_DIR = os.path.join(VERIF_DIR, "evidence")
REPLAY_DIR = os.path.join(EVIDENCE_DIR, "replay")
KNOWN_FINDINGS = os.path.join(VERIF_DIR, "known_findings.json")


@dataclass
class Obligation:
    rule: str
    construct: str  # stable key: function / class / site description (no line numbers)
    ok: bool
    message: str
    file: str = ""
    line: int = 0
    nontrivial: bool = False
    witness: Optional[Any] = None

    def key(self) -> str:
        return f"{self.rule} / {self.construct}"

    def as_dict(self) -> dict:
        d = {
            "rule": self.rule,
            "construct": self.construct,
            "verdict": "discharged" if self.ok else "VIOLATED",
            "site": f"{self.file}:{self.line}" if self.file else "",
            "message": self.message,
        }
        if self.witness is not None:
            d["witness"] = self.witness
        return d


class Report:
    def __init__(self, prop_id: str, tier: str):
        self.prop_id = prop_id
        self.tier = tier
        self.obligations: List[Obligation] = []
        self.notes: List[str] = []
        self.counters: Dict[str, int] = {}
        self.trusted: List[str] = []
        self.assumptions: List[str] = []
        self.explanation = ""
        self.not_decided = ""
        self.extra: Dict[str, Any] = {}
        self.t0 = time.time()

    # ------------------------------------------------------------------
    def ob(self, rule: str, construct: str, ok: bool, message: str = "", file: str = "",
           line: int = 0, nontrivial: bool = True, witness=None) -> bool:
        self.obligations.append(
            Obligation(rule, construct, bool(ok), message, file, line, nontrivial, witness)
        )
        return bool(ok)

    def note(self, msg: str):
        self.notes.append(msg)

    def count(self, name: str, n: int = 1):
        self.counters[name] = self.counters.get(name, 0) + n

    def trust(self, *items: str):
        for i in items:
            if i not in self.trusted:
                self.trusted.append(i)

    def assume(self, *items: str):
        for i in items:
            if i not in self.assumptions:
                self.assumptions.append(i)

    @property
    def violations(self) -> List[Obligation]:
        return [o for o in self.obligations if not o.ok]

    def unlisted(self) -> List["Obligation"]:
        """violations that known_findings.json does not list: what makes a check exit 1"""
        known = load_known_findings()
        listed = {(f["property"], f["rule"], f["construct"]) for f in known.get("findings", [])}
        return [o for o in self.violations if (self.prop_id, o.rule, o.construct) not in listed]

    def rule_counts(self) -> Dict[str, int]:
        out: Dict[str, int] = {}
        for o in self.obligations:
            out[o.rule] = out.get(o.rule, 0) + 1
        return out


def load_known_findings() -> dict:
    if not os.path.exists(KNOWN_FINDINGS):
        return {"findings": [], "fixed": []}
    with open(KNOWN_FINDINGS) as fh:
        return json.load(fh)


def finish(rep: Report, selftest: Optional[dict] = None, write: bool = True,
           quiet: bool = False) -> int:
    """Print verdict lines, write evidence, return exit code."""
    known = load_known_findings()
    listed = {
        (f["property"], f["rule"], f["construct"]) for f in known.get("findings", [])
    }
    new_violations = []
    known_hits = []
    for o in rep.violations:
        if (rep.prop_id, o.rule, o.construct) in listed:
            known_hits.append(o)
        else:
            new_violations.append(o)
    lines = []
    for o in known_hits:
        lines.append(
            f"KNOWN-FINDING: property={rep.prop_id} {o.rule} / {o.construct}: {o.message}"
        )
    replay_paths = []
    if write:
        os.makedirs(REPLAY_DIR, exist_ok=True)
        # clear older replays of this property
        for f in os.listdir(REPLAY_DIR):
            if f.startswith(rep.prop_id + "-"):
                try:
                    os.remove(os.path.join(REPLAY_DIR, f))
                except OSError:
                    pass
    for k, o in enumerate(new_violations):
        path = os.path.join(REPLAY_DIR, f"{rep.prop_id}-{k}.json")
        replay_paths.append(path)
        if write:
            with open(path, "w") as fh:
                json.dump({"property": rep.prop_id, **o.as_dict()}, fh, indent=1, default=str)
        lines.append(f"{o.file}:{o.line}  {o.rule}  {o.construct}  {o.message}")
        lines.append(f"VIOLATION property={rep.prop_id} replay={path}")
    n_ob = len(rep.obligations)
    n_ok = sum(1 for o in rep.obligations if o.ok)
    distinct = len({o.key() for o in rep.obligations if o.nontrivial})
    samples = []
    seen_rules = set()
    for o in rep.obligations:  # one sample per rule first, then fill up
        if o.rule not in seen_rules:
            seen_rules.add(o.rule)
            samples.append(o.as_dict())
    for o in rep.violations:
        d = o.as_dict()
        if d not in samples:
            samples.append(d)
    for o in rep.obligations:
        if len(samples) >= 40:
            break
        d = o.as_dict()
        if d not in samples:
            samples.append(d)
    coverage = {
        "explanation": rep.explanation
        + (" NOT DECIDED (no static claim): " + rep.not_decided if rep.not_decided else ""),
        "obligations": n_ob,
        "discharged": n_ok,
        "evaluations": max(n_ob, 1),
        "distinct_nontrivial": distinct,
        "rule": "one obligation per (rule, syntactic site / class / call-graph path) enumerated "
        "from /repo's current source; non-trivial = discharged by a def-use, path, binding, "
        "fixed-point or value-numbering argument rather than a table lookup; distinct = "
        "distinct (rule, construct) keys",
        "samples": samples,
        "rules": rep.rule_counts(),
        "counters": rep.counters,
        "notes": rep.notes[:60],
        "checker_cmd": f"./check {rep.prop_id} --tier {rep.tier}",
        "trusted_base": rep.trusted,
        "exhaustive": True,
        "known_findings_matched": [o.key() for o in known_hits],
        "violations": [o.as_dict() for o in new_violations],
    }
    coverage.update(rep.extra)
    if selftest is not None:
        coverage["selftest"] = selftest
    evidence = {
        "property_id": rep.prop_id,
        "tier": rep.tier,
        "seed": int(os.environ.get("VERIF_SEED", "0") or 0),
        "level": "other",
        "coverage": coverage,
        "assumptions": rep.assumptions,
        "wall_s": round(time.time() - rep.t0, 3),
        "violations": len(new_violations),
    }
    if write:
        os.makedirs(EVIDENCE_DIR, exist_ok=True)
        with open(os.path.join(EVIDENCE_DIR, f"{rep.prop_id}.json"), "w") as fh:
            json.dump(evidence, fh, indent=1, default=str)
    if not quiet:
        print(
            f"[{rep.prop_id}] tier={rep.tier} obligations={n_ob} discharged={n_ok} "
            f"distinct_nontrivial={distinct} rules={rep.rule_counts()}"
        )
        for ln in lines:
            print(ln)
        if selftest is not None:
            print(
                f"[{rep.prop_id}] self-test: {selftest.get('caught', 0)}/{selftest.get('applicable', 0)}"
                f" mutants reported, {selftest.get('inapplicable', 0)} inapplicable, "
                f"pristine overlay silent={selftest.get('pristine_silent')}"
            )
    return 1 if new_violations else 0
