#!/bin/bash
# usage: tools/seed_process.sh C19   -- confirm (scratch worktrees, in parallel) every /tmp/seed/C19.out/patchK.diff
# and evaluate it against all 20 checks (sequentially, on /repo with apply / checkout).  Prints one block per change.
# Nothing is stored under /verif by this script; tools/seed_keep.py does that after the verdict has been read.
id=$1
out=/tmp/seed/$id.out
for k in 1 2 3 4; do
  [ -f $out/patch$k.diff ] || continue
  /verif/tools/seed_confirm.sh $out/patch$k.diff $out/demo$k.py ${id}_$k > $out/confirm$k.txt 2>&1 &
done
for k in 1 2 3 4; do
  [ -f $out/patch$k.diff ] || continue
  echo "=== $id-$k: $(python3 -c "import json;print(json.load(open('$out/meta$k.json')).get('summary','')[:300])" 2>/dev/null)"
  /venv/bin/python /verif/tools/seed_eval.py $out/patch$k.diff --json $out/eval$k.json 2>&1 | grep -v "WARNING conda"
done
wait
cat $out/confirm*.txt | grep -v "WARNING conda"
