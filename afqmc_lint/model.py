"""PM -- the resolved program model.

Parses every module of the package (from disk or from an in-memory overlay),
builds the class table (bases resolved through import aliases, C3 MRO,
dataclass fields, decorators, singledispatch registrations), the function
table (parameters, jit static positions) and offers receiver-type based call
resolution.  Nothing is imported or executed.
"""

from __future__ import annotations

import ast
import json
import os
from dataclasses import dataclass, field
from typing import Dict, Iterable, List, Optional, Sequence, Set, Tuple

PKG = "ad_afqmc"


class AnalysisError(Exception):
    """The analysis cannot give a verdict (anchor vanished, unmodelled idiom)."""


# --------------------------------------------------------------------------
# small ast helpers


_MUTATORS = ("append", "extend", "update", "pop", "sort", "insert", "remove", "clear", "read", "write", "seek",
             "readline", "readlines", "send", "recv", "close", "setdefault", "add", "discard", "popitem")


def _touched(st: ast.AST) -> set:
    """names a statement may rebind or mutate (assignment, augmented assignment, subscript/attribute store,
    mutating method call, loop / with / except targets, del)"""
    out = set()
    for n in ast.walk(st):
        if isinstance(n, ast.Name) and isinstance(n.ctx, (ast.Store, ast.Del)):
            out.add(n.id)
        elif isinstance(n, (ast.Subscript, ast.Attribute)) and isinstance(getattr(n, "ctx", None), (ast.Store, ast.Del)):
            b_ = n
            while isinstance(b_, (ast.Subscript, ast.Attribute)):
                b_ = b_.value
            if isinstance(b_, ast.Name):
                out.add(b_.id)
        elif isinstance(n, ast.Call) and isinstance(n.func, ast.Attribute) and n.func.attr in _MUTATORS:
            b_ = n.func.value
            while isinstance(b_, (ast.Subscript, ast.Attribute)):
                b_ = b_.value
            if isinstance(b_, ast.Name):
                out.add(b_.id)
        elif isinstance(n, (ast.FunctionDef, ast.AsyncFunctionDef, ast.ClassDef)):
            out.add(n.name)
        elif isinstance(n, (ast.Global, ast.Nonlocal)):
            out.update(n.names)
    return out


def inline_temporaries(fn_node: ast.AST, single_use_only: bool = True) -> ast.AST:
    """A copy of a function's AST in which temporaries are substituted into their use:
           t = g(x)            ->      y = f(g(x) + 1)
           y = f(t + 1)
    so that syntax-directed rules see one expression whether or not its parts were given names.  A name is
    substituted only if it is bound exactly once in the function by a plain `name = expr` statement, is read exactly
    once, the read is in a later statement of the same block, and nothing the defining expression reads is rebound or
    mutated in between (nor inside the using statement when that is a compound statement).  Used for pattern
    matching only: substituted nodes keep their original line numbers."""
    import copy

    node = copy.deepcopy(fn_node)
    params = set()
    if hasattr(node, "args"):
        a = node.args
        params = {x.arg for x in a.args + a.kwonlyargs + a.posonlyargs}
        if a.vararg:
            params.add(a.vararg.arg)
        if a.kwarg:
            params.add(a.kwarg.arg)

    class Sub(ast.NodeTransformer):
        def __init__(self, name, value):
            self.name, self.value, self.done = name, value, 0

        def visit_Name(self, n):
            if isinstance(n.ctx, ast.Load) and n.id == self.name:
                self.done += 1
                return self.value
            return n

    def blocks(n):
        for fld in ("body", "orelse", "finalbody"):
            sub = getattr(n, fld, None)
            if isinstance(sub, list) and sub and isinstance(sub[0], ast.stmt):
                yield sub
                for st in sub:
                    if not isinstance(st, (ast.FunctionDef, ast.AsyncFunctionDef, ast.ClassDef)) or True:
                        yield from blocks(st)
        for h in getattr(n, "handlers", []) or []:
            yield h.body
            for st in h.body:
                yield from blocks(st)

    for _round in range(64):
        stores: Dict[str, int] = {}
        loads: Dict[str, int] = {}
        for n in ast.walk(node):
            if isinstance(n, ast.Name):
                if isinstance(n.ctx, ast.Load):
                    loads[n.id] = loads.get(n.id, 0) + 1
                else:
                    stores[n.id] = stores.get(n.id, 0) + 1
            elif isinstance(n, (ast.Global, ast.Nonlocal)):
                for x in n.names:
                    stores[x] = stores.get(x, 0) + 2
        changed = False
        for blk in blocks(node):
            for i, st in enumerate(blk):
                if not (isinstance(st, ast.Assign) and len(st.targets) == 1 and isinstance(st.targets[0], ast.Name)):
                    continue
                t = st.targets[0].id
                if t in params or stores.get(t, 0) != 1 or loads.get(t, 0) != 1:
                    continue
                if isinstance(st.value, (ast.Lambda, ast.Yield, ast.YieldFrom, ast.Await, ast.ListComp, ast.DictComp,
                                         ast.SetComp, ast.GeneratorExp, ast.List, ast.Dict, ast.Set, ast.NamedExpr)):
                    continue
                reads = {x.id for x in ast.walk(st.value) if isinstance(x, ast.Name)}
                if t in reads:
                    continue
                j = None
                for k in range(i + 1, len(blk)):
                    if any(isinstance(x, ast.Name) and isinstance(x.ctx, ast.Load) and x.id == t for x in ast.walk(blk[k])):
                        j = k
                        break
                if j is None:
                    continue
                if any(_touched(blk[k]) & reads for k in range(i + 1, j)):
                    continue
                user = blk[j]
                compound = any(isinstance(getattr(user, f_, None), list) and getattr(user, f_) and
                               isinstance(getattr(user, f_)[0], ast.stmt) for f_ in ("body", "orelse", "finalbody"))
                if compound and (_touched(user) & reads):
                    continue
                # the read must not sit in a nested function / lambda / comprehension (evaluated later or repeatedly)
                nested = False
                for x in ast.walk(user):
                    if isinstance(x, (ast.FunctionDef, ast.AsyncFunctionDef, ast.Lambda, ast.ListComp, ast.SetComp,
                                      ast.DictComp, ast.GeneratorExp)) and x is not user:
                        if any(isinstance(y, ast.Name) and y.id == t for y in ast.walk(x)):
                            nested = True
                if nested:
                    continue
                sub = Sub(t, st.value)
                blk[j] = sub.visit(user)
                if sub.done == 1:
                    del blk[i]
                    changed = True
                    break
            if changed:
                break
        if not changed:
            break
    ast.fix_missing_locations(node)
    return node


_norm_cache: Dict[int, Tuple[ast.AST, ast.AST]] = {}


def norm(fn_node: ast.AST) -> ast.AST:
    """cached inline_temporaries(fn_node)"""
    hit = _norm_cache.get(id(fn_node))
    if hit is not None and hit[0] is fn_node:
        return hit[1]
    out = inline_temporaries(fn_node)
    _norm_cache[id(fn_node)] = (fn_node, out)
    return out


def returned_values(fn_node: ast.AST, top_level_only: bool = False) -> List[Tuple[ast.Return, ast.AST]]:
    """(return statement, returned expression) of a function, looking through the idiom
           result = <expr>
           return result
    Nested function definitions are not entered."""
    out: List[Tuple[ast.Return, ast.AST]] = []

    def walk(stmts, top):
        for i, st in enumerate(stmts):
            if isinstance(st, ast.Return):
                v = st.value
                if isinstance(v, ast.Name) and i > 0 and isinstance(stmts[i - 1], ast.Assign) and \
                        len(stmts[i - 1].targets) == 1 and isinstance(stmts[i - 1].targets[0], ast.Name) and \
                        stmts[i - 1].targets[0].id == v.id:
                    v = stmts[i - 1].value
                if v is not None:
                    out.append((st, v))
            elif isinstance(st, (ast.FunctionDef, ast.AsyncFunctionDef, ast.ClassDef)):
                continue
            elif not top_level_only:
                for fld in ("body", "orelse", "finalbody"):
                    sub = getattr(st, fld, None)
                    if isinstance(sub, list) and sub and isinstance(sub[0], ast.stmt):
                        walk(sub, False)
                for h in getattr(st, "handlers", []) or []:
                    walk(h.body, False)

    body = fn_node.body if isinstance(getattr(fn_node, "body", None), list) else []
    walk(body, True)
    return out


class _MatchToIf(ast.NodeTransformer):
    """match s: case "a": A / case "b" | "c": B / case _: C   ->   if s == "a": A / elif s in ("b", "c"): B / else: C
    (literal, singleton, or-patterns of those, wildcard / capture, optional guards).  Any other pattern shape leaves the
    statement as it is.  The source is not touched; this is a normal form of the model."""

    def __init__(self):
        self.n = 0

    def _cond(self, subj: ast.expr, pat: ast.pattern):
        """(condition or None for always-true, [binding statements]) ; raises ValueError for unsupported patterns"""
        import copy
        if isinstance(pat, ast.MatchValue):
            return ast.Compare(left=copy.deepcopy(subj), ops=[ast.Eq()], comparators=[pat.value]), []
        if isinstance(pat, ast.MatchSingleton):
            if isinstance(subj, ast.Call) and isinstance(subj.func, ast.Name) and subj.func.id == "bool" and \
                    len(subj.args) == 1 and not subj.keywords and pat.value in (True, False):
                # bool(x) is True / is False as a branch condition is the truth of x / of not x
                inner = copy.deepcopy(subj.args[0])
                return (inner if pat.value else ast.UnaryOp(op=ast.Not(), operand=inner)), []
            return ast.Compare(left=copy.deepcopy(subj), ops=[ast.Is()], comparators=[ast.Constant(value=pat.value)]), []
        if isinstance(pat, ast.MatchOr):
            if all(isinstance(q, ast.MatchValue) for q in pat.patterns):
                return ast.Compare(left=copy.deepcopy(subj), ops=[ast.In()],
                                   comparators=[ast.Tuple(elts=[q.value for q in pat.patterns], ctx=ast.Load())]), []
            parts = [self._cond(subj, q) for q in pat.patterns]
            if any(b for _, b in parts) or any(c is None for c, _ in parts):
                raise ValueError
            return ast.BoolOp(op=ast.Or(), values=[c for c, _ in parts]), []
        if isinstance(pat, ast.MatchMapping):
            # case {"k": x}:  "k" in subject, x = subject["k"]   (a dict subject; extra keys are allowed, as in Python)
            if pat.rest is not None or not all(isinstance(k_, ast.Constant) for k_ in pat.keys):
                raise ValueError
            conds, binds = [], []
            for k_, q in zip(pat.keys, pat.patterns):
                conds.append(ast.Compare(left=copy.deepcopy(k_), ops=[ast.In()], comparators=[copy.deepcopy(subj)]))
                item = ast.Subscript(value=copy.deepcopy(subj), slice=copy.deepcopy(k_), ctx=ast.Load())
                c_, b_ = self._cond(item, q)
                if c_ is not None:
                    conds.append(c_)
                binds += b_
            if not conds:
                return None, binds
            return (conds[0] if len(conds) == 1 else ast.BoolOp(op=ast.And(), values=conds)), binds
        if isinstance(pat, ast.MatchSequence):
            # case (2, _): on a subject written as a display (a, b): element-wise conditions
            if not isinstance(subj, (ast.Tuple, ast.List)) or len(subj.elts) != len(pat.patterns) or \
                    any(isinstance(q, ast.MatchStar) for q in pat.patterns):
                raise ValueError
            conds, binds = [], []
            for e_, q in zip(subj.elts, pat.patterns):
                c_, b_ = self._cond(e_, q)
                if c_ is not None:
                    conds.append(c_)
                binds += b_
            if not conds:
                return None, binds
            return (conds[0] if len(conds) == 1 else ast.BoolOp(op=ast.And(), values=conds)), binds
        if isinstance(pat, ast.MatchAs):
            if pat.pattern is None:
                binds = [] if pat.name is None else [
                    ast.Assign(targets=[ast.Name(id=pat.name, ctx=ast.Store())], value=copy.deepcopy(subj))]
                return None, binds
            c, b = self._cond(subj, pat.pattern)
            return c, b + [ast.Assign(targets=[ast.Name(id=pat.name, ctx=ast.Store())], value=copy.deepcopy(subj))]
        raise ValueError

    def visit_Match(self, node: ast.Match):
        self.generic_visit(node)
        pre = []
        subj = node.subject
        if isinstance(subj, (ast.Tuple, ast.List)) and all(isinstance(c.pattern, (ast.MatchSequence, ast.MatchAs)) for c in node.cases):
            # match (a, b): the elements are named once, the display stays a display for the sequence patterns
            elts = []
            for e_ in subj.elts:
                pure_bool = isinstance(e_, ast.Call) and isinstance(e_.func, ast.Name) and e_.func.id == "bool" and \
                    len(e_.args) == 1 and not e_.keywords and not any(isinstance(n_, ast.Call) for n_ in ast.walk(e_.args[0]))
                if isinstance(e_, (ast.Name, ast.Constant)) or pure_bool:
                    elts.append(e_)
                else:
                    self.n += 1
                    tmp = f"match_subject_{self.n}__"
                    pre.append(ast.Assign(targets=[ast.Name(id=tmp, ctx=ast.Store())], value=e_))
                    elts.append(ast.Name(id=tmp, ctx=ast.Load()))
            subj = ast.Tuple(elts=elts, ctx=ast.Load())
        elif not isinstance(subj, (ast.Name, ast.Constant)):
            self.n += 1
            tmp = f"match_subject_{self.n}__"
            pre.append(ast.Assign(targets=[ast.Name(id=tmp, ctx=ast.Store())], value=subj))
            subj = ast.Name(id=tmp, ctx=ast.Load())
        try:
            arms = []
            for c in node.cases:
                cond, binds = self._cond(subj, c.pattern)
                pre_b = []
                if c.guard is not None:
                    if binds and cond is not None:
                        raise ValueError           # a refutable pattern with a capture the guard may read
                    if binds:
                        pre_b, binds = binds, []   # an irrefutable capture is bound before its guard is evaluated
                    cond = c.guard if cond is None else ast.BoolOp(op=ast.And(), values=[cond, c.guard])
                arms.append((cond, pre_b, binds + list(c.body)))
        except ValueError:
            return node
        tail: list = []
        for cond, pre_b, body in reversed(arms):
            if cond is None:
                tail = pre_b + body
            else:
                tail = pre_b + [ast.If(test=cond, body=body, orelse=tail)]
        out = pre + (tail or [ast.Pass()])
        for st in out:
            ast.copy_location(st, node)
            ast.fix_missing_locations(st)
        return out


def _desugar_match(tree: ast.AST) -> ast.AST:
    if not any(isinstance(n, ast.Match) for n in ast.walk(tree)):
        return tree
    return _MatchToIf().visit(tree)


def dotted(node: ast.AST) -> Optional[str]:
    """a.b.c -> 'a.b.c' (Names/Attributes only)."""
    parts = []
    while isinstance(node, ast.Attribute):
        parts.append(node.attr)
        node = node.value
    if isinstance(node, ast.Name):
        parts.append(node.id)
        return ".".join(reversed(parts))
    return None


def const_value(node: ast.AST):
    if isinstance(node, ast.Constant):
        return node.value
    if isinstance(node, ast.UnaryOp) and isinstance(node.op, ast.USub):
        v = const_value(node.operand)
        if isinstance(v, (int, float, complex)):
            return -v
    return None


def int_tuple(node: ast.AST) -> Optional[Tuple[int, ...]]:
    """(0, 1, 2) / 0 / (0) -> tuple of ints."""
    if isinstance(node, ast.Constant) and isinstance(node.value, int):
        return (node.value,)
    if isinstance(node, (ast.Tuple, ast.List)):
        out = []
        for e in node.elts:
            if isinstance(e, ast.Constant) and isinstance(e.value, int):
                out.append(e.value)
            else:
                return None
        return tuple(out)
    return None


# --------------------------------------------------------------------------
# data classes of the model


@dataclass
class Param:
    name: str
    annotation: Optional[ast.AST]
    has_default: bool
    default: Optional[ast.AST] = None
    kind: str = "pos"  # pos | kwonly | vararg | kwarg


@dataclass
class FuncInfo:
    name: str
    qualname: str  # module.Class.name or module.name
    module: str
    cls: Optional[str]  # qualified class name
    node: ast.AST  # FunctionDef or Lambda
    params: List[Param] = field(default_factory=list)
    decorators: List[ast.AST] = field(default_factory=list)
    static_argnums: Optional[Tuple[int, ...]] = None  # positions incl. self
    static_unknown: bool = False  # jit with a static specification that is not a literal / module constant
    is_jit: bool = False
    is_abstract: bool = False
    is_classmethod: bool = False
    is_staticmethod: bool = False
    is_custom_jvp: bool = False
    dispatch_of: Optional[str] = None  # registered implementation of this method
    dispatch_type: Optional[str] = None  # 'list' | 'jax.Array' ...
    is_dispatch_base: bool = False
    forwards_to: Optional[str] = None  # the private function this one's body was taken from (forwarding stub)

    @property
    def lineno(self) -> int:
        return getattr(self.node, "lineno", 0)

    def pos_params(self) -> List[Param]:
        return [p for p in self.params if p.kind == "pos"]

    def body(self) -> List[ast.stmt]:
        if isinstance(self.node, ast.Lambda):
            return [ast.Return(value=self.node.body)]
        return list(self.node.body)

    def real_body(self) -> List[ast.stmt]:
        """Body without the docstring."""
        b = self.body()
        if (
            b
            and isinstance(b[0], ast.Expr)
            and isinstance(b[0].value, ast.Constant)
            and isinstance(b[0].value.value, str)
        ):
            return b[1:]
        return b

    def is_refusal(self) -> bool:
        """Body is only `raise NotImplementedError(...)` (an explicit refusal)."""
        b = [st for st in self.real_body() if not isinstance(st, ast.Pass)]
        if len(b) != 1 or not isinstance(b[0], ast.Raise):
            return False
        exc = b[0].exc
        if isinstance(exc, ast.Call):
            exc = exc.func
        return isinstance(exc, ast.Name) and exc.id == "NotImplementedError"

    def is_empty(self) -> bool:
        b = self.real_body()
        return all(isinstance(s, ast.Pass) for s in b)

    def alias_stores(self) -> List[Tuple[int, str, str]]:
        """Subscript stores through a local name that is a second reference to a mutable object held elsewhere:
             t = obj.field / t = other / for t in (a.x, a.y):   ...   t[k] = v
        The value graph gives every variable its own value, so the store is not seen through the other reference
        (obj.field[k] still has its old value there).  Listed as (line, name, what it refers to); a rule that finds a
        violation in such a function cannot tell a defect from this loss of precision."""
        c = getattr(self, "_alias_stores", None)
        if c is not None:
            return c

        def ref(n):
            if isinstance(n, (ast.Name, ast.Attribute)):
                return not (isinstance(n, ast.Attribute) and not ref(n.value))
            return isinstance(n, ast.Subscript) and isinstance(n.slice, ast.Constant) and ref(n.value)

        binds: Dict[str, List[Tuple[int, Optional[str]]]] = {}
        for n in ast.walk(self.node):
            if isinstance(n, ast.Assign):
                for t in n.targets:
                    for t2 in (t.elts if isinstance(t, (ast.Tuple, ast.List)) else [t]):
                        if isinstance(t2, ast.Name):
                            is_ref = len(n.targets) == 1 and t2 is t and ref(n.value) and not (
                                isinstance(n.value, ast.Name) and n.value.id == t2.id)
                            binds.setdefault(t2.id, []).append((n.lineno, ast.unparse(n.value) if is_ref else None))
            elif isinstance(n, (ast.For, ast.comprehension)) and isinstance(n.target, ast.Name):
                it = n.iter
                is_ref = isinstance(it, (ast.Tuple, ast.List)) and it.elts and all(ref(e) for e in it.elts)
                binds.setdefault(n.target.id, []).append((getattr(n, "lineno", it.lineno), ast.unparse(it) if is_ref else None))
            elif isinstance(n, (ast.AugAssign, ast.AnnAssign)) and isinstance(n.target, ast.Name):
                binds.setdefault(n.target.id, []).append((n.lineno, None))
        out: List[Tuple[int, str, str]] = []
        for n in ast.walk(self.node):
            tg = n.targets if isinstance(n, ast.Assign) else ([n.target] if isinstance(n, ast.AugAssign) else [])
            for t in tg:
                for t2 in (t.elts if isinstance(t, (ast.Tuple, ast.List)) else [t]):
                    if isinstance(t2, ast.Subscript) and isinstance(t2.value, ast.Name) and t2.value.id in binds:
                        prior = [b for b in binds[t2.value.id] if b[0] <= n.lineno]
                        if prior:
                            last = max(prior, key=lambda b: b[0])
                            if last[1] is not None and last[0] < n.lineno + 1:
                                out.append((n.lineno, t2.value.id, last[1]))
        self._alias_stores = out
        return out


@dataclass
class FieldInfo:
    name: str
    annotation: Optional[ast.AST]
    has_default: bool
    default: Optional[ast.AST]
    owner: str


@dataclass
class ClassInfo:
    name: str
    qualname: str
    module: str
    node: ast.ClassDef
    bases: List[str] = field(default_factory=list)  # qualified or external dotted
    decorators: List[str] = field(default_factory=list)
    is_dataclass: bool = False
    is_namedtuple: bool = False
    methods: Dict[str, FuncInfo] = field(default_factory=dict)
    dispatch: Dict[str, List[FuncInfo]] = field(default_factory=dict)
    own_fields: List[FieldInfo] = field(default_factory=list)  # annotated names
    class_attrs: Dict[str, ast.AST] = field(default_factory=dict)
    mro: List[str] = field(default_factory=list)

    @property
    def lineno(self) -> int:
        return self.node.lineno


@dataclass
class ModuleInfo:
    name: str  # short name, e.g. 'propagation'
    path: str
    source: str
    tree: ast.Module
    # alias -> ('module', 'ad_afqmc.sr') | ('name', 'ad_afqmc.wavefunctions', 'wave_function')
    #        | ('ext', 'jax.numpy')
    imports: Dict[str, Tuple] = field(default_factory=dict)
    functions: Dict[str, FuncInfo] = field(default_factory=dict)
    classes: Dict[str, ClassInfo] = field(default_factory=dict)
    rebinds: Dict[str, ast.AST] = field(default_factory=dict)  # module-level name = expr
    constants: Dict[str, ast.AST] = field(default_factory=dict)  # module-level NAME = <literal>, bound exactly once
    dispatch: Dict[str, List["FuncInfo"]] = field(default_factory=dict)  # singledispatch function -> registered implementations


# --------------------------------------------------------------------------


class Program:
    def __init__(self, repo: str, overlay: Optional[Dict[str, str]] = None):
        self.repo = repo
        self.overlay = overlay or {}
        self.modules: Dict[str, ModuleInfo] = {}
        self.classes: Dict[str, ClassInfo] = {}
        self.functions: Dict[str, FuncInfo] = {}
        self._subclasses: Dict[str, Set[str]] = {}
        self._load()
        self._resolve_jit_decorators()
        self._canonical_parameter_names()
        self._inline_scalar_constants()
        self._positionalise_calls()
        self._collapse_forwarders()
        self._expand_wrapping_decorators()
        self._collapse_forwarders()

    # ------------------------------------------------------ keyword calls
    def _positionalise_calls(self):
        """f(a, y=b) -> f(a, b) in the syntax trees of the model, for calls whose callee name denotes package functions
        that all share one positional signature and whose keywords are parameter names of it: the rules that read the
        syntax tree (and the evaluator) then see one spelling of a call.  Only keywords that continue the positional
        prefix are moved.  The source files are not touched; this is a normal form of the model."""
        table: Dict[str, Optional[List[str]]] = {}

        def note(fi: FuncInfo):
            if isinstance(fi.node, ast.Lambda):
                return
            names = [q.name for q in fi.params if q.kind == "pos"]
            if names and names[0] in ("self", "cls") and fi.cls is not None and not fi.is_staticmethod:
                names = names[1:]
            if any(q.kind in ("vararg", "kwarg") for q in fi.params):
                names = None
            if fi.name in table and table[fi.name] != names:
                table[fi.name] = None
            else:
                table.setdefault(fi.name, names)
        for fi in self.functions.values():
            note(fi)
        for ci in self.classes.values():
            for fi in ci.methods.values():
                note(fi)
            if ci.is_dataclass:
                try:
                    fields = [f.name for f in self.dataclass_fields(ci.qualname)]
                except Exception:
                    fields = None
                if ci.name in table and table[ci.name] != fields:
                    table[ci.name] = None
                else:
                    table.setdefault(ci.name, fields)
        for mod in self.modules.values():
            for n in ast.walk(mod.tree):
                if not isinstance(n, ast.Call) or not n.keywords or any(k.arg is None for k in n.keywords) or \
                        any(isinstance(a, ast.Starred) for a in n.args):
                    continue
                nm = n.func.id if isinstance(n.func, ast.Name) else (n.func.attr if isinstance(n.func, ast.Attribute) else None)
                sig = table.get(nm) if nm else None
                if not sig or not all(k.arg in sig for k in n.keywords):
                    continue
                kwd = {k.arg: k.value for k in n.keywords}
                i = len(n.args)
                moved = False
                while i < len(sig) and sig[i] in kwd:
                    n.args.append(kwd.pop(sig[i]))
                    i += 1
                    moved = True
                if moved:
                    n.keywords = [k for k in n.keywords if k.arg in kwd]

    # ------------------------------------------------------ named scalar constants
    def _inline_scalar_constants(self):
        """A module-level name bound exactly once to a number or a string (UP, DN = 0, 1; _IMP_FUN_MIN = 1.0e-3), or imported
        from a module of the package where it is one, is replaced by its value wherever a function reads it and does not
        bind the name itself.  The value graph folds such names anyway; this makes the rules that read the syntax tree
        see `walkers[0]` whether the source says `walkers[0]` or `walkers[UP]`."""
        import copy

        def scalar(v) -> bool:
            return isinstance(v, ast.Constant) and isinstance(v.value, (int, float, complex, str)) and \
                not isinstance(v.value, bool)
        for mod in self.modules.values():
            consts = {k: v for k, v in mod.constants.items() if scalar(v)}
            for alias, imp in mod.imports.items():
                if imp[0] == "name" and imp[1].startswith(PKG + "."):
                    src = self.modules.get(imp[1][len(PKG) + 1:])
                    v = src.constants.get(imp[2]) if src is not None else None
                    if v is not None and scalar(v) and alias not in consts:
                        consts[alias] = v
            if not consts:
                continue

            def bound_in(fn) -> Set[str]:
                out = set()
                a = fn.args
                for x in a.posonlyargs + a.args + a.kwonlyargs + ([a.vararg] if a.vararg else []) + ([a.kwarg] if a.kwarg else []):
                    out.add(x.arg)
                body = [fn.body] if isinstance(fn, ast.Lambda) else fn.body
                for st in body:
                    for n in ast.walk(st):
                        if isinstance(n, ast.Name) and isinstance(n.ctx, (ast.Store, ast.Del)):
                            out.add(n.id)
                        elif isinstance(n, (ast.Global, ast.Nonlocal)):
                            out.update(n.names)
                return out

            def subst(n, live):
                if isinstance(n, (ast.FunctionDef, ast.AsyncFunctionDef, ast.Lambda)):
                    inner = {k: v for k, v in live.items() if k not in bound_in(n)}
                    for f_, val in ast.iter_fields(n):
                        if isinstance(val, list):
                            for i_, ch in enumerate(val):
                                if isinstance(ch, ast.AST):
                                    val[i_] = subst(ch, inner if f_ == "body" else live)
                        elif isinstance(val, ast.AST):
                            setattr(n, f_, subst(val, inner if f_ == "body" else live))
                    return n
                if isinstance(n, ast.Name) and isinstance(n.ctx, ast.Load) and n.id in live:
                    return ast.copy_location(copy.deepcopy(live[n.id]), n)
                for f_, val in ast.iter_fields(n):
                    if isinstance(val, list):
                        for i_, ch in enumerate(val):
                            if isinstance(ch, ast.AST):
                                val[i_] = subst(ch, live)
                    elif isinstance(val, ast.AST):
                        setattr(n, f_, subst(val, live))
                return n
            for node in mod.tree.body:
                if isinstance(node, (ast.FunctionDef, ast.AsyncFunctionDef, ast.ClassDef)):
                    subst(node, consts)
            # class-level bindings recorded when the classes were loaded:  _occupation = _CLOSED_SHELL_OCCUPATION
            for ci in self.classes.values():
                if ci.module != mod.name:
                    continue
                for k_, v_ in list(getattr(ci, "class_attrs", {}).items()):
                    if isinstance(v_, ast.Name) and v_.id in consts:
                        ci.class_attrs[k_] = copy.deepcopy(consts[v_.id])

    # ------------------------------------------------------ parameter names of the pinned tree
    def _canonical_parameter_names(self):
        """The rules name the arguments of the library's functions as the pinned tree does (param_names.json).  A function
        whose parameters were renamed -- same count, other names -- gets them renamed back here, in its signature, in its body
        (closures included) and at the package's keyword call sites: alpha-renaming, nothing else.  A function is left as it
        is when its parameter count changed, when it is new, or when a canonical name is already used for something else in
        its body."""
        if os.environ.get("AFQMC_LINT_NO_PARAM_CANON"):
            return
        path = os.path.join(os.path.dirname(os.path.abspath(__file__)), "param_names.json")
        try:
            table = json.load(open(path))
        except (OSError, ValueError):
            return
        by_name: Dict[str, Set[Tuple[str, ...]]] = {}
        for q_, names_ in table.items():
            by_name.setdefault(q_.rsplit(".", 1)[-1], set()).add(tuple(names_))
        renamed: Dict[str, List[Dict[str, str]]] = {}      # function name -> mappings old -> canonical
        seen_nodes = set()
        for fi in list(self.functions.values()) + [m for c in self.classes.values() for m in c.methods.values()]:
            node = fi.node
            if isinstance(node, ast.Lambda) or id(node) in seen_nodes:
                continue
            seen_nodes.add(id(node))
            cur = [q.name for q in fi.params]
            want = table.get(fi.qualname)
            if want is None or len(want) != len(cur):
                fam = [t for t in by_name.get(fi.name, ()) if len(t) == len(cur)]
                want = list(fam[0]) if len(fam) == 1 else None
            if want is None or list(want) == cur:
                continue
            mapping = {a: b for a, b in zip(cur, want) if a != b}
            if set(mapping.values()) & (set(cur) - set(mapping)):
                continue
            if any(a in want for a in mapping) or any(b in cur for b in mapping.values()):
                continue          # pinned names at other positions: the parameters were re-ordered, not renamed
            used = {n.id for n in ast.walk(node) if isinstance(n, ast.Name)} | \
                {a.arg for n in ast.walk(node) if isinstance(n, (ast.FunctionDef, ast.AsyncFunctionDef, ast.Lambda))
                 for a in n.args.posonlyargs + n.args.args + n.args.kwonlyargs}
            if set(mapping.values()) & (used - set(mapping)):
                continue          # the canonical name already means something else here

            def rename(n, live):
                """rename Name / arg occurrences of the keys of `live` below n; a nested scope that binds a name itself keeps it"""
                if isinstance(n, (ast.FunctionDef, ast.AsyncFunctionDef, ast.Lambda)) and n is not node:
                    own = {a.arg for a in n.args.posonlyargs + n.args.args + n.args.kwonlyargs} | \
                        ({n.args.vararg.arg} if n.args.vararg else set()) | ({n.args.kwarg.arg} if n.args.kwarg else set())
                    for d in n.args.defaults + [d for d in n.args.kw_defaults if d is not None]:
                        rename(d, live)
                    for d in getattr(n, "decorator_list", []):
                        rename(d, live)
                    inner = {k: v for k, v in live.items() if k not in own}
                    body = [n.body] if isinstance(n, ast.Lambda) else n.body
                    for st in body:
                        rename(st, inner)
                    return
                if isinstance(n, ast.Name) and n.id in live:
                    n.id = live[n.id]
                for ch in ast.iter_child_nodes(n):
                    rename(ch, live)
            a_ = node.args
            for x in a_.posonlyargs + a_.args + a_.kwonlyargs + ([a_.vararg] if a_.vararg else []) + ([a_.kwarg] if a_.kwarg else []):
                if x.arg in mapping:
                    x.arg = mapping[x.arg]
            for st in node.body:
                rename(st, mapping)
            # static_argnames strings name parameters too
            for d in node.decorator_list:
                if isinstance(d, ast.Call):
                    for kw in d.keywords:
                        if kw.arg == "static_argnames":
                            for c_ in ast.walk(kw.value):
                                if isinstance(c_, ast.Constant) and isinstance(c_.value, str) and c_.value in mapping:
                                    c_.value = mapping[c_.value]
            for q in fi.params:
                if q.name in mapping:
                    q.name = mapping[q.name]
            renamed.setdefault(fi.name, []).append(mapping)
        if not renamed:
            return
        # keyword call sites of the renamed functions (by name; only when every renamed definition of that name agrees)
        agreed = {}
        for nm, maps in renamed.items():
            merged: Dict[str, str] = {}
            ok = True
            for m_ in maps:
                for k, v in m_.items():
                    if merged.get(k, v) != v:
                        ok = False
                    merged[k] = v
            if ok:
                agreed[nm] = merged
        for mod in self.modules.values():
            for n in ast.walk(mod.tree):
                if not isinstance(n, ast.Call) or not n.keywords:
                    continue
                tgt = n.func
                if isinstance(tgt, (ast.Name, ast.Attribute)) and (dotted(tgt) or "").split(".")[-1] == "partial" and n.args:
                    tgt = n.args[0]
                nm = tgt.id if isinstance(tgt, ast.Name) else tgt.attr if isinstance(tgt, ast.Attribute) else None
                mp = agreed.get(nm)
                if mp:
                    for k in n.keywords:
                        if k.arg in mp:
                            k.arg = mp[k.arg]

    # ------------------------------------------------------ jit decorators written indirectly
    def _resolve_jit_decorators(self):
        """`static_argnames=(...)` (names -> positions), static specifications held in a module-level constant, and a
        module-level alias of the decorator itself (`_jit_method = partial(jit, static_argnames=("self",))`, used as
        `@_jit_method`) mean the same as the literal `@partial(jit, static_argnums=...)`."""
        def const_value(mod: ModuleInfo, node: ast.AST) -> ast.AST:
            seen = 0
            while isinstance(node, ast.Name) and seen < 4:
                nxt = mod.constants.get(node.id) or mod.rebinds.get(node.id)
                if nxt is None:
                    break
                node, seen = nxt, seen + 1
            return node

        def str_tuple(node: ast.AST) -> Optional[Tuple[str, ...]]:
            if isinstance(node, ast.Constant) and isinstance(node.value, str):
                return (node.value,)
            if isinstance(node, (ast.Tuple, ast.List)) and all(isinstance(e, ast.Constant) and isinstance(e.value, str)
                                                               for e in node.elts):
                return tuple(e.value for e in node.elts)
            return None
        for mod in self.modules.values():
            fis = list(mod.functions.values()) + [m for c in self.classes.values() if c.module == mod.name
                                                  for m in c.methods.values()]
            for fi in fis:
                if isinstance(fi.node, ast.Lambda):
                    continue
                for d in fi.node.decorator_list:
                    d0 = d
                    if isinstance(d, ast.Name):
                        d = const_value(mod, d)
                    if not (isinstance(d, ast.Call) and dotted(d.func) in ("partial", "functools.partial") and d.args
                            and dotted(d.args[0]) in ("jit", "jax.jit")) and not (
                            isinstance(d, ast.Call) and dotted(d.func) in ("jit", "jax.jit")):
                        if d0 is not d and dotted(d) in ("jit", "jax.jit"):
                            fi.is_jit = True
                            fi.static_argnums = fi.static_argnums or ()
                        continue
                    nums: List[int] = []
                    unknown = False
                    for kw in d.keywords:
                        if kw.arg == "static_argnums":
                            t = int_tuple(const_value(mod, kw.value))
                            if t is None:
                                unknown = True
                            else:
                                nums.extend(t)
                        elif kw.arg == "static_argnames":
                            t2 = str_tuple(const_value(mod, kw.value))
                            if t2 is None:
                                unknown = True
                            else:
                                names = [q.name for q in fi.params if q.kind == "pos"]
                                for nm in t2:
                                    if nm in names:
                                        nums.append(names.index(nm))
                                    elif not any(q.name == nm for q in fi.params):
                                        nums.append(10 ** 6)       # names no parameter: reported as out of range by BIND-2
                    fi.is_jit = True
                    if unknown:
                        # the specification is computed at import time: not modelled, nothing is claimed about it
                        fi.static_argnums = None
                        fi.static_unknown = True
                    else:
                        fi.static_argnums = tuple(sorted(set(nums)))

    # ------------------------------------------------------ wrapping decorators
    def _expand_wrapping_decorators(self):
        """@deco def m(self, ...) where deco is a function of this package of the textbook form

               def deco(f):
                   @wraps(f)
                   def wrapper(self, a, b): <before>; r = f(self, a, b); <after>; return r
                   return wrapper

        The name m then denotes `wrapper` with f bound to the undecorated m.  The model is rewritten to say so directly:
        the undecorated function is kept as the private `_m__undecorated`, and m gets wrapper's signature and body with
        every f(self, ...) turned into self._m__undecorated(...).  Any other decorator shape is left alone (the
        decorated function is then read as written)."""
        import copy

        def wrapper_of(mod: ModuleInfo, d: ast.AST):
            if not isinstance(d, ast.Name):
                return None
            r = self.resolve_name(mod, d.id)
            if not r or r[0] != "func":
                return None
            D = self.functions.get(r[1])
            if D is None or D.cls is not None or len(D.params) != 1 or D.params[0].kind != "pos":
                return None
            body = [st_ for st_ in D.real_body() if not isinstance(st_, ast.Pass) and not (
                isinstance(st_, ast.Expr) and isinstance(st_.value, ast.Constant))]
            if len(body) != 2 or not isinstance(body[0], ast.FunctionDef) or not isinstance(body[1], ast.Return) or \
                    not isinstance(body[1].value, ast.Name) or body[1].value.id != body[0].name:
                return None
            W = body[0]
            fname = D.params[0].name
            for wd in W.decorator_list:
                ok = isinstance(wd, ast.Call) and (dotted(wd.func) or "").split(".")[-1] == "wraps" and \
                    len(wd.args) == 1 and isinstance(wd.args[0], ast.Name) and wd.args[0].id == fname
                if not ok:
                    return None
            if W.args.vararg or W.args.kwarg:
                return None
            return D, W, fname

        for mod in self.modules.values():
            owners = [(None, mod.functions)] + [(ci, ci.methods) for ci in self.classes.values() if ci.module == mod.name]
            for ci, table in owners:
                for name, fi in list(table.items()):
                    if isinstance(fi.node, ast.Lambda) or not fi.decorators or fi.dispatch_of is not None:
                        continue
                    hit = None
                    for k, d in enumerate(fi.node.decorator_list):
                        w = wrapper_of(mod, d)
                        if w is not None:
                            hit = (k, w)
                            break
                    if hit is None:
                        continue
                    k, (D, W, fname) = hit
                    is_method = ci is not None and not fi.is_staticmethod
                    wparams = [a.arg for a in list(W.args.posonlyargs) + list(W.args.args)]
                    if is_method and not wparams:
                        continue
                    recv = wparams[0] if is_method else None
                    hidden_name = "_" + name.lstrip("_") + "__undecorated"
                    if hidden_name in table:
                        continue
                    # every use of f inside the wrapper must be a call f(recv, ...)
                    uses_ok = True
                    for n_ in ast.walk(W):
                        if isinstance(n_, ast.Name) and n_.id == fname:
                            uses_ok = uses_ok and isinstance(getattr(n_, "ctx", None), ast.Load)
                    calls = [n_ for n_ in ast.walk(W) if isinstance(n_, ast.Call) and isinstance(n_.func, ast.Name)
                             and n_.func.id == fname]
                    n_names = sum(1 for n_ in ast.walk(W) if isinstance(n_, ast.Name) and n_.id == fname)
                    n_deco = sum(1 for wd in W.decorator_list for n_ in ast.walk(wd) if isinstance(n_, ast.Name) and n_.id == fname)
                    if not uses_ok or len(calls) != n_names - n_deco or not calls:
                        continue
                    if is_method and not all(c.args and isinstance(c.args[0], ast.Name) and c.args[0].id == recv
                                             for c in calls):
                        continue

                    class Rw(ast.NodeTransformer):
                        def visit_Call(self, n):
                            self.generic_visit(n)
                            if isinstance(n.func, ast.Name) and n.func.id == fname:
                                if is_method:
                                    f2 = ast.Attribute(value=ast.Name(id=recv, ctx=ast.Load()), attr=hidden_name, ctx=ast.Load())
                                    n2 = ast.Call(func=f2, args=n.args[1:], keywords=n.keywords)
                                else:
                                    n2 = ast.Call(func=ast.Name(id=hidden_name, ctx=ast.Load()), args=n.args, keywords=n.keywords)
                                return ast.copy_location(n2, n)
                            return n
                    hidden = copy.copy(fi.node)
                    hidden.name = hidden_name
                    hidden.decorator_list = list(fi.node.decorator_list[k + 1:])
                    new = copy.deepcopy(W)
                    new.name = name
                    new.decorator_list = list(fi.node.decorator_list[:k])
                    new = Rw().visit(new)
                    ast.fix_missing_locations(new)
                    new.lineno = fi.node.lineno
                    h_fi = self._make_func(hidden, mod, ci)
                    n_fi = self._make_func(new, mod, ci)
                    n_fi.wrapped_by = D.qualname
                    old_q = fi.qualname
                    table[hidden_name] = h_fi
                    self.functions[h_fi.qualname] = h_fi
                    table[name] = n_fi
                    self.functions[old_q] = n_fi

    # ------------------------------------------------------------- forwarders
    def _collapse_forwarders(self):
        """A function whose whole body is `return <private function of the same class / module>(its own parameters, in
        order)` is a forwarding stub: the behaviour of the name lives in the callee.  The stub's body is replaced by the
        callee's body (parameters renamed by position) so that every rule that reads a function by its public name
        sees what that name computes, wherever a refactoring has parked the statements.  The callee stays in the
        model as the private function it is."""
        import copy

        def forwarded(fi: FuncInfo) -> Optional[FuncInfo]:
            node = fi.node
            if isinstance(node, ast.Lambda) or fi.is_abstract or fi.is_dispatch_base:
                return None
            body = [st for st in fi.real_body() if not isinstance(st, ast.Pass)]
            if len(body) == 2 and isinstance(body[0], ast.Assign) and len(body[0].targets) == 1 and \
                    isinstance(body[0].targets[0], ast.Name) and isinstance(body[0].value, ast.Call) and \
                    isinstance(body[1], ast.Return) and isinstance(body[1].value, ast.Name) and \
                    body[1].value.id == body[0].targets[0].id:
                body = [ast.Return(value=body[0].value)]            # r = callee(...); return r
            if len(body) != 1 or not isinstance(body[0], ast.Return) or not isinstance(body[0].value, ast.Call):
                return None
            c = body[0].value
            if c.keywords or any(isinstance(a, ast.Starred) for a in c.args):
                return None
            own = [p_.name for p_ in fi.params if p_.kind == "pos"]
            if len(own) != len(fi.params):
                return None
            callee = None
            if fi.cls is not None and isinstance(c.func, ast.Attribute) and isinstance(c.func.value, ast.Name) and \
                    own and c.func.value.id == own[0] and not fi.is_staticmethod and not fi.is_classmethod:
                ci = self.classes.get(fi.cls)
                callee = ci.methods.get(c.func.attr) if ci else None
                passed = own[1:]
            elif fi.cls is None and isinstance(c.func, ast.Name):
                callee = self.modules[fi.module].functions.get(c.func.id)
                passed = own
            else:
                return None
            if callee is None or callee is fi or not callee.name.startswith("_") or callee.name.startswith("__"):
                return None
            if not all(isinstance(a, ast.Name) for a in c.args) or [a.id for a in c.args] != passed:
                return None
            cp = [p_.name for p_ in callee.params if p_.kind == "pos"]
            # the callee may take more than the stub passes, as long as every further parameter has a default (keyword-only
            # tuning constants, optional buffers): those are bound to their defaults
            extra = [p_ for p_ in callee.params if not (p_.kind == "pos" and p_.name in cp[:len(own)])]
            if any(p_.kind not in ("pos", "kwonly") or not p_.has_default or p_.default is None for p_ in extra) or \
                    len(cp) < len(own) or callee.is_abstract or isinstance(callee.node, ast.Lambda):
                return None
            if callee.decorators:
                return None
            if any(isinstance(n, (ast.Yield, ast.YieldFrom)) for n in ast.walk(callee.node)):
                return None
            return callee

        for _round in range(3):
            changed = False
            for fi in list(self.functions.values()) + [m for ci in self.classes.values() for m in ci.methods.values()]:
                callee = forwarded(fi)
                if callee is None:
                    continue
                own = [p_.name for p_ in fi.params]
                cp = [p_.name for p_ in callee.params if p_.kind == "pos"][:len(own)]
                new_body = copy.deepcopy(callee.real_body())
                extra = [p_ for p_ in callee.params if not (p_.kind == "pos" and p_.name in cp)]
                if extra:
                    binds = []
                    for p_ in extra:
                        a_ = ast.Assign(targets=[ast.Name(id=p_.name, ctx=ast.Store())], value=copy.deepcopy(p_.default))
                        ast.copy_location(a_, callee.node)
                        ast.fix_missing_locations(a_)
                        binds.append(a_)
                    new_body = binds + new_body
                ren = {a: b for a, b in zip(cp, own) if a != b}
                if ren:
                    # parameter names differ: rename (only when the new names do not clash with the callee's locals)
                    local_names = {n.id for st in new_body for n in ast.walk(st) if isinstance(n, ast.Name)}
                    if any(b in local_names and b not in cp for b in ren.values()):
                        continue

                    class R(ast.NodeTransformer):
                        def visit_Name(self, n):
                            if n.id in ren:
                                return ast.copy_location(ast.Name(id=ren[n.id], ctx=n.ctx), n)
                            return n
                    new_body = [R().visit(st) for st in new_body]
                doc = fi.body()[:len(fi.body()) - len(fi.real_body())]
                node = copy.copy(fi.node)
                node.body = doc + new_body
                fi.node = node
                fi.forwards_to = callee.qualname
                changed = True
            if not changed:
                break

    # ------------------------------------------------------------------ load
    def _load(self):
        pkg_dir = os.path.join(self.repo, PKG)
        if not os.path.isdir(pkg_dir):
            raise AnalysisError(f"package directory {pkg_dir} not found")
        names = sorted(
            f[:-3] for f in os.listdir(pkg_dir) if f.endswith(".py") and f != "__init__.py"
        )
        for rel in self.overlay:
            base = os.path.basename(rel)
            if rel.startswith(PKG + "/") and base.endswith(".py") and base[:-3] not in names:
                if base != "__init__.py":
                    names.append(base[:-3])
        for name in names:
            rel = f"{PKG}/{name}.py"
            path = os.path.join(self.repo, rel)
            if rel in self.overlay:
                src = self.overlay[rel]
            else:
                with open(path, "r", encoding="utf-8") as fh:
                    src = fh.read()
            try:
                tree = _desugar_match(ast.parse(src, filename=path))
            except SyntaxError as e:
                raise AnalysisError(f"{rel}: does not parse: {e}")
            mod = ModuleInfo(name=name, path=rel, source=src, tree=tree)
            self.modules[name] = mod
        for mod in self.modules.values():
            self._scan_imports(mod)
        for mod in self.modules.values():
            self._scan_defs(mod)
        for ci in self.classes.values():
            ci.bases = [self._resolve_base(ci, b) for b in ci.node.bases]
        for ci in self.classes.values():
            ci.mro = self._c3(ci.qualname, ())
        for ci in self.classes.values():
            for b in ci.mro[1:]:
                self._subclasses.setdefault(b, set()).add(ci.qualname)

    def _scan_imports(self, mod: ModuleInfo):
        for node in ast.walk(mod.tree):
            if isinstance(node, ast.Import):
                for a in node.names:
                    alias = a.asname or a.name.split(".")[0]
                    target = a.name if a.asname else a.name.split(".")[0]
                    if target.startswith(PKG + "."):
                        mod.imports[alias] = ("module", target)
                    else:
                        mod.imports[alias] = ("ext", target)
            elif isinstance(node, ast.ImportFrom):
                m = node.module or ""
                if getattr(node, "level", 0):
                    m = PKG + ("." + m if m else "")        # from . import x / from .mod import y  (a flat package)
                for a in node.names:
                    alias = a.asname or a.name
                    if m == PKG:
                        mod.imports[alias] = ("module", f"{PKG}.{a.name}")
                    elif m.startswith(PKG + "."):
                        mod.imports[alias] = ("name", m, a.name)
                    else:
                        mod.imports[alias] = ("ext", f"{m}.{a.name}" if m else a.name)

    def _scan_defs(self, mod: ModuleInfo):
        for node in mod.tree.body:
            if isinstance(node, (ast.FunctionDef, ast.AsyncFunctionDef)):
                fi = self._make_func(node, mod, None)
                if fi.dispatch_of is not None and fi.dispatch_of in mod.functions and mod.functions[fi.dispatch_of].is_dispatch_base:
                    # @base.register: an implementation of the module-level singledispatch function `base`
                    fi.qualname = f"{mod.name}.{fi.dispatch_of}[{fi.dispatch_type or len(mod.dispatch.get(fi.dispatch_of, []))}]"
                    mod.dispatch.setdefault(fi.dispatch_of, []).append(fi)
                    self.functions[fi.qualname] = fi
                    continue
                # later definitions shadow earlier ones, as at import time
                mod.functions[fi.name] = fi
                self.functions[fi.qualname] = fi
            elif isinstance(node, ast.ClassDef):
                self._make_class(node, mod)
            elif isinstance(node, ast.Assign) and len(node.targets) == 1:
                t = node.targets[0]
                if isinstance(t, ast.Name):
                    mod.rebinds[t.id] = node.value
                elif isinstance(t, (ast.Tuple, ast.List)) and isinstance(node.value, (ast.Tuple, ast.List)) and \
                        len(t.elts) == len(node.value.elts) and all(isinstance(e_, ast.Name) for e_ in t.elts) and \
                        not any(isinstance(e_, ast.Starred) for e_ in node.value.elts):
                    for e_, v_ in zip(t.elts, node.value.elts):          # UP, DN = 0, 1
                        mod.rebinds[e_.id] = v_
            elif isinstance(node, ast.Assign) and len(node.targets) > 1:
                for t_ in node.targets:                                     # A = B = <value>;  S = (U, D) = (0, 1)
                    if isinstance(t_, ast.Name):
                        mod.rebinds[t_.id] = node.value
                    elif isinstance(t_, (ast.Tuple, ast.List)) and isinstance(node.value, (ast.Tuple, ast.List)) and \
                            len(t_.elts) == len(node.value.elts) and all(isinstance(e_, ast.Name) for e_ in t_.elts):
                        for e_, v_ in zip(t_.elts, node.value.elts):
                            mod.rebinds[e_.id] = v_
            elif isinstance(node, ast.AnnAssign) and isinstance(node.target, ast.Name) and node.value is not None:
                mod.rebinds[node.target.id] = node.value
        # module-level constants: a name bound once, at top level, to a literal (numbers, strings, tuples / dicts of
        # literals) and never declared global or mutated in the module
        counts: Dict[str, int] = {}
        for n_ in ast.walk(mod.tree):
            if isinstance(n_, ast.Name) and isinstance(n_.ctx, (ast.Store, ast.Del)):
                counts[n_.id] = counts.get(n_.id, 0) + 1
            elif isinstance(n_, (ast.Global, ast.Nonlocal)):
                for x_ in n_.names:
                    counts[x_] = counts.get(x_, 0) + 2
            elif isinstance(n_, (ast.Subscript, ast.Attribute)) and isinstance(getattr(n_, "ctx", None), (ast.Store, ast.Del)):
                b_ = n_
                while isinstance(b_, (ast.Subscript, ast.Attribute)):
                    b_ = b_.value
                if isinstance(b_, ast.Name):
                    counts[b_.id] = counts.get(b_.id, 0) + 2
        for nm_, val_ in mod.rebinds.items():
            if counts.get(nm_, 0) != 1:
                continue
            if isinstance(val_, ast.Call) and not any(isinstance(a_, ast.Starred) for a_ in val_.args) and \
                    all(k_.arg is not None for k_ in val_.keywords):
                # NAME = partial(jnp.einsum, "gij,ij->g", optimize="optimal") / itemgetter(0): a function object made
                # from literals and dotted names only, fixed at import
                fn_ = dotted(val_.func)
                r_ = self.resolve_name(mod, fn_) if fn_ else None
                if r_ and r_[0] == "ext" and r_[1] in ("functools.partial", "operator.itemgetter", "operator.attrgetter",
                                                       "jax.vmap", "jax.jit", "jax.checkpoint"):
                    def plain(a_):
                        if dotted(a_) is not None:
                            return True
                        try:
                            ast.literal_eval(a_)
                            return True
                        except Exception:
                            return False
                    self_ref = any(isinstance(x_, ast.Name) and x_.id == nm_ for x_ in ast.walk(val_))
                    if not self_ref and all(plain(a_) for a_ in val_.args) and all(plain(k_.value) for k_ in val_.keywords):
                        mod.constants[nm_] = val_
                continue
            if isinstance(val_, ast.Dict) and val_.keys and all(
                    isinstance(k_, ast.Constant) for k_ in val_.keys) and all(
                    dotted(v_) is not None or isinstance(v_, ast.Constant) for v_ in val_.values) and \
                    any(dotted(v_) is not None for v_ in val_.values):
                # NAME = {"restricted": kernel_a, "unrestricted": kernel_b}: a dispatch table of functions fixed at import
                # (assigned once, never stored into, no mutating method called on it anywhere in the module)
                mutated = any(isinstance(x_, ast.Call) and isinstance(x_.func, ast.Attribute) and
                              isinstance(x_.func.value, ast.Name) and x_.func.value.id == nm_ and
                              x_.func.attr in ("update", "pop", "popitem", "clear", "setdefault", "__setitem__", "__delitem__")
                              for x_ in ast.walk(mod.tree))
                if not mutated and not any(isinstance(x_, ast.Name) and x_.id == nm_ for v_ in val_.values for x_ in ast.walk(v_)):
                    mod.constants[nm_] = val_
                continue
            try:
                lit = ast.literal_eval(val_)
            except Exception:
                continue
            if isinstance(lit, (int, float, complex, str, bytes, tuple, frozenset)) or (isinstance(lit, dict) and lit):
                mod.constants[nm_] = val_
        # a tuple / list display of literals and of names that are constants themselves (SPINS = (UP, DN)) is a constant:
        # the names are replaced by their values
        import copy as _copy
        for _ in range(3):
            grown = False
            for nm_, val_ in mod.rebinds.items():
                if nm_ in mod.constants or counts.get(nm_, 0) != 1 or not isinstance(val_, (ast.Tuple, ast.List)):
                    continue
                names_ = [x_ for x_ in ast.walk(val_) if isinstance(x_, ast.Name)]
                if not names_ or not all(x_.id in mod.constants and x_.id != nm_ for x_ in names_):
                    continue

                class _Sub(ast.NodeTransformer):
                    def visit_Name(self, n_):
                        return ast.copy_location(_copy.deepcopy(mod.constants[n_.id]), n_)
                new_ = _Sub().visit(_copy.deepcopy(val_))
                try:
                    ast.literal_eval(new_)
                except Exception:
                    continue
                ast.fix_missing_locations(new_)
                mod.constants[nm_] = new_
                grown = True
            if not grown:
                break
        # defjvp registrations: @f.defjvp def g(...)
        for fi in list(mod.functions.values()):
            for d in fi.decorators:
                dn = dotted(d)
                if dn and dn.endswith(".defjvp"):
                    tgt = dn[: -len(".defjvp")]
                    if tgt in mod.functions:
                        mod.functions[tgt].is_custom_jvp = True

    def _make_func(self, node, mod: ModuleInfo, cls: Optional[ClassInfo]) -> FuncInfo:
        qual = f"{mod.name}.{cls.name}.{node.name}" if cls else f"{mod.name}.{node.name}"
        fi = FuncInfo(
            name=node.name,
            qualname=qual,
            module=mod.name,
            cls=cls.qualname if cls else None,
            node=node,
            decorators=list(node.decorator_list),
        )
        a = node.args
        pos = list(a.posonlyargs) + list(a.args)
        ndef = len(a.defaults)
        for i, p in enumerate(pos):
            di = i - (len(pos) - ndef)
            fi.params.append(
                Param(
                    p.arg,
                    p.annotation,
                    di >= 0,
                    a.defaults[di] if di >= 0 else None,
                    "pos",
                )
            )
        if a.vararg:
            fi.params.append(Param(a.vararg.arg, a.vararg.annotation, True, None, "vararg"))
        for p, d in zip(a.kwonlyargs, a.kw_defaults):
            fi.params.append(Param(p.arg, p.annotation, d is not None, d, "kwonly"))
        if a.kwarg:
            fi.params.append(Param(a.kwarg.arg, a.kwarg.annotation, True, None, "kwarg"))
        for d in node.decorator_list:
            dn = dotted(d)
            if dn in ("jit", "jax.jit"):
                fi.is_jit = True
                fi.static_argnums = ()
            elif dn in ("abstractmethod", "abc.abstractmethod"):
                fi.is_abstract = True
            elif dn == "classmethod":
                fi.is_classmethod = True
            elif dn == "staticmethod":
                fi.is_staticmethod = True
            elif dn in ("custom_jvp", "jax.custom_jvp"):
                fi.is_custom_jvp = True
            elif dn in ("singledispatchmethod", "functools.singledispatchmethod") or (
                    cls is None and dn in ("singledispatch", "functools.singledispatch")):
                fi.is_dispatch_base = True
            elif isinstance(d, ast.Call):
                fn = dotted(d.func)
                if fn in ("partial", "functools.partial") and d.args:
                    inner = dotted(d.args[0])
                    if inner in ("jit", "jax.jit"):
                        fi.is_jit = True
                        fi.static_argnums = ()
                        for kw in d.keywords:
                            if kw.arg == "static_argnums":
                                t = int_tuple(kw.value)
                                if t is not None:
                                    fi.static_argnums = t      # a non-literal is resolved in _resolve_jit_decorators
            elif isinstance(d, ast.Attribute) and d.attr == "register":
                base = dotted(d.value)
                fi.dispatch_of = base
                first = [p for p in fi.params if p.name not in ("self", "cls")]
                if first and first[0].annotation is not None:
                    fi.dispatch_type = dotted(first[0].annotation) or ast.unparse(
                        first[0].annotation
                    )
        return fi

    def _make_class(self, node: ast.ClassDef, mod: ModuleInfo):
        ci = ClassInfo(
            name=node.name, qualname=f"{mod.name}.{node.name}", module=mod.name, node=node
        )
        for d in node.decorator_list:
            dn = dotted(d.func) if isinstance(d, ast.Call) else dotted(d)
            ci.decorators.append(dn or ast.unparse(d))
            if dn in ("dataclass", "dataclasses.dataclass"):
                ci.is_dataclass = True
        for b in node.bases:
            if (dotted(b) or "").split(".")[-1] == "NamedTuple":
                # class X(NamedTuple): a: T; b: T = d   -- positional fields with a generated constructor, like a dataclass
                ci.is_dataclass = True
                ci.is_namedtuple = True
        n_anon = 0
        for st in node.body:
            if isinstance(st, (ast.FunctionDef, ast.AsyncFunctionDef)):
                fi = self._make_func(st, mod, ci)
                if fi.dispatch_of is not None:
                    n_anon += 1
                    fi.qualname = f"{ci.qualname}.{fi.dispatch_of}[{fi.dispatch_type}]"
                    ci.dispatch.setdefault(fi.dispatch_of, []).append(fi)
                    self.functions[fi.qualname] = fi
                else:
                    ci.methods[fi.name] = fi
                    self.functions[fi.qualname] = fi
            elif isinstance(st, ast.AnnAssign) and isinstance(st.target, ast.Name):
                ci.own_fields.append(
                    FieldInfo(
                        st.target.id, st.annotation, st.value is not None, st.value, ci.qualname
                    )
                )
                if st.value is not None:
                    ci.class_attrs[st.target.id] = st.value
            elif isinstance(st, ast.Assign):
                for t in st.targets:
                    if isinstance(t, ast.Name):
                        ci.class_attrs[t.id] = st.value
        mod.classes[ci.name] = ci
        self.classes[ci.qualname] = ci

    # ------------------------------------------------------- name resolution
    def resolve_name(self, mod: ModuleInfo, name: str):
        """Resolve a dotted name used in module `mod`.

        Returns ('class', qualname) | ('func', qualname) | ('module', short) |
        ('ext', dotted) | None."""
        parts = name.split(".")
        head = parts[0]
        rest = parts[1:]
        if head in mod.classes and not rest:
            return ("class", mod.classes[head].qualname)
        if head in mod.functions and not rest:
            return ("func", mod.functions[head].qualname)
        imp = mod.imports.get(head)
        if imp is None:
            return None
        if imp[0] == "module":
            short = imp[1].split(".", 1)[1]
            target = self.modules.get(short)
            if target is None:
                return ("ext", imp[1] + ("." + ".".join(rest) if rest else ""))
            if not rest:
                return ("module", short)
            return self._resolve_in_module(target, rest)
        if imp[0] == "name":
            short = imp[1].split(".", 1)[1]
            target = self.modules.get(short)
            if target is None:
                return ("ext", f"{imp[1]}.{imp[2]}")
            return self._resolve_in_module(target, [imp[2]] + rest)
        return ("ext", imp[1] + ("." + ".".join(rest) if rest else ""))

    def _resolve_in_module(self, target: ModuleInfo, parts: List[str]):
        head = parts[0]
        if head in target.classes:
            if len(parts) == 1:
                return ("class", target.classes[head].qualname)
            return ("classattr", target.classes[head].qualname, ".".join(parts[1:]))
        if head in target.functions and len(parts) == 1:
            return ("func", target.functions[head].qualname)
        if head in target.imports or head in target.rebinds:
            return self.resolve_name(target, ".".join(parts))
        return None

    def _resolve_base(self, ci: ClassInfo, node: ast.AST) -> str:
        dn = dotted(node)
        if dn is None:
            return ast.unparse(node)
        r = self.resolve_name(self.modules[ci.module], dn)
        if r and r[0] == "class":
            return r[1]
        return dn  # external (ABC, ...)

    def _c3(self, q: str, seen: Tuple[str, ...]) -> List[str]:
        if q in seen:
            raise AnalysisError(f"cyclic inheritance at {q}")
        ci = self.classes.get(q)
        if ci is None:
            return [q]
        seqs = [self._c3(b, seen + (q,)) for b in ci.bases] + [list(ci.bases)]
        res = [q]
        seqs = [list(s) for s in seqs if s]
        while seqs:
            for s in seqs:
                cand = s[0]
                if not any(cand in t[1:] for t in seqs):
                    break
            else:
                raise AnalysisError(f"inconsistent MRO for {q}")
            res.append(cand)
            seqs = [[x for x in s if x != cand] for s in seqs]
            seqs = [s for s in seqs if s]
        return res

    # ---------------------------------------------------------- class queries
    def subclasses(self, q: str, include_self: bool = True) -> List[str]:
        out = sorted(self._subclasses.get(q, ()))
        return ([q] if include_self else []) + out

    def is_abstract_class(self, q: str) -> bool:
        """Has an abstract method not overridden along the MRO, or derives ABC only."""
        return bool(self.abstract_methods(q))

    def abstract_methods(self, q: str) -> List[str]:
        ci = self.classes[q]
        out = []
        seen = set()
        for c in ci.mro:
            cc = self.classes.get(c)
            if cc is None:
                continue
            for name, fi in cc.methods.items():
                if name in seen:
                    continue
                seen.add(name)
                if fi.is_abstract:
                    out.append(name)
        return sorted(out)

    def concrete_subclasses(self, q: str) -> List[str]:
        return [c for c in self.subclasses(q) if not self.abstract_methods(c)]

    def lookup_method(self, q: str, name: str) -> Optional[FuncInfo]:
        ci = self.classes.get(q)
        if ci is None:
            return None
        for c in ci.mro:
            cc = self.classes.get(c)
            if cc is not None and name in cc.methods:
                return cc.methods[name]
        return None

    def lookup_dispatch(self, q: str, name: str) -> List[FuncInfo]:
        """Registered implementations of singledispatchmethod `name` visible from q."""
        ci = self.classes.get(q)
        if ci is None:
            return []
        for c in ci.mro:
            cc = self.classes.get(c)
            if cc is not None and name in cc.methods:
                return list(cc.dispatch.get(name, []))
        return []

    def lookup_class_attr(self, q: str, name: str) -> Optional[ast.AST]:
        ci = self.classes.get(q)
        if ci is None:
            return None
        for c in ci.mro:
            cc = self.classes.get(c)
            if cc is not None and name in cc.class_attrs:
                return cc.class_attrs[name]
        return None

    def dataclass_fields(self, q: str) -> List[FieldInfo]:
        """Ordered init fields under dataclass rules (base dataclasses first,
        redefinition keeps the original position)."""
        ci = self.classes[q]
        order: List[str] = []
        table: Dict[str, FieldInfo] = {}
        for c in reversed(ci.mro):
            cc = self.classes.get(c)
            if cc is None or not cc.is_dataclass:
                continue
            for f in cc.own_fields:
                ann = ast.unparse(f.annotation) if f.annotation is not None else ""
                if ann.startswith("ClassVar") or ann.startswith("typing.ClassVar"):
                    continue
                if f.name not in table:
                    order.append(f.name)
                table[f.name] = f
        return [table[n] for n in order]

    def init_signature(self, q: str) -> "FuncInfo":
        """The constructor that `q(...)` binds against: an explicit __init__ or the
        one a dataclass decorator generates (first along the MRO)."""
        ci = self.classes[q]
        for c in ci.mro:
            cc = self.classes.get(c)
            if cc is None:
                continue
            if "__init__" in cc.methods:
                return cc.methods["__init__"]
            if cc.is_dataclass:
                fi = FuncInfo(name="__init__", qualname=f"{c}.__init__<dataclass>", module=cc.module,
                              cls=c, node=cc.node)
                fi.params = [Param("self", None, False)] + [
                    Param(f.name, f.annotation, f.has_default, f.default)
                    for f in self.dataclass_fields(c)
                ]
                return fi
        fi = FuncInfo(name="__init__", qualname=f"{q}.__init__<object>", module=ci.module, cls=q,
                      node=ci.node)
        fi.params = [Param("self", None, False)]
        return fi

    def has_hash(self, q: str) -> Tuple[bool, str]:
        """Is an instance of q hashable under Python/dataclass rules?"""
        ci = self.classes[q]
        for c in ci.mro:
            cc = self.classes.get(c)
            if cc is None:
                continue
            if "__hash__" in cc.methods:
                return True, f"__hash__ defined in {c}"
            if "__hash__" in cc.class_attrs:
                v = cc.class_attrs["__hash__"]
                if isinstance(v, ast.Constant) and v.value is None:
                    return False, f"__hash__ = None in {c}"
                return True, f"__hash__ assigned in {c}"
            if cc.is_dataclass:
                # dataclass(eq=True) without explicit __hash__ sets __hash__ = None
                eq, frozen, unsafe = True, False, False
                for d in cc.node.decorator_list:
                    if isinstance(d, ast.Call):
                        for kw in d.keywords:
                            v = const_value(kw.value)
                            if kw.arg == "eq":
                                eq = bool(v)
                            elif kw.arg == "frozen":
                                frozen = bool(v)
                            elif kw.arg == "unsafe_hash":
                                unsafe = bool(v)
                if unsafe or (eq and frozen):
                    return True, f"dataclass-generated __hash__ in {c}"
                if eq:
                    return False, f"@dataclass(eq=True) in {c} sets __hash__ = None"
            if "__eq__" in cc.methods:
                return False, f"__eq__ without __hash__ in {c}"
        return True, "object.__hash__"

    # --------------------------------------------------------- type resolution
    def annotation_class(self, mod: ModuleInfo, ann: Optional[ast.AST]) -> Optional[str]:
        """Class qualname named by an annotation expression (None if not in-package)."""
        if ann is None:
            return None
        if isinstance(ann, ast.Constant) and isinstance(ann.value, str):
            try:
                ann = ast.parse(ann.value, mode="eval").body
            except SyntaxError:
                return None
        dn = dotted(ann)
        if dn is None:
            return None
        r = self.resolve_name(mod, dn)
        if r and r[0] == "class":
            return r[1]
        return None

    def iter_functions(self) -> Iterable[FuncInfo]:
        return self.functions.values()

    def func(self, qual: str) -> FuncInfo:
        fi = self.functions.get(qual)
        if fi is None and qual.count(".") >= 2:
            # module.Class.method: the implementation the class resolves the name to (its own, or one inherited from a
            # base class or a mixin it was moved to)
            cq, meth = qual.rsplit(".", 1)
            if cq in self.classes:
                fi = self.lookup_method(cq, meth)
        if fi is None and qual.count(".") == 1:
            # module.name where the module now imports the function from another module of the package (moved and
            # re-exported under its old name)
            mn, nm = qual.split(".")
            m_ = self.modules.get(mn)
            if m_ is not None and (nm in m_.imports or nm in m_.rebinds):
                try:
                    r_ = self._resolve_in_module(m_, [nm])
                except Exception:
                    r_ = None
                if r_ is not None and r_[0] == "func":
                    fi = self.functions.get(r_[1])
        if fi is None:
            raise AnalysisError(f"anchor function {qual} not found")
        return fi

    def cls(self, qual: str) -> ClassInfo:
        ci = self.classes.get(qual)
        if ci is None:
            raise AnalysisError(f"anchor class {qual} not found")
        return ci

    def module(self, name: str) -> ModuleInfo:
        m = self.modules.get(name)
        if m is None:
            raise AnalysisError(f"anchor module {name} not found")
        return m

    def stats(self) -> dict:
        return {
            "modules": len(self.modules),
            "classes": len(self.classes),
            "functions": len(self.functions),
        }


# --------------------------------------------------------------------------
# generic call-site binding


def bind_call(fi: FuncInfo, n_pos: int, kw_names: Sequence[str], bound_self: bool,
              has_star: bool = False, has_dstar: bool = False):
    """Bind a call with n_pos positional arguments and keyword names to fi.

    Returns (ok, message, mapping) where mapping is {param_name: ('pos', i) | ('kw', name)}.
    """
    params = fi.params
    pos_params = [p for p in params if p.kind == "pos"]
    if bound_self and pos_params and not fi.is_staticmethod:
        pos_params = pos_params[1:]
    vararg = any(p.kind == "vararg" for p in params)
    kwarg = any(p.kind == "kwarg" for p in params)
    kwonly = [p for p in params if p.kind == "kwonly"]
    mapping: Dict[str, Tuple] = {}
    if n_pos > len(pos_params) and not vararg:
        return (
            False,
            f"{n_pos} positional argument(s) for {len(pos_params)} parameter(s) "
            f"({', '.join(p.name for p in pos_params)})",
            mapping,
        )
    for i in range(min(n_pos, len(pos_params))):
        mapping[pos_params[i].name] = ("pos", i)
    names = {p.name for p in pos_params} | {p.name for p in kwonly}
    for k in kw_names:
        if k in mapping:
            return False, f"parameter '{k}' given positionally and by keyword", mapping
        if k not in names:
            if kwarg:
                continue
            return False, f"unexpected keyword argument '{k}'", mapping
        mapping[k] = ("kw", k)
    if has_star or has_dstar:
        return True, "star-args: arity not checked", mapping
    missing = [
        p.name for p in pos_params + kwonly if p.name not in mapping and not p.has_default
    ]
    if missing:
        return False, f"missing required argument(s): {', '.join(missing)}", mapping
    return True, "", mapping
