"""PRNG-1, DET-1, WMEAN-1 and small shared def-use rules."""

from __future__ import annotations

from typing import Dict, Iterable, List, Optional, Set, Tuple

from ..model import AnalysisError, FuncInfo, Program
from ..symex import (T, Evaluator, array_fn, call_parts, const, func_name, getitem, is_const, mk,
                     show, strip_wrappers, subterms, sym)
from .match import m_arrcall, m_binop, m_method, product_factors

SAMPLERS = {"jax.random.normal", "jax.random.uniform", "jax.random.bernoulli",
            "jax.random.choice", "jax.random.randint", "jax.random.categorical",
            "jax.random.exponential", "jax.random.gumbel", "jax.random.permutation"}


def eval_with_terms(p: Program, fi: FuncInfo, inline=None, self_class=None) -> Tuple[Evaluator, object]:
    ev = Evaluator(p)
    ev.open_transforms = True
    ev.record_terms = []
    ev.auto_inline_helpers = True      # private helpers no rule names are evaluated in place
    if inline is not None:
        ev.inline_policy = inline
    fr = ev.eval_function(fi, self_class=self_class)
    return ev, fr


def all_terms(ev: Evaluator) -> List[T]:
    seen = set()
    out = []
    for t, _, _ in ev.record_terms or []:
        for x in subterms(t, seen):
            out.append(x)
    for e in ev.events:
        if e.kind in ("store",):
            for x in subterms(e.data[2], seen):
                out.append(x)
    return out


def parents_map(terms: Iterable[T]) -> Dict[int, List[T]]:
    par: Dict[int, List[T]] = {}
    for t in terms:
        for a in t.args:
            if isinstance(a, T):
                par.setdefault(a.uid, []).append(t)
    return par


def prng1(ctx, fi: FuncInfo, rule: str = "PRNG-1", self_class=None, inline=None) -> int:
    """Key linearity in one function: every random.split(K) stores its first result back to
    where K was read, hands its second result to exactly one sampler call, and K is not used
    again."""
    ev = Evaluator(ctx.p)
    ev.open_transforms = True
    ev.record_terms = []
    ev.auto_inline_helpers = True
    ev.emit_loads = True
    if inline is not None:
        ev.inline_policy = inline
    if self_class is not None:
        ev.exact_types[sym("self")] = self_class        # a public wrapper forwards to the kernel of this very class
    fr = ev.eval_function(fi, self_class=self_class)
    terms = all_terms(ev)
    par = parents_map(terms)
    splits = [t for t in terms if t.op == "call" and func_name(t) == "jax.random.split"]
    n = 0
    for k_ord, s in enumerate(sorted(splits, key=lambda t: ev.line_of.get(t.uid, 0))):
        line = ev.line_of.get(s.uid, fi.lineno)
        _, pos, kws = call_parts(s)
        problems = []
        num = kws.get("num", pos[1] if len(pos) > 1 else None)
        if num is not None and not (num.op == "const" and num.args[0] == 2):
            # a key fanned out into a data-dependent number of sub-keys: linearity of this split is not modelled
            ctx.rep.note(f"{fi.qualname}:{line} random.split with num != 2: linearity rule (PRNG-1) not applicable to this split")
            continue
        if not pos or set(kws) - {"num"}:
            raise AnalysisError(f"{fi.qualname}:{line} unmodelled random.split call")
        K = pos[0]
        new_key = getitem(s, const(0))
        subkey = getitem(s, const(1))
        # (a) first result stored back to K's slot
        stored = False
        # the slot K was read from: the key of the dict load that produced it (the value term itself may be an earlier
        # split's result when nothing opaque lies between the two statements)
        slots = {e.data[1] for e in ev.events if e.kind == "load" and e.data[2] is K and isinstance(e.data[1], str)}
        for e in ev.events:
            if e.kind == "store" and e.data[2] is new_key:
                if K.op == "getitem" and len(e.data[1]) == 1 and e.data[1][0] is K.args[1]:
                    stored = True
                if len(e.data[1]) == 1 and e.data[1][0].op == "const" and e.data[1][0].args[0] in slots:
                    stored = True
            if e.kind == "assign" and e.data[1] is new_key and K.op == "sym":
                stored = True
        if not stored:
            problems.append("the new key (split[0]) is not stored back to the slot the key was read from")
        # (b) subkey consumed by exactly one sampler
        cons = [q for q in par.get(subkey.uid, [])]
        samplers = [q for q in cons if q.op == "call" and func_name(q) in SAMPLERS
                    and call_parts(q)[1] and call_parts(q)[1][0] is subkey]
        others = [q for q in cons if q not in samplers]
        if len(samplers) != 1:
            problems.append(f"subkey (split[1]) feeds {len(samplers)} sampler call(s); exactly one expected")
        if others:
            problems.append(f"subkey also used by {show(others[0], maxdepth=2)[:80]}")
        # (c) old key not used elsewhere
        kp = [q for q in par.get(K.uid, []) if q is not s and q.op != "setitem"]
        if kp:
            problems.append(f"the consumed key is used again by {show(kp[0], maxdepth=2)[:80]}")
        # (d) split result only projected
        sp = [q for q in par.get(s.uid, []) if not (q.op == "getitem" and q.args[0] is s)]
        if sp:
            problems.append("split result used other than through [0]/[1]")
        n += 1
        ctx.ob(rule, f"{fi.qualname}: random.split #{k_ord} is linear", not problems,
               "; ".join(problems) or "split -> stored key, subkey -> one sampler", fi, line)
    return n


BANNED_PREFIXES = ("numpy.random.", "time.", "random.", "os.urandom", "secrets.", "uuid.",
                   "datetime.")


def det1(ctx, modules: Iterable[str], rule: str = "DET-1") -> int:
    """No wall-clock / global-RNG / hash-order source feeds the sampled computation."""
    from .bind import package_walk

    w = package_walk(ctx.p)
    mods = set(modules)
    n = 0
    hits: Dict[Tuple[str, str], int] = {}
    import ast as _ast
    # functions a class body binds as its __hash__ (`__hash__ = _hash_fields`): hash() inside them is the object hash
    hash_impls = {v.id for c in ctx.p.classes.values() for k_, v in c.class_attrs.items()
                  if k_ == "__hash__" and isinstance(v, _ast.Name)}
    for e, fi in w.sites:
        if w.module_of(e) not in mods:
            continue
        n += 1
        for x in subterms(e.data):
            if x.op == "name":
                nm = x.args[0]
                if nm.startswith(BANNED_PREFIXES) and not nm.startswith("jax."):
                    hits[(fi.qualname if fi else e.frame.label, nm)] = e.line
                if nm in ("builtins.hash", "builtins.id") and fi is not None and fi.name != "__hash__" and \
                        fi.name not in hash_impls:
                    hits[(fi.qualname, nm)] = e.line
    for mname in mods:
        ctx.ob(rule, f"{mname}: no nondeterministic source", not any(
            k for k in hits if k[0].startswith(mname + ".")),
            "; ".join(f"{k[0]} uses {k[1]}" for k in hits if k[0].startswith(mname + "."))
            or "none of numpy.random / time / stdlib random / os.urandom / hash() / id()",
            mod=mname)
    return n


def wmean(t: T) -> Optional[Tuple[bool, str, T, T]]:
    """If t is sum(a * w [* ...]) / sum(w') (or / name bound to sum(w')): returns
    (ok, message, numerator weights candidates.., denominator weight)."""
    t = strip_wrappers(t)
    m = m_binop(t, "/")
    if m is None:
        return None
    num, den = strip_wrappers(m[0]), strip_wrappers(m[1])
    ns = _sum_arg(num)
    ds = _sum_arg(den)
    if ns is None or ds is None:
        return None
    factors = [strip_wrappers(f) for f in product_factors(ns)]
    if len(factors) < 2:
        return None
    d = strip_wrappers(ds)
    ok = any(f is d for f in factors)
    return ok, (f"normalised by sum({show(d, maxdepth=2)[:60]}) which is "
                + ("" if ok else "NOT ") + "one of the factors under the numerator sum"), ns, d


def _sum_arg(t: T) -> Optional[T]:
    a = m_arrcall(t, "sum")
    if a is not None and len(a) >= 1:
        return a[0]
    mm = m_method(t, "sum")
    if mm is not None and not mm[1]:
        return mm[0]
    return None


def sampler_keys(ctx, fi: FuncInfo, rule: str = "PRNG-1") -> int:
    """Every jax.random sampler call in fi draws from a subkey produced by random.split
    (never from a stored key directly)."""
    ev, fr = eval_with_terms(ctx.p, fi)
    n = 0
    seen = set()
    for t in all_terms(ev):
        if t.op == "call" and func_name(t) in SAMPLERS and t.uid not in seen:
            seen.add(t.uid)
            _, pos, kws = call_parts(t)
            key = pos[0] if pos else kws.get("key")
            ok = key is not None and key.op == "getitem" and key.args[0].op == "call" and \
                func_name(key.args[0]) == "jax.random.split" and is_const(key.args[1], 1)
            ctx.ob(rule, f"{fi.qualname}: sampler #{n} draws from a fresh subkey", ok,
                   "key = random.split(...)[1]" if ok else
                   f"{func_name(t)} is keyed by {show(key, maxdepth=2)[:80] if key is not None else '?'}, "
                   f"not by a split subkey (the same numbers are drawn again)", fi,
                   ev.line_of.get(t.uid, fi.lineno))
            n += 1
    return n


def block_estimator_population(p: Program):
    """(ok, message, fi): the block energy of sampler._block_scan averages over the *stored* population weights:
    the weight vector under both sums is the very term returned as prop_data['weights'].  A masked or otherwise
    modified copy makes the normaliser vanish while walkers are alive (0/0 in the population-control shift) and
    changes the documented estimator."""
    fi = p.func("sampling.sampler._block_scan")
    ev = Evaluator(p)
    fr = ev.eval_function(fi)
    R = ev.result(fr)
    if R is None or R.op != "tuple" or len(R.args) != 2:
        raise AnalysisError("_block_scan: unmodelled return")
    be = getitem(R.args[1], const(0))
    bw = strip_wrappers(getitem(R.args[1], const(1)))
    wm = wmean(be)
    if wm is None:
        return False, f"block energy is not a weighted mean: {show(be, maxdepth=3)[:100]}", fi
    ok, msg, ns, d = wm
    stored = strip_wrappers(getitem(R.args[0], const("weights")))
    same = d is stored
    bw_ok = _sum_arg(bw) is not None and strip_wrappers(_sum_arg(bw)) is stored
    shift = strip_wrappers(getitem(R.args[0], const("pop_control_ene_shift")))
    uses = any(x is strip_wrappers(be) for x in subterms(shift))
    return (ok and same and bw_ok and uses,
            ("weights under the sums are the stored prop_data['weights']" if same else
             f"the averaged weights {show(d, maxdepth=2)[:70]} are not the stored population weights")
            + ("" if bw_ok else "; the reported block weight is not their sum")
            + ("" if uses else "; the population-control shift does not use this block energy"), fi)


def m_method_reshape_of(t: T, src: T) -> bool:
    """t is  src.reshape(-1, n, n)  /  jnp.reshape(src, (-1, n, n)): the flat trailing axis of src split into two equal ones"""
    t = strip_wrappers(t)
    dims = None
    if t.op == "call" and t.args[0].op == "attr" and t.args[0].args[1] == "reshape" and t.args[0].args[0] is src:
        dims = call_parts(t)[1]
    elif t.op == "call" and array_fn(t) == "reshape" and call_parts(t)[1] and call_parts(t)[1][0] is src:
        dims = call_parts(t)[1][1:]
    if dims is None:
        return False
    if len(dims) == 1 and dims[0].op in ("tuple", "list"):
        dims = list(dims[0].args)
    return len(dims) == 3 and dims[1] is dims[2]


def per_spin_one_body(ctx, cls: str, bfi, rule: str = "SYM-1") -> int:
    """The builder of an unrestricted propagator stores one half-step one-body propagator per spin sector,
    exp_h1 = [f(h1[0]), f(h1[1])].  Two identical components mean the down sector is propagated with the up-spin
    one-body operator: wrong for every Hamiltonian with a spin-dependent one-body term.  (A restricted builder stores a
    single matrix and is not concerned.)"""
    from ..symex import array_fn as _afn
    ev = Evaluator(ctx.p)
    try:
        R = ev.result(ev.eval_function(bfi, self_class=cls))
    except Exception:
        return 0
    if R is None:
        return 0
    v = strip_wrappers(getitem(R, const("exp_h1")))
    if v.op == "call" and _afn(v) in ("array", "asarray", "stack") and call_parts(v)[1]:
        v = strip_wrappers(call_parts(v)[1][0])
    if v.op not in ("list", "tuple") or len(v.args) != 2:
        return 0
    a, b = strip_wrappers(v.args[0]), strip_wrappers(v.args[1])
    h1 = getitem(sym("ham_data"), const("h1"))
    reads = {x.args[1].args[0] for x in subterms(v) if x.op == "getitem" and x.args[0] is h1 and x.args[1].op == "const"}
    ctx.ob(rule, f"{bfi.qualname}: each spin sector gets the propagator of its own one-body operator", not (a is b),
           f"exp_h1 = [E, E] with E built from h1{sorted(reads)} only: the down determinants are propagated with the up-spin "
           f"one-body term" if a is b else f"components read h1{sorted(reads)}", bfi)
    return 1
