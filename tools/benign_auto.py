#!/venv/bin/python
"""Systematic behaviour-preserving transformations of the whole package, applied as in-memory overlays, against
every check.  Any obligation that fails (or any analysis error) under one of them is a false alarm / robustness
defect of the machinery, never of the repository.

  reformat : every module re-emitted with ast.unparse (layout, comments, line numbers change)
  rename   : every local variable of every function renamed  x -> x_r  (parameters, attributes, globals untouched)
  both     : rename + reformat

usage: tools/benign_auto.py [reformat|rename|both] [Cxx ...]
"""
from __future__ import annotations

import ast
import glob
import os
import sys
from concurrent.futures import ProcessPoolExecutor

VERIF = os.path.dirname(os.path.dirname(os.path.abspath(__file__)))
sys.path.insert(0, VERIF)
os.chdir(VERIF)
REPO = "/repo"


class Renamer(ast.NodeTransformer):
    """Rename the locals of one function (nested functions included unless they rebind the name)."""

    def __init__(self, mapping):
        self.mapping = mapping

    def visit_Name(self, node):
        if node.id in self.mapping:
            return ast.copy_location(ast.Name(id=self.mapping[node.id], ctx=node.ctx), node)
        return node


def own_locals(fn) -> set:
    """Names bound by assignment / for / with / comprehension inside fn (not in nested defs), minus parameters."""
    params = {a.arg for a in fn.args.args + fn.args.kwonlyargs + fn.args.posonlyargs}
    if fn.args.vararg:
        params.add(fn.args.vararg.arg)
    if fn.args.kwarg:
        params.add(fn.args.kwarg.arg)
    bound, banned = set(), set(params)

    def walk(n, top):
        for ch in ast.iter_child_nodes(n):
            if isinstance(ch, (ast.FunctionDef, ast.AsyncFunctionDef, ast.Lambda, ast.ClassDef)):
                # names rebound inside a nested scope must not be renamed at all (shadowing)
                if isinstance(ch, (ast.FunctionDef, ast.AsyncFunctionDef)):
                    banned.add(ch.name)
                    inner = ch.args
                elif isinstance(ch, ast.Lambda):
                    inner = ch.args
                else:
                    inner = None
                if inner is not None:
                    for a in inner.args + inner.kwonlyargs + inner.posonlyargs:
                        banned.add(a.arg)
                for x in ast.walk(ch):
                    if isinstance(x, ast.Name) and isinstance(x.ctx, ast.Store):
                        banned.add(x.id)
                    if isinstance(x, (ast.Global, ast.Nonlocal)):
                        banned.update(x.names)
                continue
            if isinstance(ch, (ast.Global, ast.Nonlocal)):
                banned.update(ch.names)
            if isinstance(ch, ast.Name) and isinstance(ch.ctx, (ast.Store, ast.Del)):
                bound.add(ch.id)
            if isinstance(ch, (ast.Import, ast.ImportFrom)):
                for al in ch.names:
                    banned.add((al.asname or al.name).split(".")[0])
            walk(ch, False)

    walk(fn, True)
    return {b for b in bound - banned if not b.startswith("__")}


def rename_module(src: str) -> str:
    tree = ast.parse(src)
    for node in ast.walk(tree):
        if isinstance(node, (ast.FunctionDef, ast.AsyncFunctionDef)):
            # only outermost functions / methods: nested ones are handled through their parent
            pass
    def top_functions(n):
        for ch in ast.iter_child_nodes(n):
            if isinstance(ch, (ast.FunctionDef, ast.AsyncFunctionDef)):
                yield ch
            elif isinstance(ch, ast.ClassDef):
                yield from top_functions(ch)
    for fn in top_functions(tree):
        loc = own_locals(fn)
        if loc:
            Renamer({x: x + "_r" for x in loc}).visit(fn)
    ast.fix_missing_locations(tree)
    return ast.unparse(tree) + "\n"


class CommuteConst(ast.NodeTransformer):
    """c * x -> x * c  and  c + x -> x + c  (and back) when one operand is a numeric literal: exact in floating point"""

    def visit_BinOp(self, node):
        self.generic_visit(node)
        if isinstance(node.op, (ast.Mult, ast.Add)):
            def num(n):
                return isinstance(n, ast.Constant) and isinstance(n.value, (int, float, complex)) and not isinstance(n.value, bool)
            if num(node.left) != num(node.right):
                node.left, node.right = node.right, node.left
        return node


class AugToAssign(ast.NodeTransformer):
    """x op= y  ->  x = x op y  for plain names and subscripts of jax dict entries (values are rebuilt, not mutated in place:
    restricted to targets that are dictionary entries keyed by a string or plain names not used as numpy buffers elsewhere
    is not decidable here, so only Name targets inside functions decorated with jit / partial(jit) are rewritten)"""

    def __init__(self):
        self.in_jit = 0

    def visit_FunctionDef(self, node):
        jitted = any("jit" in ast.unparse(d) for d in node.decorator_list)
        self.in_jit += jitted
        self.generic_visit(node)
        self.in_jit -= jitted
        return node

    def visit_AugAssign(self, node):
        self.generic_visit(node)
        if self.in_jit and isinstance(node.target, (ast.Name, ast.Subscript)):
            import copy
            load = copy.deepcopy(node.target)
            for n in ast.walk(load):
                if hasattr(n, "ctx"):
                    n.ctx = ast.Load()
            return ast.copy_location(ast.Assign(targets=[node.target], value=ast.BinOp(left=load, op=node.op, right=node.value)), node)
        return node


class ReturnTemp(ast.NodeTransformer):
    """return <expr>  ->  result__ = <expr>; return result__   and a no-op statement at the top of every function"""

    def visit_FunctionDef(self, node):
        self.generic_visit(node)
        new = []
        for st in node.body:
            new.append(st)
        body = []
        first = 1 if (node.body and isinstance(node.body[0], ast.Expr) and isinstance(getattr(node.body[0], "value", None), ast.Constant)
                      and isinstance(node.body[0].value.value, str)) else 0
        for i, st in enumerate(node.body):
            if i == first:
                body.append(ast.Pass())
            body.append(st)
        node.body = body
        return node

    def visit_Return(self, node):
        if node.value is None or isinstance(node.value, (ast.Name, ast.Constant)):
            return node
        tmp = ast.Name(id="result__", ctx=ast.Store())
        return [ast.copy_location(ast.Assign(targets=[tmp], value=node.value), node),
                ast.copy_location(ast.Return(value=ast.Name(id="result__", ctx=ast.Load())), node)]


def transform_module(src: str, kind: str) -> str:
    tree = ast.parse(src)
    tr = {"commute": CommuteConst, "augassign": AugToAssign, "rettemp": ReturnTemp}[kind]()
    tree = tr.visit(tree)
    ast.fix_missing_locations(tree)
    return ast.unparse(tree) + "\n"


def overlays(kind: str):
    ov = {}
    for path in sorted(glob.glob(os.path.join(REPO, "ad_afqmc", "*.py"))):
        src = open(path).read()
        rel = os.path.relpath(path, REPO)
        if kind == "reformat":
            new = ast.unparse(ast.parse(src)) + "\n"
        elif kind == "rename":
            new = rename_module(src)
        elif kind in ("commute", "augassign", "rettemp"):
            new = transform_module(src, kind)
        else:
            new = rename_module(src)
        compile(new, rel, "exec")
        ov[rel] = new
    return ov


_OV = {}


def run_one(args):
    kind, pid = args
    from afqmc_lint.model import AnalysisError
    from afqmc_lint.runner import analyse
    try:
        if kind not in _OV:
            _OV[kind] = overlays(kind)
        rep = analyse(pid, REPO, _OV[kind], "quick")
        bad = [o.key() for o in rep.violations]
        return pid, "violations" if bad else "ok", bad[:6], len(rep.obligations)
    except AnalysisError as e:
        return pid, "analysis-error", [str(e)[:300]], 0
    except Exception as e:  # noqa
        import traceback
        return pid, "crash", [traceback.format_exc(limit=3)[-300:].replace("\n", " | ")], 0


def main():
    ALL = ("reformat", "rename", "commute", "augassign", "rettemp")
    kinds = [a for a in sys.argv[1:] if a in ALL] or list(ALL)
    pids = [a for a in sys.argv[1:] if a.upper().startswith("C") and a[1:].isdigit()] or [f"C{i:02d}" for i in range(1, 21)]
    rc = 0
    for kind in kinds:
        with ProcessPoolExecutor(10) as ex:
            res = list(ex.map(run_one, [(kind, p.upper()) for p in pids]))
        for pid, verdict, detail, n in res:
            if verdict != "ok":
                rc = 1
                print(f"[{kind}] {pid} {verdict}")
                for d in detail:
                    print("     ", d[:300])
        print(f"[{kind}] {sum(1 for r in res if r[1] == 'ok')}/{len(res)} checks silent")
    return rc


if __name__ == "__main__":
    sys.exit(main())
