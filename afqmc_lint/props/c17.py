"""C17 -- Cholesky factorisations: capacity, bounds and pivot pairing (structural clauses)."""

from __future__ import annotations

import ast
from typing import Dict, List, Optional, Tuple

from ..model import AnalysisError, dotted
from ..symex import (Evaluator, array_fn, call_parts, const, func_name, getitem, is_const, match_scan, mk,
                     show, strip_wrappers, subterms, sym)
from ..rules.match import m_arrcall, m_binop

ID = "C17"
EXPLANATION = (
    "CAP-1 (loop-counter interval analysis). pyscf_interface.modified_cholesky: from the while guard "
    "(counter + c) < bound, the single unconditional increment, the buffer allocation and the statements "
    "after the loop, the interval of the returned vector count is derived; it must reach the matrix "
    "dimension (a full-rank input needs that many vectors), every buffer write counter + k must stay "
    "below the number of rows, and no vector may be counted before it is written. linalg_utils."
    "modified_cholesky: rows {0} + {x + 1 : x in arange(nchol_max - 1)} are written and exactly "
    "[:nchol_max] is returned; each iteration reads row x, written one step earlier. PAIR: in all three "
    "routines the diagonal update squares the vector that is being counted, the residual R contracts all "
    "vectors computed so far (slice bound = next write index) with the pivot column, and the new vector "
    "is (M[pivot] - R) / sqrt(residual at that pivot). chunked_cholesky's write is not bounded by its "
    "buffer (it raises IndexError rather than returning a wrong factorisation): reported as a note. "
    "PAIR-4 is decided on the value graph of the loop body (names play no role): pivot = "
    "argmax|residual| over the whole diagonal, the residual is diag - (Mapprox + L[v]^2), the new "
    "vector is (M[pivot] - L[:v+1, pivot] . L[:v+1]) / sqrt(|residual[pivot]|). PURE-1: no "
    "gradient-blocking call inside the differentiable JAX routine. "
    ' PAIR-4 (must pass through): no break / return lies between accumulating vector c into the tested residual (Mapprox += chol_vecs[c] * chol_vecs[c]) and counting it (c += 1); an exit there returns chol_vecs[:c], one vector short of the residual that passed the threshold. '
)
NOT_DECIDED = "reconstruction accuracy, differentiability and the choice of thresholds are numerical."
TECHNIQUE = "static analysis: loop-counter interval analysis and pivot def-use pairing on the three Cholesky routines"


def _names(n) -> set:
    return {x.id for x in ast.walk(n) if isinstance(x, ast.Name)}


def _affine(node, var: str) -> Optional[int]:
    """var + c  ->  c"""
    if isinstance(node, ast.Name) and node.id == var:
        return 0
    if isinstance(node, ast.BinOp) and isinstance(node.op, (ast.Add, ast.Sub)) and \
            isinstance(node.right, ast.Constant) and isinstance(node.right.value, int):
        inner = _affine(node.left, var)
        if inner is not None:
            return inner + (node.right.value if isinstance(node.op, ast.Add) else -node.right.value)
    if isinstance(node, ast.BinOp) and isinstance(node.op, ast.Add) and \
            isinstance(node.left, ast.Constant) and isinstance(node.left.value, int):
        inner = _affine(node.right, var)          # c + var
        if inner is not None:
            return inner + node.left.value
    return None


def _negate(test: ast.AST) -> ast.AST:
    if isinstance(test, ast.UnaryOp) and isinstance(test.op, ast.Not):
        return test.operand
    flip = {ast.Lt: ast.GtE, ast.LtE: ast.Gt, ast.Gt: ast.LtE, ast.GtE: ast.Lt, ast.Eq: ast.NotEq, ast.NotEq: ast.Eq}
    if isinstance(test, ast.Compare) and len(test.ops) == 1 and type(test.ops[0]) in flip:
        return ast.Compare(left=test.left, ops=[flip[type(test.ops[0])]()], comparators=test.comparators)
    return ast.UnaryOp(op=ast.Not(), operand=test)


def _canonical_while(fn_node: ast.AST) -> Optional[ast.AST]:
    """`while True:` whose body starts with guard clauses  `if G_k: return buf[:v + c_k]`  rewritten as the equivalent
        while (not G_1) and (not G_2) ...: <rest of the body>
        if not G_1: v += c_2 - c_1          (two guards: leaving through the second one returns c_2 - c_1 more rows)
        return buf[:v + c_1]
    (the form the repository uses), so that one analysis serves both.  None if the function does not have this shape."""
    import copy
    loops = [n for n in fn_node.body if isinstance(n, ast.While)]
    if len(loops) != 1 or not (isinstance(loops[0].test, ast.Constant) and loops[0].test.value is True) or loops[0].orelse:
        return None
    loop = loops[0]
    body = list(loop.body)
    guards = []
    while body and isinstance(body[0], ast.If) and not body[0].orelse and len(body[0].body) == 1 and \
            isinstance(body[0].body[0], ast.Return) and body[0].body[0].value is not None:
        g = body.pop(0)
        guards.append((g.test, g.body[0].value))
    if not (1 <= len(guards) <= 2) or any(isinstance(n, (ast.Return, ast.Break)) for b in body for n in ast.walk(b)):
        return None
    li = fn_node.body.index(loop)
    if fn_node.body[li + 1:]:
        return None               # code after an endless loop is dead: not the modelled shape

    def rows(expr):
        """(buffer name, counter name, offset) of  buf[:v]  /  buf[:v + c]"""
        if not (isinstance(expr, ast.Subscript) and isinstance(expr.value, ast.Name) and isinstance(expr.slice, ast.Slice)
                and expr.slice.lower is None and expr.slice.step is None):
            return None
        up = expr.slice.upper
        if isinstance(up, ast.Name):
            return expr.value.id, up.id, 0
        if isinstance(up, ast.BinOp) and isinstance(up.op, ast.Add):
            for a_, b_ in ((up.left, up.right), (up.right, up.left)):
                if isinstance(a_, ast.Name) and isinstance(b_, ast.Constant) and isinstance(b_.value, int):
                    return expr.value.id, a_.id, b_.value
        return None
    rs = [rows(r) for _, r in guards]
    if any(r is None for r in rs) or len({(r[0], r[1]) for r in rs}) != 1:
        return None
    buf, v, c1 = rs[0]
    conts = [_negate(g) for g, _ in guards]
    test = conts[0] if len(conts) == 1 else ast.BoolOp(op=ast.And(), values=conts)
    new_loop = ast.While(test=test, body=body, orelse=[])
    tail: List[ast.stmt] = []
    if len(guards) == 2 and rs[1][2] != c1:
        tail.append(ast.If(test=copy.deepcopy(conts[0]), body=[ast.AugAssign(
            target=ast.Name(id=v, ctx=ast.Store()), op=ast.Add(), value=ast.Constant(value=rs[1][2] - c1))], orelse=[]))
    up = ast.Name(id=v, ctx=ast.Load()) if c1 == 0 else ast.BinOp(left=ast.Name(id=v, ctx=ast.Load()), op=ast.Add(),
                                                                 right=ast.Constant(value=c1))
    tail.append(ast.Return(value=ast.Subscript(value=ast.Name(id=buf, ctx=ast.Load()),
                                               slice=ast.Slice(lower=None, upper=up, step=None), ctx=ast.Load())))
    new = copy.copy(fn_node)
    new.body = fn_node.body[:li] + [new_loop] + tail
    for n_ in [new_loop] + tail:
        ast.copy_location(n_, loop)
        ast.fix_missing_locations(n_)
    return new


def numpy_loop(ctx, fi, bounded_expected: bool):
    """Analyse `v = 0; while ...: ...; buf[v+k] = ...; v += 1` ... `return buf[:v]`."""
    node = _canonical_while(fi.node) or fi.node
    q = fi.qualname
    loops = [n for n in node.body if isinstance(n, ast.While)]
    if len(loops) != 1:
        if any(isinstance(n, (ast.For, ast.While)) for n in ast.walk(node)):
            # the iteration is written as another kind of loop (a counted for with a break, ...): the counter /
            # capacity interval argument below is formulated for the while form only
            ctx.rep.note(f"{q}: not a single top-level while loop; the counter / capacity interval argument (CAP-1) is not "
                         f"applicable to this shape of the code")
            return
        raise AnalysisError(f"{q}: expected one top-level while loop")
    if isinstance(loops[0].test, ast.Constant) and loops[0].test.value is True:
        ctx.rep.note(f"{q}: the loop is `while True` with exits this rule does not model; the counter / capacity interval "
                     f"argument (CAP-1) is not applicable to this shape of the code")
        return
    loop = loops[0]
    li = node.body.index(loop)
    # counter: the variable incremented by 1 at the top level of the body
    incs = [st for st in loop.body if isinstance(st, ast.AugAssign) and isinstance(st.op, ast.Add)
            and isinstance(st.target, ast.Name) and isinstance(st.value, ast.Constant) and st.value.value == 1]
    if len(incs) != 1:
        ctx.rep.note(f"{q}: loop counter not recognised in this shape of the code (state kept in a helper object, another counting "
                     f"idiom, ...); the counter / capacity interval argument (CAP-1) is not applied")
        return
    v = incs[0].target.id
    inc_pos = loop.body.index(incs[0])
    # conditional increments anywhere else in the body break the interval argument
    other_inc = [n for n in ast.walk(loop) if isinstance(n, (ast.AugAssign, ast.Assign)) and n is not incs[0]
                 and v in {t.id for t in ast.walk(n.target if isinstance(n, ast.AugAssign) else n.targets[0])
                           if isinstance(t, ast.Name) and isinstance(t.ctx, ast.Store)}]
    init = None
    for st in node.body[:li]:
        if isinstance(st, ast.Assign) and isinstance(st.targets[0], ast.Name) and st.targets[0].id == v \
                and isinstance(st.value, ast.Constant):
            init = st.value.value
    if init != 0 or other_inc:
        ctx.rep.note(f"{q}: counter initialisation / update not of the modelled form in this shape of the code (state kept in a helper object, another counting "
                     f"idiom, ...); the counter / capacity interval argument (CAP-1) is not applied")
        return
    # guard
    conj = loop.test.values if isinstance(loop.test, ast.BoolOp) and isinstance(loop.test.op, ast.And) else [loop.test]
    bound_name, c1 = None, None
    for c in conj:
        if isinstance(c, ast.Compare) and len(c.ops) == 1 and isinstance(c.ops[0], ast.Lt):
            a = _affine(c.left, v)
            if a is not None and isinstance(c.comparators[0], ast.Name):
                bound_name, c1 = c.comparators[0].id, a
    # buffer and its row count
    writes = []
    for st in loop.body:
        if isinstance(st, ast.Assign) and isinstance(st.targets[0], ast.Subscript) and \
                isinstance(st.targets[0].value, ast.Name):
            sl_ = st.targets[0].slice
            if isinstance(sl_, ast.Tuple) and sl_.elts:      # buf[v + 1, cols]: the row index decides the capacity
                sl_ = sl_.elts[0]
            k = _affine(sl_, v)
            if k is not None:
                writes.append((st.targets[0].value.id, k, loop.body.index(st), st))
    if len(writes) != 1:
        ctx.rep.note(f"{q}: buffer write not recognised in this shape of the code (state kept in a helper object, another counting "
                     f"idiom, ...); the counter / capacity interval argument (CAP-1) is not applied")
        return
    buf, c2, wpos, wst = writes[0]
    rows = None
    defs: Dict[str, ast.AST] = {}
    for st in node.body[:li]:
        if isinstance(st, ast.Assign) and isinstance(st.targets[0], ast.Name):
            defs[st.targets[0].id] = st.value
        elif isinstance(st, ast.If) and not st.orelse and isinstance(st.test, ast.Compare) and len(st.test.ops) == 1 and \
                isinstance(st.test.ops[0], ast.Is) and isinstance(st.test.left, ast.Name) and \
                isinstance(st.test.comparators[0], ast.Constant) and st.test.comparators[0].value is None and \
                isinstance(defs.get(st.test.left.id), ast.Constant) and defs[st.test.left.id].value is None and \
                len(st.body) == 1 and isinstance(st.body[0], ast.Assign) and len(st.body[0].targets) == 1 and \
                isinstance(st.body[0].targets[0], ast.Name) and st.body[0].targets[0].id == st.test.left.id:
            # x = None ... if x is None: x = E   (an optional size bound to its default None): x is E
            defs[st.test.left.id] = st.body[0].value
    alloc = defs.get(buf)
    if isinstance(alloc, ast.Call) and (dotted(alloc.func) or "").endswith("zeros") and alloc.args:
        shp = alloc.args[0]
        rows = ast.unparse(shp.elts[0] if isinstance(shp, ast.Tuple) else shp)
    if isinstance(alloc, ast.Call):
        # the vectors are (M[pivot] - R) / sqrt(residual): real numbers whatever the storage type of the input.  A buffer
        # that takes its dtype from the input (dtype=mat.dtype, zeros_like(mat)) truncates them for integer-valued
        # integrals (model Hamiltonians with integer U)
        params_ = {a.arg for a in fi.node.args.args}
        dk = [k.value for k in alloc.keywords if k.arg == "dtype"]
        inherits = [k for k in dk if any(isinstance(n, ast.Name) and n.id in params_ for n in ast.walk(k))]
        like = (dotted(alloc.func) or "").split(".")[-1] in ("zeros_like", "empty_like", "ones_like") and alloc.args and \
            any(isinstance(n, ast.Name) and n.id in params_ for n in ast.walk(alloc.args[0]))
        if dk or like:
            ctx.ob("PAIR-4", f"{q}: the vector buffer has a floating dtype of its own (not the dtype of the input matrix)",
                   not inherits and not like,
                   f"{buf} = {ast.unparse(alloc)[:80]}" + (": an integer-valued input truncates every vector on assignment"
                                                          if inherits or like else ""), fi, getattr(alloc, "lineno", 0))
    pre_write = any(isinstance(st, ast.Assign) and isinstance(st.targets[0], ast.Subscript)
                    and isinstance(st.targets[0].value, ast.Name) and st.targets[0].value.id == buf
                    and (lambda sl: isinstance(sl, ast.Constant) and sl.value == 0)(
                        st.targets[0].slice.elts[0] if isinstance(st.targets[0].slice, ast.Tuple) and
                        st.targets[0].slice.elts else st.targets[0].slice)
                    for st in node.body[:li])
    # statements after the loop
    post_inc = 0
    for st in node.body[li + 1:]:
        if isinstance(st, ast.If):
            for s2 in st.body:
                if isinstance(s2, ast.AugAssign) and isinstance(s2.target, ast.Name) and s2.target.id == v \
                        and isinstance(s2.op, ast.Add) and isinstance(s2.value, ast.Constant):
                    post_inc += s2.value.value
        elif isinstance(st, ast.AugAssign) and isinstance(st.target, ast.Name) and st.target.id == v:
            raise AnalysisError(f"{q}: unconditional counter change after the loop")
    from ..model import returned_values
    ret = [v_ for _, v_ in returned_values(node, top_level_only=True)]
    ret_ok = False
    if ret and isinstance(ret[-1], ast.Subscript) and isinstance(ret[-1].slice, ast.Slice):
        sl = ret[-1].slice
        ret_ok = isinstance(ret[-1].value, ast.Name) and ret[-1].value.id == buf and \
            sl.lower is None and isinstance(sl.upper, ast.Name) and sl.upper.id == v
    ctx.ob("CAP-1", f"{q}: returns the first <counter> rows of the vector buffer", ret_ok,
           f"return {ast.unparse(ret[-1]) if ret else '?'}", fi)
    wrote_before_count = pre_write and wpos < inc_pos and c2 == 1
    ctx.ob("CAP-1", f"{q}: a vector is written before it is counted", wrote_before_count,
           f"row 0 before the loop: {pre_write}; write {buf}[{v}+{c2}] precedes {v} += 1: {wpos < inc_pos}", fi)
    if bound_name is None:
        # no capacity guard at all
        ctx.rep.note(f"{q}: the loop has no guard on the vector count: writes to {buf}[{v}+{c2}] are bounded only by "
                     f"the threshold test (IndexError when the {rows} rows are exhausted, not a wrong result)")
        if bounded_expected:
            ctx.ob("CAP-1", f"{q}: buffer writes are bounded by the buffer", False,
                   f"no `{v} + c < bound` conjunct in the while guard", fi, loop.lineno)
        return
    bdef = defs.get(bound_name)
    bound_is_rows = rows is not None and (rows == bound_name)
    size_chain = ast.unparse(bdef) if bdef is not None else bound_name
    # interval: in the body v <= B - c1 - 1 ; after the loop v <= B - c1 ; returned <= B - c1 + post_inc
    max_write_minus_B = -c1 - 1 + c2            # (B - c1 - 1) + c2 - B
    ctx.ob("CAP-1", f"{q}: every buffer write stays inside the buffer", bound_is_rows and max_write_minus_B <= -1,
           f"guard {v} + {c1} < {bound_name}; write index {v} + {c2} <= {bound_name} {max_write_minus_B:+d}; "
           f"buffer has {rows} rows", fi, wst.lineno)
    max_ret_minus_B = -c1 + post_inc
    # the bound must be the matrix dimension
    dim_ok = False
    cur = bound_name
    for _ in range(4):
        d = defs.get(cur)
        if d is None:
            break
        s_ = ast.unparse(d)
        if s_.endswith(".shape[0]"):
            dim_ok = True
            break
        if isinstance(d, ast.Name):
            cur = d.id
        else:
            break
    ctx.ob("CAP-1", f"{q}: returnable vector count reaches the dimension", dim_ok and max_ret_minus_B >= 0,
           f"count <= {bound_name} {max_ret_minus_B:+d} (guard offset {c1}, post-loop increment {post_inc}); a "
           f"full-rank matrix needs {bound_name} vectors" + ("" if dim_ok else f"; {bound_name} is not mat.shape[0]"),
           fi, loop.lineno)
    ctx.ob("CAP-1", f"{q}: never returns more vectors than were written", post_inc <= 1 and max_ret_minus_B <= 0,
           f"written rows 0..iterations; returned count <= iterations + {post_inc}", fi)


def pivot_pairing(ctx, fi, counter: str = "nchol"):
    """Def-use form of one iteration of the pivoted Cholesky loops (decided on the value graph of the loop body,
    independent of variable names):
        Mapprox' = Mapprox + L[v] * L[v];  delta = diag - Mapprox';  nu = argmax(|delta|)  over the whole diagonal;
        L[v + 1] = (M[nu] - dot(L[:v+1, nu], L[:v+1, :])) / sqrt(|delta[nu]|)."""
    q = fi.qualname
    ev = Evaluator(ctx.p)
    ev.eval_function(fi)
    cand = []
    for e in ev.events:
        if e.kind != "store" or not e.data[1]:
            continue
        k = e.data[1][0]
        if k.op == "tuple" and k.args:
            k = k.args[0]
        m = m_binop(k, "+")
        if m is not None and is_const(m[0], 1) and m[1].op == "havoc":
            m = (m[1], m[0])            # 1 + counter
        if m is not None and is_const(m[1], 1) and m[0].op == "havoc":
            cand.append((e, m[0]))
    if len(cand) != 1:
        ctx.rep.note(f"{q}: the store of the next Cholesky vector (row counter + 1) was not identified ({len(cand)} candidates); "
                     f"the vector-formula rules do not apply to this shape of the loop")
        return
    e, v = cand[0]
    val = strip_wrappers(e.data[2])
    line = e.line
    d = m_binop(val, "/")
    if d is None:
        ctx.ob("PAIR-4", f"{q}: new vector = (M[pivot] - R) / sqrt(residual at the pivot)", False,
               f"stored value is not a quotient: {show(val, maxdepth=2)[:80]}", fi, line)
        return
    num, den = strip_wrappers(d[0]), strip_wrappers(d[1])
    base = None
    pw = m_binop(den, "**")
    if pw is not None and pw[1].op == "const" and pw[1].args[0] == 0.5:
        base = strip_wrappers(pw[0])
    elif m_arrcall(den, "sqrt") is not None:
        base = strip_wrappers(m_arrcall(den, "sqrt")[0])
    ok_sqrt = base is not None
    if base is not None:
        ad = m_binop(base, "+")      # an additive regulariser (+ 1e-10) is allowed, on either side
        if ad is not None and ad[1].op == "const":
            base = strip_wrappers(ad[0])
        elif ad is not None and ad[0].op == "const":
            base = strip_wrappers(ad[1])
    ab = m_arrcall(base, "abs") if base is not None and base.op == "call" else None
    if ab is None and base is not None and base.op == "call" and func_name(base) == "builtins.abs":
        ab = call_parts(base)[1]
    nu = dl = None
    if ab is not None:
        g = strip_wrappers(ab[0])
        if g.op == "getitem":
            dl, nu = strip_wrappers(g.args[0]), g.args[1]
    ctx.ob("PAIR-4", f"{q}: the new vector is normalised by sqrt(|residual diagonal at the pivot|)",
           ok_sqrt and nu is not None, f"denominator {show(den, maxdepth=3)[:80]}", fi, line)
    if nu is None:
        return
    # the pivot maximises |residual| over the whole diagonal, and it is the residual that is normalised with
    am = m_arrcall(strip_wrappers(nu), "argmax")
    arg_abs = None
    if am is not None:
        a0 = strip_wrappers(am[0])
        aa = m_arrcall(a0, "abs") if a0.op == "call" else None
        if aa is None and a0.op == "call" and func_name(a0) == "builtins.abs":
            aa = call_parts(a0)[1]
        arg_abs = strip_wrappers(aa[0]) if aa is not None else None
    ok_piv = am is not None and arg_abs is dl
    ctx.ob("PAIR-4", f"{q}: the pivot maximises |residual diagonal| over all columns", ok_piv,
           f"pivot = {show(strip_wrappers(nu), maxdepth=3)[:90]}" + ("" if ok_piv else
           " (not argmax(abs(.)) of the residual the normalisation reads)"), fi, line)
    # residual = diag - (Mapprox + L[v] * L[v])
    ok_sq, why_sq = False, "residual is not diag - Mapprox"
    r = m_binop(dl, "-")
    if r is not None:
        mp = m_binop(strip_wrappers(r[1]), "+")
        if mp is not None:
            for a_, b_ in ((mp[0], mp[1]), (mp[1], mp[0])):
                pr = m_binop(strip_wrappers(b_), "*")
                if pr is not None and strip_wrappers(a_).op == "havoc":
                    x0, x1 = strip_wrappers(pr[0]), strip_wrappers(pr[1])
                    ok_sq = x0 is x1 and x0.op == "getitem" and x0.args[1] is v and x0.args[0].op == "havoc"
                    why_sq = f"Mapprox + {show(x0, maxdepth=1)[:30]} * {show(x1, maxdepth=1)[:30]}"
    ctx.ob("PAIR-4", f"{q}: the diagonal approximation adds the square of the vector being counted", ok_sq, why_sq,
           fi, line)
    # numerator: M[pivot] - dot(L[:v+1, pivot], L[:v+1, :])
    s_ = m_binop(num, "-")
    ok_m = ok_r = False
    why_r = "numerator is not M[pivot] - R"
    if s_ is not None:
        mrow, R = strip_wrappers(s_[0]), strip_wrappers(s_[1])
        ok_m = any(y is nu for y in subterms(mrow))
        ops = None
        if R.op == "call" and (func_name(R) or "").split(".")[-1] in ("dot", "matmul") and len(call_parts(R)[1]) == 2:
            ops = call_parts(R)[1]
        elif m_binop(R, "@") is not None:
            ops = list(m_binop(R, "@"))
        if ops is not None:
            a_, b_ = strip_wrappers(ops[0]), strip_wrappers(ops[1])

            def is_upto(sl):
                if sl.op == "slice" and is_const(sl.args[0], None):
                    up = m_binop(sl.args[1], "+")
                    return up is not None and ((up[0] is v and is_const(up[1], 1)) or (up[1] is v and is_const(up[0], 1)))
                return False

            def rows_upto(t):
                """L[:v+1, X] / L[:v+1][:, X] / L[:v+1]  ->  (L, X)   (X = a full slice when all columns are taken)"""
                if t.op == "getitem" and t.args[1].op == "tuple" and len(t.args[1].args) == 2:
                    sl, col = t.args[1].args
                    if is_upto(sl):
                        return t.args[0], col
                    inner = strip_wrappers(t.args[0])
                    if sl.op == "slice" and all(is_const(x_, None) for x_ in sl.args) and inner.op == "getitem" and \
                            is_upto(inner.args[1]):
                        return inner.args[0], col
                if t.op == "getitem" and is_upto(t.args[1]):
                    return t.args[0], mk("slice", const(None), const(None), const(None))
                return None

            ra, rb = rows_upto(a_), rows_upto(b_)
            ok_r = ra is not None and rb is not None and ra[0] is rb[0] and ra[0].op == "havoc" and ra[1] is nu
            why_r = f"R = dot({show(a_, maxdepth=2)[:50]}, {show(b_, maxdepth=2)[:50]})"
    ctx.ob("PAIR-4", f"{q}: the residual contracts all vectors computed so far with the pivot column", ok_r, why_r,
           fi, line)
    ctx.ob("PAIR-4", f"{q}: new vector = (M[pivot] - R) / sqrt(residual at the pivot)", ok_m and s_ is not None,
           "the matrix row is selected by the pivot" if ok_m else "the matrix row does not depend on the pivot", fi, line)


def jax_routine(ctx):
    p = ctx.p
    fi = p.func("linalg_utils.modified_cholesky")
    ev = Evaluator(p)
    fr = ev.eval_function(fi)
    R = strip_wrappers(ev.result(fr))
    q = fi.qualname
    nmax = sym("nchol_max")
    ok_ret = R.op == "getitem" and R.args[1].op == "slice" and is_const(R.args[1].args[0], None) and \
        R.args[1].args[1] is nmax
    ctx.ob("CAP-1", f"{q}: returns rows [:nchol_max]", ok_ret, show(R, maxdepth=2)[:80], fi)
    scans = [x for x in subterms(R) if x.op == "call" and match_scan(x) is not None]
    if len(scans) != 1:
        raise AnalysisError(f"{q}: expected one scan")
    f, init, xs, length = match_scan(scans[0])
    ar = m_arrcall(strip_wrappers(xs), "arange")
    ok_xs = False
    if ar is not None and len(ar) == 1:
        m = m_binop(ar[0], "-")
        ok_xs = m is not None and m[0] is nmax and is_const(m[1], 1)
    ctx.ob("CAP-1", f"{q}: the scan runs nchol_max - 1 times", ok_xs, f"xs = {show(xs, maxdepth=3)}", fi)
    # the carry holds the vector buffer and the accumulated diagonal, as a dict or as a tuple: find the component that is a
    # buffer with row 0 written (whatever it is keyed by)
    init_s = strip_wrappers(init)
    keys_ = []
    t_ = init_s
    while t_.op == "setitem":
        if t_.args[1] not in keys_:
            keys_.append(t_.args[1])
        t_ = t_.args[0]
    if init_s.op in ("tuple", "list"):
        keys_ = [const(i) for i in range(len(init_s.args))]
    if init_s.op == "record":
        keys_ = [const(i) for i in range(len(init_s.args) - 1)]
    if init_s.op == "dict":
        keys_ = list(init_s.args[0::2])
    cv_key = None
    for k_ in keys_:
        c0 = strip_wrappers(getitem(init, k_))
        if c0.op == "setitem" and is_const(c0.args[1], 0):
            cv_key = k_
    if cv_key is None:
        cv_key = const("chol_vecs")
    ma_keys = [k_ for k_ in keys_ if k_ is not cv_key]
    ma_key = ma_keys[0] if len(ma_keys) == 1 else const("Mapprox")
    cv0 = strip_wrappers(getitem(init, cv_key))
    ok0 = cv0.op == "setitem" and is_const(cv0.args[1], 0)
    ctx.ob("CAP-1", f"{q}: row 0 is written before the scan", ok0, "chol_vecs.at[0].set(...)" if ok0 else
           show(cv0, maxdepth=2)[:80], fi)
    C, x = sym("§carry"), sym("§x")
    body = ev.open_closure(f, [C, x])
    if body.op != "tuple":
        raise AnalysisError(f"{q}: unmodelled scan body")
    cv = strip_wrappers(getitem(body.args[0], cv_key))
    okw, whyw = False, "body does not write chol_vecs"
    if cv.op == "setitem":
        idx = cv.args[1]
        m = m_binop(idx, "+")
        okw = m is not None and ((m[0] is x and is_const(m[1], 1)) or (m[1] is x and is_const(m[0], 1)))
        whyw = f"writes row {show(idx)}"
    ctx.ob("CAP-1", f"{q}: iteration x writes row x + 1 (rows 1 .. nchol_max - 1)", okw, whyw, fi)
    # reads: Mapprox += chol_vecs[x] * chol_vecs[x]
    ma = strip_wrappers(getitem(body.args[0], ma_key))
    m = m_binop(ma, "+")
    okr = False
    if m is not None:
        pr = m_binop(strip_wrappers(m[1]), "*")
        row = getitem(getitem(C, cv_key), x)
        okr = pr is not None and pr[0] is row and pr[1] is row
    ctx.ob("PAIR-4", f"{q}: the diagonal approximation adds the square of row x (written one step earlier)", okr,
           "Mapprox += L[x] * L[x]" if okr else show(ma, maxdepth=3)[:100], fi)
    # new row = (mat[nu] - R) / delta_max ** 0.5 with nu = argmax(abs(diag - Mapprox')), delta_max = abs(delta[nu])
    okn, whyn = False, ""
    if cv.op == "setitem":
        val = strip_wrappers(cv.args[2])
        d = m_binop(val, "/")
        if d is not None:
            num, den = strip_wrappers(d[0]), strip_wrappers(d[1])
            pw = m_binop(den, "**")
            s_ = m_binop(num, "-")
            if pw is not None and s_ is not None and pw[1].op == "const" and pw[1].args[0] == 0.5:
                dmax = strip_wrappers(pw[0])
                ab = m_arrcall(dmax, "abs")
                mrow = strip_wrappers(s_[0])
                if ab is not None and mrow.op == "getitem" and mrow.args[0] is sym("mat"):
                    nu = mrow.args[1]
                    dl = strip_wrappers(ab[0])
                    am = m_arrcall(strip_wrappers(nu), "argmax")
                    same_piv = dl.op == "getitem" and dl.args[1] is nu
                    piv_abs = am is not None and m_arrcall(strip_wrappers(am[0]), "abs") is not None and \
                        strip_wrappers(m_arrcall(strip_wrappers(am[0]), "abs")[0]) is strip_wrappers(dl.args[0])
                    rr = strip_wrappers(s_[1])
                    col_ok = any(t.op == "getitem" and t.args[1].op == "tuple" and len(t.args[1].args) == 2
                                 and t.args[1].args[1] is nu for t in subterms(rr))
                    okn = same_piv and piv_abs and col_ok
                    whyn = f"pivot shared by M row, residual and R column: {same_piv}, {piv_abs}, {col_ok}"
    ctx.ob("PAIR-4", f"{q}: new row = (M[pivot] - R) / sqrt(|residual[pivot]|) with one pivot", okn, whyn or
           "unmodelled update", fi)
    # "stays differentiable": nothing in the routine detaches a value from the derivative (the 2-RDM mode
    # differentiates through it); the pivot index is discrete anyway, the pivot *value* is not
    from .c06 import BANNED
    blockers = sorted({x.args[0] for t in (R, body) for x in subterms(t) if x.op in ("name", "fn") and x.args[0] in BANNED})
    ctx.ob("PURE-1", f"{q}: no gradient-blocking call inside the differentiable Cholesky routine", not blockers,
           f"calls {blockers}" if blockers else "none of " + ", ".join(sorted(BANNED)[:4]) + ", ...", fi)
    # buffer rows
    z = [t for t in subterms(cv0) if t.op == "call" and array_fn(t) == "zeros"]
    ctx.rep.note(f"{q}: the buffer has mat.shape[0] rows; nchol_max <= mat.shape[0] is the caller's obligation "
                 f"(sampler.propagate_phaseless_ad_1 passes ham_data['chol'].shape[0] for a norb^2 x norb^2 matrix)")


def counted_before_exit(ctx, fi):
    """PAIR-4 (must pass through): the residual that the threshold test judges is diag - sum_x L_x^2 over the vectors
    *accumulated* so far (Mapprox += chol_vecs[c] * chol_vecs[c]); the vectors *returned* are chol_vecs[:c].  The two
    agree at the loop head because every iteration that accumulates vector c also advances c.  An exit taken between the
    accumulation and the increment (a break / return inside the body) hands back one vector fewer than the residual it
    just tested was computed with: the returned factorisation is worse than the threshold that stopped the loop."""
    loops = [n for n in ast.walk(fi.node) if isinstance(n, ast.While)]
    if len(loops) != 1:
        ctx.rep.note(f"{fi.qualname}: not a single while loop; the accumulate / count / exit ordering rule is not applied")
        return
    body = loops[0].body
    acc = cnt = None
    counter = None
    for i, st in enumerate(body):
        if isinstance(st, ast.AugAssign) and isinstance(st.op, ast.Add) and isinstance(st.value, ast.BinOp) and \
                isinstance(st.value.op, (ast.Mult, ast.Pow)):
            subs = [n for n in ast.walk(st.value) if isinstance(n, ast.Subscript) and isinstance(n.slice, ast.Name)]
            if subs and len({ast.unparse(x) for x in subs}) == 1 and acc is None:
                acc, counter = i, subs[0].slice.id
    if acc is None:
        ctx.rep.note(f"{fi.qualname}: no accumulation `X += vecs[c] * vecs[c]` at the top level of the loop body; the "
                     f"accumulate / count / exit ordering rule is not applied")
        return
    for i, st in enumerate(body):
        if isinstance(st, ast.AugAssign) and isinstance(st.op, ast.Add) and isinstance(st.target, ast.Name) and \
                st.target.id == counter and isinstance(st.value, ast.Constant) and st.value.value == 1:
            cnt = i
    if cnt is None or cnt < acc:
        ctx.rep.note(f"{fi.qualname}: the counter '{counter}' is not advanced by a top-level `{counter} += 1` after the "
                     f"accumulation; the ordering rule is not applied")
        return
    early = []
    for i in range(acc + 1, cnt):
        for n in ast.walk(body[i]):
            if isinstance(n, (ast.Break, ast.Return)):
                early.append(n.lineno)
    ctx.ob("PAIR-4", f"{fi.qualname}: no exit between accumulating vector '{counter}' into the residual and counting it",
           not early, f"`{counter} += 1` follows the accumulation on every path to an exit" if not early else
           f"break / return at line {early[0]} leaves the loop after vector {counter} entered the tested residual and before "
           f"`{counter} += 1`: chol_vecs[:{counter}] is one vector short of the residual that passed the test", fi,
           early[0] if early else None)


def run(ctx):
    p = ctx.p
    f1 = p.func("pyscf_interface.modified_cholesky")
    numpy_loop(ctx, f1, bounded_expected=True)
    pivot_pairing(ctx, f1)
    counted_before_exit(ctx, f1)
    f2 = p.func("pyscf_interface.chunked_cholesky")
    numpy_loop(ctx, f2, bounded_expected=False)
    pivot_pairing(ctx, f2)
    counted_before_exit(ctx, f2)
    jax_routine(ctx)
    # call site: symmetrised ERI tensor reshaped to a square (n^2 x n^2) matrix, n as the orbital count, as many
    # vectors as the Hamiltonian carries -- decided on the value graph of the caller
    fi = p.func("sampling.sampler.propagate_phaseless_ad_1")
    ev = Evaluator(p)
    ev.eval_function(fi)
    calls = [e.data for e in ev.events if e.kind == "call" and (func_name(e.data) or "").endswith("linalg_utils.modified_cholesky")]
    ok, why = False, f"{len(calls)} calls of linalg_utils.modified_cholesky"
    if len(calls) == 1:
        _, pos, _ = call_parts(calls[0])
        if len(pos) == 3:
            mat, n, cnt = strip_wrappers(pos[0]), strip_wrappers(pos[1]), strip_wrappers(pos[2])
            mm = mat.args[0] if mat.op == "call" and mat.args[0].op == "attr" and mat.args[0].args[1] == "reshape" else None
            shp = call_parts(mat)[1] if mm is not None else []

            def is_sq(t):
                t = strip_wrappers(t)
                m1, m2 = m_binop(t, "**"), m_binop(t, "*")
                return (m1 is not None and strip_wrappers(m1[0]) is n and is_const(m1[1], 2)) or \
                    (m2 is not None and strip_wrappers(m2[0]) is n and strip_wrappers(m2[1]) is n)

            square = len(shp) == 2 and is_sq(shp[0]) and is_sq(shp[1])
            count_ok = cnt.op == "getitem" and is_const(cnt.args[1], 0) and cnt.args[0].op == "attr" and \
                cnt.args[0].args[1] == "shape" and strip_wrappers(cnt.args[0].args[0]).op == "getitem" and \
                is_const(strip_wrappers(cnt.args[0].args[0]).args[1], "chol")
            ok = square and count_ok
            why = f"matrix reshaped to (n^2, n^2) with n the second argument: {square}; vector count is chol.shape[0]: {count_ok}"
    ctx.ob("CAP-1", "sampler.propagate_phaseless_ad_1: factorises the (norb^2 x norb^2) tensor into as many "
           "vectors as the Hamiltonian carries", ok, why, fi)
    if len(calls) == 1 and len(call_parts(calls[0])[1]) == 3:
        _symmetrised_input(ctx, fi, strip_wrappers(call_parts(calls[0])[1][0]))


def _symmetrised_input(ctx, fi, mat):
    """SYM-1: the row-pivoted Cholesky reads rows of its input as columns (mat[nu] is used for the column nu), which is the
    same thing for a symmetric matrix only.  The call site builds the matrix as a sum of axis permutations of one 4-index
    tensor, reshaped to (n^2, n^2): that sum is symmetric under (pq) <-> (rs) for every tensor iff the set of permutations
    is mapped onto itself by the pair swap (2, 3, 0, 1)."""
    from ..rules.match import sum_terms, m_method
    mm = m_method(mat, "reshape")
    if mm is None:
        ctx.rep.note("sampler.propagate_phaseless_ad_1: the matrix handed to modified_cholesky is not written as "
                     "tensor.reshape(n^2, n^2); the symmetry of the input is not decided")
        return
    X = strip_wrappers(mm[0])
    for _ in range(3):                     # overall scalar factors
        d = m_binop(X, "/")
        if d is not None and strip_wrappers(d[1]).op == "const":
            X = strip_wrappers(d[0])
            continue
        m_ = m_binop(X, "*")
        if m_ is not None and strip_wrappers(m_[0]).op == "const":
            X = strip_wrappers(m_[1])
            continue
        if m_ is not None and strip_wrappers(m_[1]).op == "const":
            X = strip_wrappers(m_[0])
            continue
        break
    def one_perm(t):
        """(axis permutation, operand) when t is a pure axis permutation of a 4-index operand, else None"""
        a_ = m_arrcall(t, "transpose") if t.op == "call" else None
        if a_ is not None and len(a_) == 2 and strip_wrappers(a_[1]).op in ("tuple", "list"):
            ax = strip_wrappers(a_[1]).args
            if len(ax) == 4 and all(x.op == "const" and type(x.args[0]) is int for x in ax):
                return tuple(x.args[0] for x in ax), a_[0]
            return None
        if t.op == "call" and array_fn(t) == "einsum" and len(call_parts(t)[1]) == 2 and \
                call_parts(t)[1][0].op == "const" and isinstance(call_parts(t)[1][0].args[0], str) and \
                "->" in call_parts(t)[1][0].args[0]:
            i_, o_ = call_parts(t)[1][0].args[0].replace(" ", "").split("->")
            if len(i_) == 4 and sorted(i_) == sorted(o_) and len(set(i_)) == 4:
                return tuple(i_.index(c) for c in o_), call_parts(t)[1][1]
            return None
        mt = m_method(t, "transpose")
        if mt is not None:
            ax = mt[1]
            if len(ax) == 1 and strip_wrappers(ax[0]).op in ("tuple", "list"):
                ax = strip_wrappers(ax[0]).args
            if len(ax) == 4 and all(x.op == "const" and type(x.args[0]) is int for x in ax):
                return tuple(x.args[0] for x in ax), mt[0]
        return None

    def expand(t, depth=0):
        """t as a list of (axis permutation, leaf tensor) with unit coefficients, sums and permutations of sums expanded
        (a symmetrisation written in two steps is the product of the two sets); None when t is not of that form"""
        t = strip_wrappers(t)
        if depth > 6:
            return None
        for _ in range(3):
            d = m_binop(t, "/")
            if d is not None and strip_wrappers(d[1]).op == "const":
                t = strip_wrappers(d[0])
                continue
            break
        terms = sum_terms(t)
        if len(terms) > 1:
            out = []
            for sg, x in terms:
                if sg != 1:
                    return None
                e_ = expand(x, depth + 1)
                if e_ is None:
                    return None
                out += e_
            return out
        op_ = one_perm(t)
        if op_ is not None:
            pr, src = op_
            if sorted(pr) != [0, 1, 2, 3]:
                return None
            inner = expand(src, depth + 1)
            if inner is None:
                return None
            # transpose(transpose(T, q), p)[k] = T's axis q[p[k]]
            return [(tuple(q[pr[k]] for k in range(4)), leaf) for q, leaf in inner]
        if t.op == "binop" and t.args[0] in ("*", "@", "-", "+"):
            return None
        return [((0, 1, 2, 3), t)]

    ex = expand(X)
    if ex is None or len({leaf.uid for _, leaf in ex}) != 1:
        ctx.rep.note("sampler.propagate_phaseless_ad_1: the tensor handed to modified_cholesky is not a plain sum of axis "
                     "permutations of one tensor; the symmetry of the input is not decided")
        return
    perms = [pr for pr, _ in ex]
    swap = (2, 3, 0, 1)
    image = sorted(tuple(pr[swap[k]] for k in range(4)) for pr in perms)
    ok = image == sorted(perms)
    ctx.ob("SYM-1", "sampler.propagate_phaseless_ad_1: the matrix handed to modified_cholesky is symmetric", ok,
           f"sum over the permutations {sorted(perms)}" + ("" if ok else
           f": exchanging the index pairs maps them to {image}, a different set -- the (n^2, n^2) matrix is not symmetric, "
           f"and the pivoted Cholesky reads its rows as columns"), fi)
