"""PAIR-3 -- Q and the norm factor come from the same QR factorisation, per spin."""

from __future__ import annotations

from typing import List, Optional, Tuple

from ..model import AnalysisError, FuncInfo
from ..symex import (T, Evaluator, array_fn, call_parts, const, func_name, getitem, is_const,
                     match_vmap, show, strip_wrappers, subterms, sym)
from .match import m_arrcall


def _is_vmapped_qr(t: T) -> Optional[T]:
    """vmap(jnp.linalg.qr)(X) -> X;  jnp.linalg.qr(X) on the whole stack (the primitive batches over leading axes) -> X"""
    vm = match_vmap(t) if t.op == "call" else None
    if vm is None:
        if t.op == "call" and (func_name(t) or "").endswith("linalg.qr") and (func_name(t) or "").startswith(("jax.", "numpy.")):
            _, pos_, kws_ = call_parts(t)
            if len(pos_) == 1 and not any(k_ != "mode" for k_ in kws_):
                return pos_[0]
        return None
    f, in_axes, args = vm
    if f.op == "name" and f.args[0].endswith("linalg.qr") and len(args) == 1:
        return args[0]
    return None


def _vmapped_qr_pair(ev: Evaluator, t: T, fr=None) -> Optional[T]:
    """vmap(F)(X) where F(x) returns (qr(x)[0], prod(diag(qr(x)[1]))) of ONE qr call  ->  X"""
    vm = match_vmap(t) if t.op == "call" else None
    if vm is None or len(vm[2]) != 1:
        return None
    f = vm[0]
    x = sym("§det")
    body = None
    try:
        if f.op == "closure":
            body = ev.open_closure(f, [x])
        elif f.op in ("fn", "attr"):
            cands = ev.resolve_callees(f, fr)
            if cands and len(cands) == 1 and fr is not None:
                body = ev.inline_function(fr, f, cands[0][0], cands[0][1], [x], [], 0)
    except AnalysisError:
        body = None
    if body is None:
        return None
    body = strip_wrappers(body)
    if body.op != "tuple" or len(body.args) != 2:
        return None
    qq, nn = strip_wrappers(body.args[0]), strip_wrappers(body.args[1])
    if not (qq.op == "getitem" and is_const(qq.args[1], 0) and qq.args[0].op == "call" and
            (func_name(qq.args[0]) or "").endswith("linalg.qr") and call_parts(qq.args[0])[1] and
            call_parts(qq.args[0])[1][0] is x):
        return None
    pr = m_arrcall(nn, "prod")
    dg = m_arrcall(strip_wrappers(pr[0]), "diag", "diagonal") if pr is not None else None
    if dg is None:
        return None
    r_ = strip_wrappers(dg[0])
    if not (r_.op == "getitem" and is_const(r_.args[1], 1) and r_.args[0] is qq.args[0]):
        return None
    return vm[2][0]


def _norm_of(ev: Evaluator, t: T, fr=None) -> Optional[T]:
    """The R whose diagonal product (per walker) t is; None if t is not of one of the forms
         vmap(lambda x: prod(diag(x)))(R)        (lambda, local def or module-level helper)
         prod(vmap(diag)(R), axis=1)             prod(diagonal(R, axis1=1, axis2=2), axis=1)"""
    t = strip_wrappers(t)
    vm = match_vmap(t) if t.op == "call" else None
    if vm is not None:
        f, in_axes, args = vm
        if len(args) != 1:
            return None
        x = sym("§r")
        body = None
        if f.op == "closure":
            body = ev.open_closure(f, [x])
        elif f.op in ("fn", "attr") and fr is not None:
            cands = ev.resolve_callees(f, fr)
            if cands and len(cands) == 1:
                body = ev.inline_function(fr, f, cands[0][0], cands[0][1], [x], [], 0)
        if body is None:
            return None
        body = strip_wrappers(body)
        pr = m_arrcall(body, "prod")
        if pr is None:
            return None
        dg = m_arrcall(strip_wrappers(pr[0]), "diag", "diagonal")
        if dg is None or strip_wrappers(dg[0]) is not x:
            return None
        return args[0]
    pr = m_arrcall(t, "prod") if t.op == "call" else None
    if pr is not None:
        _, pos, kws = call_parts(t)
        ax = kws.get("axis", pos[1] if len(pos) > 1 else None)
        if ax is None or not (is_const(ax, 1) or is_const(ax, -1)):
            return None
        inner = strip_wrappers(pos[0])
        vm2 = match_vmap(inner) if inner.op == "call" else None
        if vm2 is not None and vm2[0].op == "name" and vm2[0].args[0].split(".")[-1] in ("diag", "diagonal") and \
                len(vm2[2]) == 1:
            return vm2[2][0]
        if inner.op == "call" and (array_fn(inner) or "") == "einsum":
            # einsum("wii->wi", R): the diagonals of a stack of matrices
            _, epos, _ek = call_parts(inner)
            if len(epos) == 2 and epos[0].op == "const" and isinstance(epos[0].args[0], str):
                sp = epos[0].args[0].replace(" ", "")
                if "->" in sp:
                    i_, o_ = sp.split("->")
                    if len(i_) == 3 and len(o_) == 2 and i_[1] == i_[2] and i_[0] != i_[1] and o_ == i_[0] + i_[1]:
                        return epos[1]
        dg = m_arrcall(inner, "diagonal") if inner.op == "call" else None
        if dg is not None:
            _, dpos, dk = call_parts(inner)
            a1, a2 = dk.get("axis1"), dk.get("axis2")
            if a1 is not None and a2 is not None and {a1.args[0] if a1.op == "const" else None,
                                                      a2.args[0] if a2.op == "const" else None} in ({1, 2}, {-1, -2}):
                return dpos[0]
    return None


def _magnitude_only(ev: Evaluator, t: T, fr=None) -> Optional[str]:
    """the per-walker factor is computed from slogdet(R) using the log-magnitude (result [1]) but not the sign / phase
    (result [0]): that is |det R|, not det R.  Returns a description, or None when this is not what t does."""
    t = strip_wrappers(t)
    bodies = [t]
    vm = match_vmap(t) if t.op == "call" else None
    if vm is not None and len(vm[2]) == 1:
        f = vm[0]
        x = sym("§r")
        try:
            if f.op == "closure":
                bodies.append(ev.open_closure(f, [x]))
            elif f.op in ("fn", "attr") and fr is not None:
                cands = ev.resolve_callees(f, fr)
                if cands and len(cands) == 1:
                    b_ = ev.inline_function(fr, f, cands[0][0], cands[0][1], [x], [], 0)
                    if b_ is not None:
                        bodies.append(b_)
        except Exception:
            pass
    for b in bodies:
        sl = {}
        for x_ in subterms(b):
            if x_.op == "getitem" and x_.args[1].op == "const" and x_.args[1].args[0] in (0, 1) and x_.args[0].op == "call" and \
                    (func_name(x_.args[0]) or "").split(".")[-1] == "slogdet":
                sl.setdefault(x_.args[0].uid, set()).add(x_.args[1].args[0])
        if sl and all(v == {1} for v in sl.values()):
            return "exp(slogdet(R)[1]) without slogdet(R)[0]"
    return None


def _rephased_q_plain_r(ev: Evaluator, q: T, fr=None) -> Optional[str]:
    """q = vmap(F)(X)[0] with F(x) = (qr(x)[0] * <something built from qr(x)[1]>, qr(x)[1]): the columns of Q are rescaled
    by phases of R's diagonal but R itself is returned unchanged.  Returns a description, None if not of that form."""
    q = strip_wrappers(q)
    if not (q.op == "getitem" and is_const(q.args[1], 0)):
        return None
    vm = match_vmap(q.args[0]) if q.args[0].op == "call" else None
    if vm is None or len(vm[2]) != 1:
        return None
    f = vm[0]
    x = sym("§det")
    body = None
    try:
        if f.op == "closure":
            body = ev.open_closure(f, [x])
        elif f.op in ("fn", "attr"):
            cands = ev.resolve_callees(f, fr)
            if cands and len(cands) == 1 and fr is not None:
                body = ev.inline_function(fr, f, cands[0][0], cands[0][1], [x], [], 0)
    except Exception:  # noqa
        body = None
    if body is None:
        return None
    body = strip_wrappers(body)
    if body.op != "tuple" or len(body.args) != 2:
        return None
    qq, rr = strip_wrappers(body.args[0]), strip_wrappers(body.args[1])
    if not (rr.op == "getitem" and is_const(rr.args[1], 1) and rr.args[0].op == "call" and
            (func_name(rr.args[0]) or "").endswith("linalg.qr")):
        return None
    q0 = getitem(rr.args[0], const(0))
    if qq is q0 or not any(y is q0 for y in subterms(qq)):
        return None
    if qq.op == "binop" and qq.args[0] in ("*", "/") and any(y is rr for y in subterms(qq)):
        return f"Q rescaled column by column with a factor built from diag(R) ({show(qq, maxdepth=2)[:50]})"
    return None


def pair3(ctx, fi: FuncInfo) -> int:
    """qr_vmap / qr_vmap_uhf: returned walkers[s] == Q of qr(walkers[s]) and norm[s] ==
    prod(diag(R)) of the *same* factorisation."""
    ev = Evaluator(ctx.p)
    # private helpers of the module (one factorisation returning (Q, det R)) are read in place
    ev.inline_policy = lambda callee, rc, fr_: callee.cls is None and callee.module == fi.module and callee is not fi
    fr = ev.eval_function(fi)
    R = ev.result(fr)
    if R.op != "tuple" or len(R.args) != 2:
        ctx.rep.note(f"{fi.qualname}: the result is not a (Q, norm factors) pair this rule can read; PAIR-3 not applied")
        return 1
    W, N = strip_wrappers(R.args[0]), strip_wrappers(R.args[1])
    wparam = sym([p.name for p in fi.params][0])
    pair = any(x.op == "getitem" and x.args[0] is wparam and is_const(x.args[1], 1) for x in subterms(R))
    if not pair:
        # the spin blocks handled by one loop / map over the [up, dn] list: element 1 of the result exists by construction
        w1 = getitem(W, const(1))
        pair = not (w1.op == "getitem" and w1.args[0] is W)
    n = 0
    spins = (0, 1) if pair else (None,)
    for s in spins:
        q = strip_wrappers(getitem(W, const(s))) if s is not None else W
        nf = strip_wrappers(getitem(N, const(s))) if s is not None else N
        tag = f" (spin {s})" if s is not None else ""
        src_w = getitem(wparam, const(s)) if s is not None else wparam
        ok, why = False, ""
        if q.op == "getitem" and is_const(q.args[1], 0) and _is_vmapped_qr(q.args[0]) is not None:
            fact = q.args[0]
            inp = _is_vmapped_qr(fact)
            if inp is not src_w:
                why = f"Q{tag} is factorised from {show(inp, maxdepth=2)}, not from the input block"
            else:
                r_of = _norm_of(ev, nf, fr)
                if r_of is None:
                    own_r = getitem(fact, const(1))
                    def mentions_trace(t_):
                        for x in subterms(t_):
                            if x.op == "name" and x.args[0].split(".")[-1] in ("trace", "sum", "mean", "nansum", "max", "min"):
                                return True
                            if x.op == "call" and x.args[0].op == "attr" and x.args[0].args[1] in ("trace", "sum", "mean", "max", "min"):
                                return True
                            vm_ = match_vmap(x) if x.op == "call" else None
                            if vm_ is not None and vm_[0].op == "closure":
                                try:
                                    b_ = ev.open_closure(vm_[0], [sym("§r")])
                                except AnalysisError:
                                    b_ = None
                                if b_ is not None and mentions_trace(b_):
                                    return True
                        return False
                    def mentions_prod(t_):
                        for x in subterms(t_):
                            if x.op == "name" and x.args[0].split(".")[-1] in ("prod", "cumprod", "det", "slogdet"):
                                return True
                            vm_ = match_vmap(x) if x.op == "call" else None
                            if vm_ is not None and vm_[0].op == "closure":
                                try:
                                    b_ = ev.open_closure(vm_[0], [sym("§r")])
                                except AnalysisError:
                                    b_ = None
                                if b_ is not None and mentions_prod(b_):
                                    return True
                        return False
                    mag = _magnitude_only(ev, nf, fr) if any(x is own_r for x in subterms(nf)) else None
                    if mag is not None:
                        why = (f"norm factor{tag} is {mag}: the magnitude of det R only -- Householder QR gives diagonal entries "
                               f"of either sign, so the sign / phase of the determinant is lost")
                    elif any(x is own_r for x in subterms(nf)) and mentions_trace(nf) and not mentions_prod(nf):
                        why = f"norm factor{tag} reduces R's diagonal by a sum / trace / extremum; det R is the product of the diagonal"
                    elif any(x is own_r for x in subterms(nf)):
                        # computed from the R of this very factorisation, in a form that is not recognised as the
                        # product of its diagonal: not judged
                        ctx.rep.note(f"{fi.qualname}: the norm factor{tag} is computed from R of the returned factorisation "
                                     f"by {show(nf, maxdepth=3)[:70]}, a form the rule does not model; not judged")
                        n += 1
                        continue
                    else:
                        why = f"norm factor{tag} is not built from the R of the factorisation whose Q is returned"
                elif not (r_of.op == "getitem" and is_const(r_of.args[1], 1) and r_of.args[0] is fact):
                    why = (f"norm factor{tag} is built from R of a different factorisation than the one "
                           f"whose Q is returned")
                else:
                    ok, why = True, "Q, prod(diag(R)) of one vmap(qr) call"
        elif q.op == "getitem" and is_const(q.args[1], 0) and nf.op == "getitem" and is_const(nf.args[1], 1) and \
                nf.args[0] is q.args[0] and _vmapped_qr_pair(ev, q.args[0], fr) is not None:
            # one vmapped per-determinant function returning (Q, prod(diag R)) of one qr call of its argument
            inp = _vmapped_qr_pair(ev, q.args[0], fr)
            if inp is src_w:
                ok, why = True, "(Q, prod(diag(R))) of one qr call, mapped over the walkers"
            else:
                why = f"Q{tag} is factorised from {show(inp, maxdepth=2)}, not from the input block"
        else:
            # another way of writing the orthonormalisation (a helper that is not read in place, a different factorisation
            # routine): nothing identified, nothing judged
            has_fact = any(x.op == "call" and (func_name(x) or "").split(".")[-1] in ("qr", "cholesky", "svd", "eigh", "polar", "orth")
                           for x in subterms(q)) or any(
                x.op == "call" and match_vmap(x) is not None for x in subterms(q))
            reph = _rephased_q_plain_r(ev, q, fr)
            if reph is not None:
                n += 1
                ctx.ob("PAIR-3", f"{fi.qualname}: Q and norm factor of one factorisation{tag}", False,
                       f"the returned Q{tag} is {reph}, while the R handed on for the norm factor is the unmodified factor of "
                       f"that factorisation: the phases moved into Q are still counted in prod(diag R)", fi)
                continue
            if has_fact:
                ctx.rep.note(f"{fi.qualname}: returned walkers{tag} are not recognisably element 0 of a (vmapped / batched) "
                             f"jnp.linalg.qr call; PAIR-3 not applied")
                n += 1
                continue
            # positive witness: what is handed back as the orthonormalised block does not come out of any factorisation
            why = f"returned walkers{tag} ({show(q, maxdepth=2)[:60]}) are not the Q factor of a factorisation of the input block"
        n += 1
        ctx.ob("PAIR-3", f"{fi.qualname}: Q and norm factor of one factorisation{tag}", ok, why, fi)
    return n
