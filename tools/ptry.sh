#!/bin/bash
# usage: tools/ptry.sh <patch.diff> Cxx [Cyy ...]   -- apply a patch to /repo, run the named checks (quick, no evidence), undo
p=$1; shift
[ -z "$(git -C /repo status --porcelain --untracked-files=no)" ] || { echo "/repo dirty"; exit 2; }
git -C /repo apply "$p" || exit 2
for c in "$@"; do /verif/check $c --tier quick --no-write 2>&1 | grep -v "WARNING conda" | cut -c1-${W:-400}; done
git -C /repo checkout -- .
