"""GVN-L -- linear value numbering (SIB-2).

Classic global value numbering over the def-use value graph, extended so that a value
number is a *linear combination*  sum_i q_i * atom_i  with complex-rational q_i.
(Multi)linear operators -- +, -, scalar * and /, einsum (flattened into one tensor
network and canonicalised), @/.dot, sum, trace, .T, slicing, reshape, stacking through
vmap -- distribute over the combination; everything else (det, inv, exp, products of
two combinations ...) creates a new atom from the numbered operands, pulling scalar
factors out where the operator is homogeneous.  Two expressions *agree* iff their
value numbers are equal, optionally under stated hypotheses (leaf substitutions such
as walker_up == walker_dn).  No arithmetic on data is performed.
"""

from __future__ import annotations

from fractions import Fraction
from itertools import permutations, product as iproduct
from typing import Dict, List, Optional, Sequence, Tuple

from ..model import AnalysisError
from ..symex import (T, Evaluator, array_fn, call_parts, const, func_name, getitem, is_const,
                     match_scan, match_vmap, mk, show, strip_wrappers, substitute, sym, transparent)

Coef = Tuple[Fraction, Fraction]
ZERO: Coef = (Fraction(0), Fraction(0))
ONEC: Coef = (Fraction(1), Fraction(0))


def c_add(a: Coef, b: Coef) -> Coef:
    return (a[0] + b[0], a[1] + b[1])


def c_mul(a: Coef, b: Coef) -> Coef:
    return (a[0] * b[0] - a[1] * b[1], a[0] * b[1] + a[1] * b[0])


def c_inv(a: Coef) -> Coef:
    d = a[0] * a[0] + a[1] * a[1]
    return (a[0] / d, -a[1] / d)


def c_conj(a: Coef) -> Coef:
    return (a[0], -a[1])


def c_of(v) -> Optional[Coef]:
    if isinstance(v, bool):
        return None
    if isinstance(v, int):
        return (Fraction(v), Fraction(0))
    if isinstance(v, float):
        return (Fraction(v).limit_denominator(10**12), Fraction(0))
    if isinstance(v, complex):
        return (Fraction(v.real).limit_denominator(10**12), Fraction(v.imag).limit_denominator(10**12))
    return None


Form = Dict[int, Coef]  # atom id -> coefficient ; atom 0 is the constant 1


def f_key(f: Form) -> tuple:
    return tuple(sorted((a, c) for a, c in f.items() if c != ZERO))


def f_clean(f: Form) -> Form:
    return {a: c for a, c in f.items() if c != ZERO}


class TooBig(Exception):
    pass


class GVN:
    MAX_TERMS = 400

    def __init__(self, ev: Evaluator, hyp: Optional[Dict[T, T]] = None, ignore_conj: bool = False,
                 frame=None):
        self.ev = ev
        self.hyp = hyp or {}
        self.ignore_conj = ignore_conj
        self.frame = frame
        self.atoms: Dict[tuple, int] = {("one",): 0}
        self.atom_keys: List[tuple] = [("one",)]
        self.memo: Dict[int, Form] = {}
        self.memo_raw: Dict[int, Form] = {}
        self._fresh = 0

    # -------------------------------------------------------------- atoms
    def atom(self, *key) -> int:
        k = tuple(key)
        i = self.atoms.get(k)
        if i is None:
            i = len(self.atom_keys)
            self.atoms[k] = i
            self.atom_keys.append(k)
        return i

    def single(self, a: int, c: Coef = ONEC) -> Form:
        return {a: c}

    def scalar(self, f: Form) -> Optional[Coef]:
        f = f_clean(f)
        if not f:
            return ZERO
        if len(f) == 1 and 0 in f:
            return f[0]
        return None

    def scale(self, f: Form, c: Coef) -> Form:
        return f_clean({a: c_mul(v, c) for a, v in f.items()})

    def add(self, f: Form, g: Form, sign: int = 1) -> Form:
        out = dict(f)
        s = (Fraction(sign), Fraction(0))
        for a, v in g.items():
            out[a] = c_add(out.get(a, ZERO), c_mul(v, s))
        return f_clean(out)

    def lin1(self, f: Form, make) -> Form:
        """Apply a linear unary operator atom-wise: make(atom_id) -> atom_id or Form."""
        out: Form = {}
        for a, c in f.items():
            r = make(a)
            if isinstance(r, dict):
                for a2, c2 in r.items():
                    out[a2] = c_add(out.get(a2, ZERO), c_mul(c, c2))
            else:
                out[r] = c_add(out.get(r, ZERO), c)
        return f_clean(out)

    def bilin(self, f: Form, g: Form, make) -> Form:
        if len(f) * len(g) > self.MAX_TERMS:
            raise TooBig()
        out: Form = {}
        for a, ca in f.items():
            for b, cb in g.items():
                r = make(a, b)
                c = c_mul(ca, cb)
                if isinstance(r, dict):
                    for a2, c2 in r.items():
                        out[a2] = c_add(out.get(a2, ZERO), c_mul(c, c2))
                else:
                    out[r] = c_add(out.get(r, ZERO), c)
        return f_clean(out)

    def describe(self, f: Form, depth: int = 0) -> str:
        try:
            return self._describe(f, depth)
        except Exception:  # rendering must never turn a verdict into a crash
            return f"<{len(f)} atoms>"

    def _describe(self, f: Form, depth: int = 0) -> str:
        parts = []
        for a, c in sorted(f.items()):
            cs = f"{c[0]}" if c[1] == 0 else f"({c[0]}+{c[1]}j)"
            parts.append(f"{cs}*{self.describe_atom(a, depth)}")
        return " + ".join(parts) or "0"

    def describe_atom(self, a: int, depth: int = 0) -> str:
        k = self.atom_keys[a]
        if k[0] == "one":
            return "1"
        if k[0] == "leaf":
            return k[1]
        if depth > 3:
            return f"#{a}"
        def is_form(x):
            return isinstance(x, tuple) and x and all(
                isinstance(e, tuple) and len(e) == 2 and isinstance(e[0], int)
                and isinstance(e[1], tuple) and len(e[1]) == 2 and isinstance(e[1][0], Fraction)
                for e in x)

        def sub(x):
            if isinstance(x, bool):
                return str(x)
            if isinstance(x, int):
                if k[0] in ("perm",):
                    return str(x)
                return self.describe_atom(x, depth + 1) if 0 <= x < len(self.atom_keys) else str(x)
            if is_form(x):
                return "{" + self.describe(dict(x), depth + 1) + "}"
            if isinstance(x, tuple):
                return "(" + ",".join(sub(y) for y in x) + ")"
            return str(x)
        return f"{k[0]}[" + ",".join(sub(x) for x in k[1:]) + "]"

    # ------------------------------------------------------------ numbering
    def number(self, t: T) -> Form:
        t = self.norm_loops(t)
        if self.hyp and not getattr(self, "_hyp_normed", False):
            self.hyp = {self.norm_loops(k): self.norm_loops(v) for k, v in self.hyp.items()}
            self._hyp_normed = True
        return self._n(t)

    def norm_loops(self, t: T) -> T:
        """Loop ids are source line numbers; they are not part of a value."""
        memo = self.__dict__.setdefault("_nl_memo", {})

        def go(x: T) -> T:
            r = memo.get(x.uid)
            if r is not None:
                return r
            args = tuple([go(a) if isinstance(a, T) else a for a in x.args])
            if x.op == "iter":
                r = mk("iter", args[0], 0)
            elif x.op in ("havoc", "loopout"):
                r = mk(x.op, 0, *args[1:])
            elif x.op in ("scan_x", "scan_carry", "vmap_elem") and len(args) == 2:
                r = mk(x.op, args[0], 0)
            elif all(a is b for a, b in zip(args, x.args)):
                r = x
            else:
                from ..symex import simplify
                r = simplify(x.op, *args)
            memo[x.uid] = r
            return r

        return go(t)

    def _n(self, t: T) -> Form:
        """Number t.  Hypotheses are applied top-down, exactly once: a term that is a key of
        the hypothesis map is replaced by its image, and the image is numbered without
        further replacement (so swaps a <-> b are well defined)."""
        if self._sub and self.hyp and t in self.hyp:
            self._sub = False
            try:
                return self._n(self.hyp[t])
            finally:
                self._sub = True
        memo = self.memo if self._sub else self.memo_raw
        r = memo.get(t.uid)
        if r is None:
            r = self._number(t)
            memo[t.uid] = r
        return r

    _sub = True

    def sshow(self, t: T, maxdepth: int = 8) -> str:
        """Render a leaf / index term, with the hypotheses applied once; operands of
        commutative operators are rendered in a canonical order."""
        if self._sub and self.hyp:
            t = substitute(t, self.hyp)
        return show(self._commute(t), maxdepth=maxdepth)

    def _commute(self, t: T) -> T:
        memo = self.__dict__.setdefault("_cm_memo", {})

        def go(x: T) -> T:
            r = memo.get(x.uid)
            if r is not None:
                return r
            args = tuple([go(a) if isinstance(a, T) else a for a in x.args])
            if x.op == "binop" and x.args[0] in ("+", "*") and show(args[1], maxdepth=6) > show(args[2], maxdepth=6):
                args = (args[0], args[2], args[1])
            r = x if all(a is b for a, b in zip(args, x.args)) else mk(x.op, *args)
            memo[x.uid] = r
            return r

        return go(t)

    def leaf(self, t: T) -> Form:
        if self._sub and self.hyp:
            t2 = substitute(t, self.hyp)
            if t2 is not t:
                # the hypotheses rewrite this leaf: number the image structurally, once
                self._sub = False
                try:
                    return self._n(t2)
                finally:
                    self._sub = True
        return self.single(self.atom("leaf", show(t, maxdepth=8)))

    def _number(self, t: T) -> Form:
        op = t.op
        if op == "const":
            c = c_of(t.args[0])
            if c is not None:
                return f_clean({0: c})
            return self.leaf(t)
        if op in ("sym", "global", "name", "fn", "cls", "mod"):
            return self.leaf(t)
        if op == "binop":
            return self._binop(t)
        if op == "unop":
            v = self._n(t.args[1])
            if t.args[0] == "-":
                return self.scale(v, (Fraction(-1), Fraction(0)))
            if t.args[0] == "+":
                return v
            return self.single(self.atom("unop", t.args[0], f_key(v)))
        if op == "attr":
            return self._attr(t)
        if op == "getitem":
            return self._getitem(t)
        if op == "call":
            return self._call(t)
        if op in ("list", "tuple") and len(t.args) == 2 and getattr(self, "two_spin_walkers", False):
            # [W[0], W[1]] of the two-component 'walkers' slot W is W
            e_ = [substitute(x, self.hyp) if (self._sub and self.hyp) else x for x in t.args]
            if all(x.op == "getitem" and x.args[1] is const(i_) for i_, x in enumerate(e_)) and e_[0].args[0] is e_[1].args[0] \
                    and e_[0].args[0].op == "getitem" and e_[0].args[0].args[1].op == "const" and \
                    e_[0].args[0].args[1].args[0] == "walkers":
                return self._n(e_[0].args[0])
        if op in ("list", "tuple"):
            return self.single(self.atom("seq", tuple([f_key(self._n(x)) for x in t.args])))
        if op in ("vmap_elem", "scan_x"):
            src = t.args[0]
            if src.op in ("tuple", "list"):
                return self.single(self.atom("seq", tuple(
                    [f_key(self.lin1(self._n(x), lambda a: self.atom("elem", a))) for x in src.args])))
            inner = self._n(src)
            return self.lin1(inner, self._elem)
        if op == "scan_carry":
            return self.single(self.atom("carry", f_key(self._n(t.args[0]))))
        if op == "phi":
            a, b = self._n(t.args[1]), self._n(t.args[2])
            if f_key(a) == f_key(b):
                return a
            return self.single(self.atom("phi", f_key(self._n(t.args[0])), f_key(a), f_key(b)))
        if op == "havoc":
            # (loop id, name, init): loop ids are line numbers -- not part of the value
            return self.single(self.atom("havoc", t.args[1], f_key(self._n(t.args[2]))))
        if op == "loopout":
            return self.single(self.atom("loopout", t.args[1], f_key(self._n(t.args[2])),
                                         f_key(self._n(t.args[3]))))
        if op == "iter":
            return self.single(self.atom("iter", f_key(self._n(t.args[0]))))
        if op == "undef":
            return self.single(self.atom("undef", t.args[0]))
        if op == "setitem" and getattr(self, "two_spin_walkers", False):
            # [up, dn] container of unrestricted walkers: writing both components of the 'walkers' slot is the display
            # of the two written values, whatever the container held before
            keys_, b_ = [], t
            while b_.op == "setitem" and b_.args[1].op == "const" and type(b_.args[1].args[0]) is int:
                keys_.append(b_.args[1].args[0])
                b_ = b_.args[0]
            b2_ = substitute(b_, self.hyp) if (self._sub and self.hyp) else b_
            if set(keys_) == {0, 1} and b2_.op == "getitem" and b2_.args[1].op == "const" and b2_.args[1].args[0] == "walkers":
                return self._n(mk("list", getitem(t, const(0)), getitem(t, const(1))))
        if op == "setitem":
            return self.single(self.atom("setitem", f_key(self._n(t.args[0])), self.idx_key(t.args[1]),
                                         f_key(self._n(t.args[2]))))
        # structural default: the operator applied to the numbered operands
        parts = []
        for a in t.args:
            parts.append(f_key(self._n(a)) if isinstance(a, T) else ("#", repr(a)))
        return self.single(self.atom("op:" + op, tuple(parts)))

    def _binop(self, t: T) -> Form:
        o, l, r = t.args
        if o == "+":
            return self.add(self._n(l), self._n(r))
        if o == "-":
            return self.add(self._n(l), self._n(r), -1)
        if o == "*":
            a, b = self._n(l), self._n(r)
            sa, sb = self.scalar(a), self.scalar(b)
            if sa is not None:
                return self.scale(b, sa)
            if sb is not None:
                return self.scale(a, sb)
            return self.bilin(a, b, self._prod)
        if o == "/":
            a, b = self._n(l), self._n(r)
            sb = self.scalar(b)
            if sb is not None and sb != ZERO:
                return self.scale(a, c_inv(sb))
            bb = f_clean(b)
            if len(bb) == 1:
                (d, cd), = bb.items()
                return self.scale(self.lin1(a, lambda x: self.atom("div", x, d)), c_inv(cd))
            kb = f_key(bb)
            return self.lin1(a, lambda x: self.atom("divf", x, kb))
        if o == "@":
            return self.bilin(self._n(l), self._n(r), lambda x, y: self.atom("matmul", x, y))
        if o == "**":
            e = r
            if e.op == "const" and e.args[0] == 2:
                a = self._n(l)
                return self.bilin(a, a, self._prod)
            a = self._n(l)
            return self.single(self.atom("pow", f_key(a), self.sshow(e, maxdepth=3)))
        a, b = self._n(l), self._n(r)
        return self.single(self.atom("binop", o, f_key(a), f_key(b)))

    def _elem(self, a: int) -> int:
        """one element along the leading (mapped) axis.  X.reshape(-1, r1, r2, ...) keeps the leading axis of a two-axis
        X (the form every such reshape in the package has: (n, r1*r2*...) -> (n, r1, r2, ...)), so its element is the
        element of X reshaped to (r1, r2, ...): reshaping the whole stack before the map and each element inside it
        are numbered alike."""
        k = self.atom_keys[a]
        if k[0] == "reshape" and isinstance(k[2], str) and k[2].startswith("-1,") and k[2].count(",") >= 2:
            return self.atom("reshape", self.atom("elem", k[1]), k[2][3:])
        return self.atom("elem", a)

    def _prod(self, x: int, y: int):
        """Commutative, associative elementwise / scalar product of two atoms."""
        if x == 0:
            return y
        if y == 0:
            return x
        items: List[int] = []
        for a in (x, y):
            k = self.atom_keys[a]
            if k[0] == "prod":
                items.extend(k[1])
            else:
                items.append(a)
        return self.atom("prod", tuple(sorted(items)))

    def _attr(self, t: T) -> Form:
        base, name = t.args
        if name == "T":
            v = self._n(base)
            return self.lin1(v, self._transpose)
        if name == "real":
            v = self._n(base)
            return self.single(self.atom("real", f_key(v)))
        if name == "imag":
            return self.single(self.atom("imag", f_key(self._n(base))))
        if name in ("shape", "size", "ndim", "dtype") and base.op not in ("global", "name"):
            # metadata of a computed array: a function of the (numbered) array, not of the way it is written
            return self.single(self.atom("meta", name, f_key(self._n(base))))
        return self.leaf(t)

    def _transpose(self, a: int) -> int:
        if a == 0:
            return 0
        k = self.atom_keys[a]
        if k[0] == "T":
            return k[1]
        return self.atom("T", a)

    def _conj(self, f: Form) -> Form:
        if self.ignore_conj:
            return f
        out: Form = {}
        for a, c in f.items():
            if a == 0:
                out[0] = c_add(out.get(0, ZERO), c_conj(c))
                continue
            k = self.atom_keys[a]
            b = k[1] if k[0] == "conj" else self.atom("conj", a)
            out[b] = c_add(out.get(b, ZERO), c_conj(c))
        return f_clean(out)

    def _getitem(self, t: T) -> Form:
        base, idx = t.args
        # final carry of an accumulating scan:  scan(...)[0][k]  /  scan(...)[0]
        if idx.op == "const" and isinstance(idx.args[0], int) and not isinstance(idx.args[0], bool):
            b0 = strip_wrappers(base)
            cand = None
            if b0.op == "getitem" and is_const(b0.args[1], 0) and strip_wrappers(b0.args[0]).op == "call" and \
                    match_scan(strip_wrappers(b0.args[0])) is not None:
                cand = (strip_wrappers(b0.args[0]), idx.args[0])
            elif idx.args[0] == 0 and b0.op == "call" and match_scan(b0) is not None:
                cand = (b0, None)
            if cand is not None and not self.hyp.get(t):
                acc = self._scan_accumulate(*cand)
                if acc is not None:
                    return acc
        v = self._n(base)
        key = self.idx_key(idx)
        i = idx.args[0] if idx.op == "const" and isinstance(idx.args[0], int) and not isinstance(
            idx.args[0], bool) else None

        def pick(a: int):
            if a == 0:
                return 0
            k = self.atom_keys[a]
            if i is not None and k[0] in ("seq", "stackseq") and -len(k[1]) <= i < len(k[1]):
                return dict(k[1][i])
            if i is not None and k[0] == "stack" and isinstance(k[1], int) and k[1] != 0:
                # a mapped function that returns a tuple: component i of the result is the stack of component i
                k2 = self.atom_keys[k[1]]
                if k2[0] == "seq" and -len(k2[1]) <= i < len(k2[1]):
                    return {(self.atom("stack", a2) if a2 != 0 else self.atom("stack", 0)): c2 for a2, c2 in dict(k2[1][i]).items()}
            r = self.atom("get", a, key)
            if self._sub and self.hyp:
                rw = self._atom_rewrites().get(r)
                if rw is not None:
                    return dict(rw)
            return r

        return self.lin1(v, pick)

    def idx_key(self, idx: T):
        """Canonical key of a subscript: constants and slices literally, computed index
        expressions by their value number (never by a truncated rendering)."""
        if idx.op == "tuple":
            return ("tup",) + tuple([self.idx_key(x) for x in idx.args])
        if idx.op == "slice":
            return ("sl",) + tuple([self.idx_key(x) for x in idx.args])
        if idx.op == "const":
            return repr(idx.args[0])
        return ("v", f_key(self._n(idx)))

    def _atom_rewrites(self) -> Dict[int, Form]:
        """Hypotheses whose left side is a subscript: also applied when the same slot is
        reached through arithmetic (e.g. (h1 - c)[1] == h1[1] - c[1])."""
        rw = self.__dict__.get("_rw")
        if rw is None:
            rw = {}
            self.__dict__["_rw"] = rw
            old = self._sub
            self._sub = False
            try:
                for k, v in list(self.hyp.items()):
                    if k.op != "getitem":
                        continue
                    fk = f_clean(self._n(k))
                    if len(fk) == 1 and list(fk.values())[0] == ONEC:
                        rw[list(fk)[0]] = self._n(v)
            finally:
                self._sub = old
        return rw

    def _is_leaf_chain(self, t: T) -> bool:
        while t.op == "getitem":
            if t.args[1].op not in ("const", "slice", "tuple", "attr", "getitem", "sym", "binop"):
                return False
            t = t.args[0]
        while t.op == "attr":
            t = t.args[0]
        return t.op in ("sym", "global")

    # ------------------------------------------------------------------ calls
    def _call(self, t: T) -> Form:
        f, pos, kws = call_parts(t)
        fn = array_fn(t)
        full = func_name(t)
        # value-preserving wrappers
        if fn in ("array", "asarray") and len(pos) == 1:
            inner = pos[0]
            if inner.op in ("list", "tuple"):
                return self.single(self.atom("stackseq", tuple([f_key(self._n(x)) for x in inner.args])))
            return self._n(inner)
        if fn in ("stack", "vstack", "hstack", "block", "concatenate") and pos:
            inner = pos[0]
            if inner.op in ("list", "tuple"):
                kind = "stackseq" if fn == "stack" else fn
                return self.single(self.atom(kind, tuple([f_key(self._n(x)) for x in inner.args])))
        if f.op == "attr":
            recv, meth = f.args
            if meth in ("copy",) and not pos:
                return self._n(recv)
            if meth == "astype":
                return self._n(recv)
            if meth == "conj" and not pos:
                return self._conj(self._n(recv))
            if meth == "dot" and len(pos) == 1:
                return self.bilin(self._n(recv), self._n(pos[0]), lambda x, y: self.atom("matmul", x, y))
            if meth == "reshape":
                key = ",".join(self.sshow(x, maxdepth=4) for x in pos)
                return self.lin1(self._n(recv), lambda a: self.atom("reshape", a, key))
            if meth == "sum":
                key = ",".join(self.sshow(x, maxdepth=3) for x in pos) + str(sorted((k, self.sshow(v)) for k, v in kws.items()))
                if not pos and not kws:
                    full = self._full_sum(self._n(recv))
                    if full is not None:
                        return full
                return self.lin1(self._n(recv), lambda a: self.atom("sum", a, key))
            if meth == "transpose":
                # x.transpose(0, 3, 2, 1) / x.transpose((0, 3, 2, 1)) is the axis permutation; no argument: reversal
                axes = list(pos[0].args) if len(pos) == 1 and pos[0].op in ("tuple", "list") else list(pos)
                if axes and all(x.op == "const" and isinstance(x.args[0], int) for x in axes):
                    perm = tuple(x.args[0] for x in axes)
                    return self.lin1(self._n(recv), lambda a: self.atom("perm", a, perm) if a != 0 else 0)
            if meth in ("diagonal", "trace", "flatten", "ravel", "transpose"):
                key = ",".join(self.sshow(x, maxdepth=3) for x in pos)
                return self.lin1(self._n(recv), lambda a: self.atom(meth, a, key))
        if fn == "conj" and len(pos) == 1:
            return self._conj(self._n(pos[0]))
        if fn == "transpose" and len(pos) == 2 and pos[1].op == "tuple" and all(
                x.op == "const" and isinstance(x.args[0], int) for x in pos[1].args):
            perm = tuple(x.args[0] for x in pos[1].args)
            return self.lin1(self._n(pos[0]), lambda a: self.atom("perm", a, perm) if a != 0 else 0)
        if fn == "sum" and len(pos) == 1 and not kws:
            full = self._full_sum(self._n(pos[0]))
            if full is not None:
                return full
        if fn in ("sum", "trace", "diag", "diagonal", "transpose", "real_if_close", "cumsum") and pos:
            key = ",".join(self.sshow(x, maxdepth=3) for x in pos[1:]) + str(
                sorted((k, self.sshow(v)) for k, v in kws.items()))
            return self.lin1(self._n(pos[0]), lambda a: self.atom(fn, a, key))
        if fn in ("dot", "matmul") and len(pos) == 2:
            return self.bilin(self._n(pos[0]), self._n(pos[1]), lambda x, y: self.atom("matmul", x, y))
        if fn in ("tensordot", "inner", "kron") and len(pos) == 2:
            key = ",".join(self.sshow(x, maxdepth=3) for x in pos[2:]) + str(sorted((k, self.sshow(v)) for k, v in kws.items()))
            return self.bilin(self._n(pos[0]), self._n(pos[1]), lambda x, y: self.atom(fn, x, y, key))
        if fn in ("swapaxes", "moveaxis") and pos:
            key = ",".join(self.sshow(x, maxdepth=3) for x in pos[1:]) + str(sorted((k, self.sshow(v)) for k, v in kws.items()))
            return self.lin1(self._n(pos[0]), lambda a: self.atom(fn, a, key))
        if fn == "outer" and len(pos) == 2:
            return self.bilin(self._n(pos[0]), self._n(pos[1]), lambda x, y: self.atom("outer", x, y))
        if fn == "multiply" and len(pos) == 2:
            return self.bilin(self._n(pos[0]), self._n(pos[1]), self._prod)
        if fn == "einsum" and pos and pos[0].op == "const" and isinstance(pos[0].args[0], str):
            return self._einsum(pos[0].args[0], pos[1:])
        if fn == "linalg.inv" and len(pos) == 1:
            v = f_clean(self._n(pos[0]))
            if len(v) == 1:
                (a, c), = v.items()
                return self.single(self.atom("inv", a), c_inv(c))
            return self.single(self.atom("invf", f_key(v)))
        if fn == "zeros_like" or fn == "zeros":
            return {}
        sc = match_scan(t)
        if sc is not None and sc[0].op == "closure":
            fcl, init, xs, length = sc
            body = self.ev.open_closure(fcl, [mk("scan_carry", init, 0), mk("scan_x", xs, 0)], at_call=t)
            body = self.norm_loops(body)
            if xs.op in ("tuple", "list"):
                # the body addresses the scanned sequences through elem(...) atoms; their order in
                # the xs tuple is bookkeeping
                xk = tuple(sorted([f_key(self._n(x)) for x in xs.args]))
            else:
                xk = f_key(self._n(xs))
            return self.single(self.atom("scan", f_key(self._n(body)), f_key(self._n(init)),
                                         xk, f_key(self._n(length))))
        if full in ("jax.jvp", "jax.vjp") and pos and transparent(pos[0]).op == "closure":
            fcl = transparent(pos[0])
            if full == "jax.jvp" and len(pos) >= 3 and pos[1].op in ("list", "tuple"):
                prim = list(pos[1].args)
                tang = tuple([f_key(self._n(x)) for x in pos[2].args]) if pos[2].op in ("list", "tuple") else ()
            else:
                prim, tang = list(pos[1:]), ()
            body = self.norm_loops(self.ev.open_closure(fcl, prim, at_call=t))
            return self.single(self.atom(full, f_key(self._n(body)), tang))
        # vmap
        vm = match_vmap(t)
        if vm is not None:
            return self._vmap(t, vm)
        if fn is not None or (full is not None and not full.startswith(".")):
            name = fn or full
            argk = tuple([f_key(self._n(x)) for x in pos]) + tuple(
                [(k, f_key(self._n(v))) for k, v in sorted(kws.items()) if k != "optimize"])
            return self.single(self.atom("fn", name, argk))
        if f.op == "attr":
            argk = tuple([f_key(self._n(x)) for x in pos])
            return self.single(self.atom("mcall", f.args[1], f_key(self._n(f.args[0])) if not
                                         self._is_leaf_chain(f.args[0]) and f.args[0].op not in ("sym",)
                                         else self.sshow(f.args[0], maxdepth=4), argk))
        return self.single(self.atom("opaque", t.uid))

    def _vmap(self, t: T, vm) -> Form:
        f, in_axes, vargs = vm
        axes = list(in_axes.args) if in_axes is not None and in_axes.op in ("tuple", "list") else None
        margs = []
        for i, a in enumerate(vargs):
            mapped = True
            if axes is not None and i < len(axes) and is_const(axes[i], None):
                mapped = False
            if axes is None and in_axes is not None and is_const(in_axes, None):
                mapped = False
            margs.append(mk("vmap_elem", a, 0) if mapped else a)
        body = None
        if f.op == "closure":
            body = self.ev.open_closure(f, margs, at_call=t)
        elif f.op == "attr" and self.frame is not None:
            cands = self.ev.resolve_callees(f, self.frame)
            if cands and len(cands) == 1:
                body = self.ev.inline_function(self.frame, f, cands[0][0], cands[0][1], margs, [], 0)
        elif f.op == "name":
            nm = f.args[0].split(".")[-1]
            if nm in ("trace", "diag", "diagonal") and len(margs) == 1:
                inner = self._n(margs[0])
                if nm == "trace":
                    # vmap(trace) over the leading axis of a rank-3 contraction result is itself a contraction:
                    # identify the last two output letters and drop them from the output
                    out_f: Form = {}
                    ok_all = bool(inner)
                    for a, c in inner.items():
                        k = self.atom_keys[a]
                        e_ = self.atom_keys[k[1]] if k[0] == "elem" and isinstance(k[1], int) else None
                        if e_ is None or e_[0] != "einsum" or len(e_[2]) != 3:
                            ok_all = False
                            break
                        ops_, out_ = e_[1], e_[2]
                        ren = {out_[2]: out_[1]}
                        new_ops = [(b, tuple(ren.get(ch, ch) for ch in subs)) for b, subs in ops_]
                        at = self._canon_einsum(new_ops, (out_[0],))
                        out_f[at] = c_add(out_f.get(at, ZERO), c)
                    if ok_all:
                        return f_clean(out_f)
                r = self.lin1(inner, lambda a: self.atom(nm, a, ""))
                return self.lin1(r, lambda a: self.atom("stack", a))
        if body is None:
            argk = tuple([f_key(self._n(x)) for x in margs])
            return self.single(self.atom("vmapcall", self.sshow(f, maxdepth=3), argk))
        body = self.norm_loops(body)
        r = self._n(body)
        return self.lin1(r, lambda a: self.atom("stack", a) if a != 0 else self.atom("stack", 0))

    def _full_sum(self, f: Form) -> Optional[Form]:
        """sum() over every axis of contraction results is the full contraction (output letters dropped)."""
        out: Form = {}
        if not f:
            return None
        for a, c in f.items():
            k = self.atom_keys[a]
            if k[0] == "prod" and len(k[1]) >= 2 and all(self.atom_keys[x][0] not in ("const",) for x in k[1]):
                # sum(A * B) over every axis is the full contraction of A and B over one shared multi-index ("*"): the
                # form einsum("ia,ia", A, B) takes as well (see _canon_einsum)
                at = self._canon_einsum([(x, ("*",)) for x in k[1]], ())
                out[at] = c_add(out.get(at, ZERO), c)
                continue
            if k[0] != "einsum":
                return None
            at = self._canon_einsum(list(k[1]), ())
            out[at] = c_add(out.get(at, ZERO), c)
        return f_clean(out)

    def _refs(self, key, seen=None) -> set:
        """atom ids reachable from an atom key (over-approximation: every small int is taken for an atom id)"""
        if seen is None:
            seen = set()
        stack = [key]
        while stack:
            k = stack.pop()
            if isinstance(k, tuple):
                stack.extend(k)
            elif isinstance(k, int) and not isinstance(k, bool) and 0 < k < len(self.atom_keys) and k not in seen:
                seen.add(k)
                stack.append(self.atom_keys[k])
        return seen

    def _kinds_below(self, a: int) -> set:
        return {self.atom_keys[x][0] for x in self._refs(self.atom_keys[a]) | {a}}

    def _scan_accumulate(self, sc_term: T, k: Optional[int]) -> Optional[Form]:
        """Final carry (component k) of a scan whose body only accumulates:  c' = c + E(x)  with E a combination of
        scalar contractions of per-iteration slices  ->  init + the same contractions with the scanned axis summed."""
        sc = match_scan(sc_term)
        if sc is None or sc[0].op != "closure":
            return None
        fcl, init, xs, length = sc
        C, X = mk("scan_carry", init, 0), mk("scan_x", xs, 0)
        body = self.norm_loops(self.ev.open_closure(fcl, [C, X], at_call=sc_term))
        if body.op != "tuple" or len(body.args) != 2:
            return None
        newc = body.args[0]
        comp = getitem(newc, const(k)) if k is not None else newc
        prev = getitem(C, const(k)) if k is not None else C
        f, fp = f_clean(self._n(comp)), f_clean(self._n(prev))
        E = dict(f)
        for a, c in fp.items():
            if E.get(a) != c:
                return None
            del E[a]
        out: Form = {}
        for a, c in E.items():
            key = self.atom_keys[a]
            if key[0] != "einsum" or key[2]:
                return None
            g = self._fresh_letter()
            new, saw = [], False
            for b, subs in key[1]:
                kb = self.atom_keys[b]
                if kb[0] == "elem" and isinstance(kb[1], int):
                    if {"elem", "carry"} & self._kinds_below(kb[1]):
                        return None
                    new.append((kb[1], (g,) + tuple(subs)))
                    saw = True
                elif kb[0] == "reshape" and isinstance(kb[1], int) and self.atom_keys[kb[1]][0] == "elem" and \
                        isinstance(self.atom_keys[kb[1]][1], int) and isinstance(kb[2], str):
                    # the scanned element reshaped (see _elem): the stack is the scanned array reshaped with its leading axis kept
                    src = self.atom_keys[kb[1]][1]
                    if {"elem", "carry"} & self._kinds_below(src):
                        return None
                    new.append((self.atom("reshape", src, "-1," + kb[2]), (g,) + tuple(subs)))
                    saw = True
                else:
                    if {"elem", "carry"} & self._kinds_below(b):
                        return None
                    new.append((b, tuple(subs)))
            if not saw:
                return None
            at = self._canon_einsum(new, ())
            out[at] = c_add(out.get(at, ZERO), c)
        init_k = getitem(init, const(k)) if k is not None else init
        res = dict(self._n(init_k))
        for a, c in out.items():
            res[a] = c_add(res.get(a, ZERO), c)
        return f_clean(res)

    # ----------------------------------------------------------------- einsum
    def _fresh_letter(self) -> str:
        self._fresh += 1
        return f"${self._fresh}"

    def _einsum(self, spec: str, operands: Sequence[T]) -> Form:
        spec = spec.replace(" ", "")
        if "->" in spec:
            ins, out = spec.split("->")
        else:
            ins, out = spec, None
        in_subs = ins.split(",")
        if len(in_subs) != len(operands) or "." in spec:
            argk = tuple([f_key(self._n(x)) for x in operands])
            return self.single(self.atom("einsum_raw", spec, argk))
        if out is None:
            counts: Dict[str, int] = {}
            for s in in_subs:
                for ch in s:
                    counts[ch] = counts.get(ch, 0) + 1
            out = "".join(sorted(ch for ch, n in counts.items() if n == 1))
        forms = [f_clean(self._n(x)) for x in operands]
        total = 1
        for fm in forms:
            total *= max(len(fm), 1)
        if total > self.MAX_TERMS:
            raise TooBig()
        result: Form = {}
        for combo in iproduct(*[list(fm.items()) for fm in forms]):
            coef = ONEC
            ops: List[Tuple[int, Tuple[str, ...]]] = []
            for (a, c), subs in zip(combo, in_subs):
                coef = c_mul(coef, c)
                self._push_operand(ops, a, tuple(subs))
            atom = self._canon_einsum(ops, tuple(out))
            result[atom] = c_add(result.get(atom, ZERO), coef)
        return f_clean(result)

    def _push_operand(self, ops, a: int, subs: Tuple[str, ...]):
        k = self.atom_keys[a]
        if k[0] == "einsum":
            inner_ops, inner_out = k[1], k[2]
            if len(inner_out) == len(subs):
                ren: Dict[str, str] = {}
                for lo, hi in zip(inner_out, subs):
                    ren[lo] = hi
                for (b, bsubs) in inner_ops:
                    new = []
                    for ch in bsubs:
                        if ch not in ren:
                            ren[ch] = self._fresh_letter()
                        new.append(ren[ch])
                    ops.append((b, tuple(new)))
                return
        if k[0] == "T" and len(subs) == 2:
            self._push_operand(ops, k[1], (subs[1], subs[0]))
            return
        if k[0] == "perm" and len(k[2]) == len(subs):
            inner = [None] * len(subs)
            for i, pi in enumerate(k[2]):
                inner[pi] = subs[i]
            self._push_operand(ops, k[1], tuple(inner))
            return
        if a == 0:
            return
        ops.append((a, subs))

    def _canon_einsum(self, ops: List[Tuple[int, Tuple[str, ...]]], out: Tuple[str, ...]) -> int:
        if not ops:
            return 0
        if not out and len(ops) >= 2 and len({subs for _, subs in ops}) == 1 and len(set(ops[0][1])) == len(ops[0][1]):
            # every operand carries the same distinct letters and nothing is left over: the full contraction of an
            # elementwise product, whatever the rank -- one shared multi-index
            ops = [(a, ("*",)) for a, _ in ops]
        # order operands by atom id; among equal atoms try all permutations, keep the smallest
        ops_sorted = sorted(ops, key=lambda x: x[0])
        groups: List[List[Tuple[int, Tuple[str, ...]]]] = []
        for o in ops_sorted:
            if groups and groups[-1][0][0] == o[0]:
                groups[-1].append(o)
            else:
                groups.append([o])
        best = None
        n_perm = 1
        for g in groups:
            for i in range(2, len(g) + 1):
                n_perm *= i
        choices = [list(permutations(g)) if n_perm <= 720 else [tuple(g)] for g in groups]
        for combo in iproduct(*choices):
            seq = [o for g in combo for o in g]
            ren: Dict[str, str] = {}
            nxt = 0
            canon_ops = []
            for a, subs in seq:
                new = []
                for ch in subs:
                    if ch not in ren:
                        ren[ch] = chr(ord("a") + nxt) if nxt < 26 else f"<{nxt}>"
                        nxt += 1
                    new.append(ren[ch])
                canon_ops.append((a, tuple(new)))
            cout = []
            for ch in out:
                if ch not in ren:
                    ren[ch] = chr(ord("a") + nxt) if nxt < 26 else f"<{nxt}>"
                    nxt += 1
                cout.append(ren[ch])
            key = (tuple(canon_ops), tuple(cout))
            if best is None or key < best:
                best = key
        return self.atom("einsum", best[0], best[1])


MODELLED = {"einsum", "matmul", "T", "perm", "get", "inv", "invf", "det", "prod", "div", "divf", "conj", "real", "seq",
            "stackseq", "stack", "elem", "carry", "scan", "sum", "trace", "diag", "diagonal", "reshape", "outer",
            "vstack", "hstack", "block", "concatenate", "leaf", "sym", "const", "op", "phi", "v", "sl", "tup", "pow",
            "exp", "sqrt", "abs", "where", "setitem", "struct", "meta"}


def compare_forms(g: "GVN", a: Form, b: Form) -> str:
    """'equal' | 'differ' | 'undecided'.
    Value numbering decides equality of two expressions up to the algebra it models.  When the parts in which two
    forms differ are written with *different vocabularies* (one side uses an operation the other side does not use at
    all, e.g. tensordot / trace(axis1, axis2) against einsum, or a function GVN-L does not interpret), inequality of
    the numbers says nothing about inequality of the values: the verdict is 'undecided', never a violation."""
    if f_key(a) == f_key(b):
        return "equal"
    da = {k: v for k, v in a.items() if b.get(k) != v}
    db = {k: v for k, v in b.items() if a.get(k) != v}

    def kinds(form) -> set:
        out = set()
        for at in form:
            for x in g._refs(g.atom_keys[at]) | {at}:
                k = g.atom_keys[x]
                out.add(k[0] if k[0] != "fn" else "fn:" + str(k[1]))
        return out

    ka, kb = kinds(da), kinds(db)
    # array operations that re-express a contraction / axis shuffle the algebra writes with einsum, matmul, T, perm:
    # uninterpreted here, so a difference that involves one of them is a difference of notation as far as we can tell
    alt = {"tensordot", "swapaxes", "moveaxis", "rollaxis", "inner", "vdot", "kron", "multi_dot", "einsum_path",
           "broadcast_to", "expand_dims", "squeeze", "tile", "repeat", "apply_along_axis", "vectorize"}
    unmodelled = {k for k in ka | kb if (k.startswith("fn:") and k.split(".")[-1].split(":")[-1] in alt)
                  or k in alt or k in ("vmapcall", "einsum_raw")}
    trace_axes = any(g.atom_keys[x][0] == "trace" and len(g.atom_keys[x]) > 2 and "axis" in str(g.atom_keys[x][2])
                     for f_ in (da, db) for at in f_ for x in g._refs(g.atom_keys[at]) | {at})
    if unmodelled or trace_axes:
        return "undecided"
    # the same contraction written once with einsum and once with matmul / dot / @ is not related by the numbering
    # (operand ranks are unknown); with identical inputs on both sides this is a difference of notation
    def leaves(form) -> frozenset:
        out = set()
        for at in form:
            for x in g._refs(g.atom_keys[at]) | {at}:
                k = g.atom_keys[x]
                if k[0] in ("leaf", "sym") or (k[0] == "get" and not any(
                        isinstance(y, int) and not isinstance(y, bool) and 0 < y < len(g.atom_keys) and
                        g.atom_keys[y][0] not in ("leaf", "sym", "get") for y in k[1:2])):
                    out.add(x)
        return frozenset(out)

    # ... and so is a full contraction written as sum(a * b), trace(a @ b.T) or einsum("ij,ij->")
    contr = {"einsum", "matmul", "trace", "prod", "diag", "diagonal"}
    if da and db and (ka & contr) != (kb & contr) and leaves(da) == leaves(db):
        return "undecided"
    return "differ"


def forms_equal(g: GVN, a: Form, b: Form) -> bool:
    return f_key(a) == f_key(b)
