"""C16 -- the pyscf interface writes what the AFQMC set-up reads (writer/reader agreement)."""

from __future__ import annotations

import ast
from typing import Dict, List, Optional, Set, Tuple

from ..model import AnalysisError, dotted
from ..rules import bind, keys

ID = "C16"
EXPLANATION = (
    "KEYS-2 (writer/reader agreement for every on-disk artefact). FCIDUMP_chol: the datasets the reader "
    "opens are written; the packed header is [nelec, nmo, ms, nchol] on both sides position by position; "
    "matrices written with flatten() are read with the inverse row-major reshape; the positional call of "
    "write_dqmc in prep_afqmc binds every argument to the parameter it is named for (h1e -> hcore, "
    "h1e_mod -> hcore_mod, ...); the per-spin electron counts are rebuilt as ((N + |ms|)//2, (N - |ms|)//2). "
    "mo_coeff.npz / amplitudes.npz: array names read are names written in the matching branch, spin block s "
    "is sliced with nelec_sp[s], and the wave_data keys assembled for each documented trial kind are the "
    "keys that trial class reads (KEYS-1). options.bin: every options[k] read by the driver / set-up has a "
    "default assigned by _prep_afqmc. ene_err.txt: written and read as (energy, error). BIND-1: the trial, "
    "propagator, sampler and Hamiltonian constructors and the driver calls in mpi_jax bind; each documented "
    "value of options['trial'] and options['walker_type'] has a branch that binds trial / prop. "
    "Def-use rules on prep_afqmc (value graph): hcore_mod = hcore - v0(chol written), nmo is the "
    "dimension of the hcore written, with a frozen core nelec / enuc / chol come from the same "
    "active-space object as hcore, and the QR sign fix of the trial orbitals scales columns of Q by "
    "sign(diag R) of the same factorisation. Amplitude arrays are checked by provenance (cc.t1[s], "
    "cc.t2[k]). "
    " PURE-1: no function of the interface modules stores into a module-level container, so nothing computed for one prep_afqmc call (possibly transformed in place by it) can leak into the next call in the same process. The FCIDUMP_chol reader side is decided on the value graph of _prep_afqmc with its private helpers evaluated in place (header positions by use: electron split, reshape dimensions), so that moving the file reading into a helper or packing the values into a NamedTuple changes nothing. "
    " SYM-1: the array stored under 'ci2bb' is the one stored under 'ci2aa' with t1[0] -> t1[1] and t2[0] -> t2[2] (value numbering under that substitution). The options defaults, the files opened and the npz keys read are collected over _prep_afqmc together with the module-level helpers it calls. "
    " MUT-1: prep_afqmc / write_dqmc / generate_integrals apply no in-place operator to a parameter, an attribute of one, or a NumPy view of one (np.asarray / reshape / ravel do not copy): the mean-field / coupled-cluster object stays the user's. KEYS-2 (source): the one-body integrals written are the mean-field object's own get_hcore(), not rebuilt from the molecule (a customised mf.get_hcore would be ignored). "
)
NOT_DECIDED = (
    "everything numerical: HF / FCI / CC energies, the frozen-core effective Hamiltonian, amplitude "
    "conventions, Cholesky accuracy."
)
TECHNIQUE = "static analysis: writer/reader table agreement over AST (names, positional order, layout), call binding"


def _str_const(n) -> Optional[str]:
    return n.value if isinstance(n, ast.Constant) and isinstance(n.value, str) else None


def _with_var(fn_node, pred) -> Tuple[Optional[ast.With], Optional[str]]:
    """(with-statement, name bound by `as`) of the first with whose context expression satisfies pred"""
    for nd in ast.walk(fn_node):
        if isinstance(nd, ast.With) and nd.items and isinstance(nd.items[0].context_expr, ast.Call) and \
                pred(nd.items[0].context_expr) and isinstance(nd.items[0].optional_vars, ast.Name):
            return nd, nd.items[0].optional_vars.id
    return None, None


def is_neg1(t) -> bool:
    t0 = t
    if t0.op == "const":
        return t0.args[0] == -1
    return t0.op == "unop" and t0.args[0] == "-" and t0.args[1].op == "const" and t0.args[1].args[0] == 1


def fcidump(ctx):
    """Writer/reader agreement for FCIDUMP_chol.  Local variable names carry no meaning here: datasets are matched by
    their string keys, header fields by the parameter of write_dqmc they are built from (writer) and by the way they
    are used (reader: (N + |M|)//2 electron split, reshape(K, K))."""
    p = ctx.p
    wd = p.func("pyscf_interface.write_dqmc")
    rd = p.func("mpi_jax._prep_afqmc")
    wparams = [x.name for x in wd.params]
    from ..model import norm
    wnode, rnode = norm(wd.node), norm(rd.node)      # single-use temporaries substituted into their use
    wblock, wf = _with_var(wnode, lambda c: (dotted(c.func) or "").endswith("File"))
    if wf is None:
        raise AnalysisError("write_dqmc no longer opens an h5py.File in a with block")
    written: Dict[str, ast.AST] = {}
    for nd in ast.walk(wnode):
        if isinstance(nd, ast.Assign) and isinstance(nd.targets[0], ast.Subscript) and \
                isinstance(nd.targets[0].value, ast.Name) and nd.targets[0].value.id == wf:
            k = _str_const(nd.targets[0].slice)
            if k:
                written[k] = nd.value
    # datasets written in a loop over (name, value) pairs that a same-module generator / list-returning helper spells out:
    #   for name, value in _datasets(<parameters>): f[name] = value
    import copy as _copy
    for nd in ast.walk(wnode):
        if isinstance(nd, ast.For) and isinstance(nd.target, ast.Tuple) and len(nd.target.elts) == 2 and \
                all(isinstance(e_, ast.Name) for e_ in nd.target.elts) and isinstance(nd.iter, ast.Call) and \
                isinstance(nd.iter.func, ast.Name):
            kn, vn = nd.target.elts[0].id, nd.target.elts[1].id
            stores = [st for st in ast.walk(nd) if isinstance(st, ast.Assign) and isinstance(st.targets[0], ast.Subscript)
                      and isinstance(st.targets[0].value, ast.Name) and st.targets[0].value.id == wf
                      and isinstance(st.targets[0].slice, ast.Name) and st.targets[0].slice.id == kn
                      and isinstance(st.value, ast.Name) and st.value.id == vn]
            helper = p.functions.get(f"{wd.module}.{nd.iter.func.id}")
            if not stores or helper is None or helper.node is None:
                continue
            hp = [a.arg for a in helper.node.args.args]
            if len(hp) != len(nd.iter.args) or nd.iter.keywords:
                continue
            env_ = dict(zip(hp, nd.iter.args))

            class _Sub(ast.NodeTransformer):
                def visit_Name(self, n_):
                    if isinstance(n_.ctx, ast.Load) and n_.id in env_:
                        return _copy.deepcopy(env_[n_.id])
                    return n_
            pairs = []
            for y in ast.walk(helper.node):
                tv = None
                if isinstance(y, ast.Yield) and isinstance(y.value, ast.Tuple) and len(y.value.elts) == 2:
                    tv = y.value
                elif isinstance(y, (ast.List, ast.Tuple)) and y.elts and all(
                        isinstance(e_, ast.Tuple) and len(e_.elts) == 2 and _str_const(e_.elts[0]) for e_ in y.elts):
                    for e_ in y.elts:
                        pairs.append((_str_const(e_.elts[0]), e_.elts[1]))
                if tv is not None and _str_const(tv.elts[0]):
                    pairs.append((_str_const(tv.elts[0]), tv.elts[1]))
            for k, v in pairs:
                v2 = _Sub().visit(_copy.deepcopy(v))
                ast.fix_missing_locations(v2)
                written.setdefault(k, v2)
    if not written:
        ctx.rep.note("write_dqmc: no `f['<name>'] = value` store into the opened file was identified; the FCIDUMP_chol "
                     "writer / reader agreement rules do not apply")
        return
    # ---- reader side, on the value graph of _prep_afqmc with its private helpers evaluated in place: local names, the
    # helper the reading was moved to and the container the values travel in (tuple, NamedTuple) play no role
    from ..rules import common as C_
    from ..symex import array_fn, call_parts, func_name, strip_wrappers, subterms, getitem as G_, const as K_
    rev, rfr = C_.eval_with_terms(p, rd)
    terms = C_.all_terms(rev)
    FH = [t for t in terms if t.op == "enter" and t.args[0].op == "call" and (func_name(t.args[0]) or "").endswith("File")
          and call_parts(t.args[0])[1] and call_parts(t.args[0])[1][0].op == "const"
          and call_parts(t.args[0])[1][0].args[0] == "FCIDUMP_chol"]
    if not FH:
        ctx.rep.note("_prep_afqmc (with its helpers): no `with h5py.File('FCIDUMP_chol') as f` found; the FCIDUMP_chol "
                     "reader rules do not apply")
        return
    fh = FH[0]

    def dataset(t):
        """name of the FCIDUMP_chol dataset term t reads, else None"""
        if t.op == "getitem" and t.args[0] is fh and t.args[1].op == "const" and isinstance(t.args[1].args[0], str):
            return t.args[1].args[0]
        if t.op == "call" and t.args[0].op == "attr" and t.args[0].args[0] is fh and t.args[0].args[1] == "get" and \
                call_parts(t)[1] and call_parts(t)[1][0].op == "const":
            return call_parts(t)[1][0].args[0]
        return None
    read = {}
    for t in terms:
        k = dataset(t)
        if isinstance(k, str):
            read[k] = t
    missing = sorted(k for k in read if k not in written)
    ctx.ob("KEYS-2", "FCIDUMP_chol: every dataset the reader opens is written", not missing and len(read) >= 4,
           f"reader opens {sorted(read)}; writer creates {sorted(written)}" + (f"; missing {missing}" if missing else ""), rd)
    # header: writer roles from the parameters, reader roles from the uses
    hw = written.get("header")
    w_roles = []
    if isinstance(hw, ast.Call) and hw.args and isinstance(hw.args[0], (ast.List, ast.Tuple)):
        for e in hw.args[0].elts:
            if isinstance(e, ast.Name) and e.id in wparams:
                w_roles.append(e.id)
            elif isinstance(e, ast.Subscript) and isinstance(e.value, ast.Attribute) and e.value.attr == "shape" and \
                    isinstance(e.value.value, ast.Name) and e.value.value.id in wparams and \
                    isinstance(e.slice, ast.Constant) and e.slice.value == 0:
                w_roles.append("n" + e.value.value.id)
            else:
                w_roles.append("?")
    H = read.get("header")

    def hpos(t):
        """position of the header field term t is (through int(.) / array wrappers), else None"""
        t = strip_wrappers(t)
        for _ in range(4):
            if t.op == "call" and func_name(t) in ("builtins.int", "numpy.int64", "builtins.abs") and len(t.args) == 2 \
                    and func_name(t) != "builtins.abs":
                t = strip_wrappers(t.args[1])
            else:
                break
        if H is not None and t.op == "getitem" and t.args[0] is H and t.args[1].op == "const" and \
                isinstance(t.args[1].args[0], int):
            return t.args[1].args[0]
        return None
    r_pos = {}
    split_ok = False
    for t in terms:
        # ((N + abs(M)) // 2, (N - abs(M)) // 2)
        if t.op == "tuple" and len(t.args) == 2:
            halves = []
            for e in t.args:
                e = strip_wrappers(e)
                if e.op == "binop" and e.args[0] == "//" and e.args[2].op == "const" and e.args[2].args[0] == 2 and \
                        strip_wrappers(e.args[1]).op == "binop" and strip_wrappers(e.args[1]).args[0] in ("+", "-"):
                    b_ = strip_wrappers(e.args[1])
                    ab = strip_wrappers(b_.args[2])
                    if ab.op == "call" and (func_name(ab) or "").split(".")[-1] in ("abs", "absolute") and call_parts(ab)[1]:
                        halves.append((b_.args[0], hpos(b_.args[1]), hpos(call_parts(ab)[1][0])))
            if len(halves) == 2 and halves[0][1:] == halves[1][1:] and None not in halves[0][1:] and \
                    (halves[0][0], halves[1][0]) == ("+", "-"):
                r_pos[halves[0][1]] = "nelec"
                r_pos[halves[0][2]] = "ms"
                split_ok = True

    def derives_from(t, k):
        return any(dataset(x) == k for x in subterms(t))

    def reshape_dims(t):
        """(array, [dims]) of x.reshape(d1, d2, ..) / x.reshape((d1, ..))"""
        if t.op == "call" and t.args[0].op == "attr" and t.args[0].args[1] == "reshape":
            dims = call_parts(t)[1]
            if len(dims) == 1 and dims[0].op in ("tuple", "list"):
                dims = list(dims[0].args)
            return t.args[0].args[0], list(dims)
        return None
    shape_pos = set()
    for t in terms:
        rs = reshape_dims(t)
        if rs is not None and (derives_from(rs[0], "hcore") or derives_from(rs[0], "chol")) and len(rs[1]) >= 2:
            for d_ in rs[1]:
                hp = hpos(d_)
                if hp is not None and not (len(rs[1]) == 2 and is_neg1(rs[1][1])):
                    shape_pos.add(hp)
    if len(shape_pos) == 1:
        r_pos[next(iter(shape_pos))] = "nmo"
    reader_roles = [r_pos.get(k_, "nchol" if k_ == 3 else "?") for k_ in range(4)] if H is not None else []
    ctx.ob("KEYS-2", "FCIDUMP_chol: header fields are packed and unpacked in the same order",
           H is not None and w_roles == ["nelec", "nmo", "ms", "nchol"] and reader_roles == w_roles,
           f"writer packs {w_roles}; reader uses its four header values as {reader_roles}", wd)
    nmo_pos = next(iter(shape_pos)) if len(shape_pos) == 1 else None

    # layout
    def flat(k):
        v = written.get(k)
        return isinstance(v, ast.Call) and isinstance(v.func, ast.Attribute) and v.func.attr in ("flatten", "ravel") \
            and not v.args

    def reshaped(k, want):
        """the array read from dataset k is reshaped to `want` ('n' = the header's nmo field, -1 = the literal)"""
        for t in terms:
            rs = reshape_dims(t)
            if rs is not None and derives_from(rs[0], k) and not any(reshape_dims(x) is not None for x in subterms(rs[0])):
                got = ["n" if hpos(d_) == nmo_pos and nmo_pos is not None else (-1 if is_neg1(d_) else "?") for d_ in rs[1]]
                return got == want
        return False

    chol_2d = any(isinstance(nd, ast.Assert) and "len(chol.shape) == 2" in ast.unparse(nd.test)
                  for nd in ast.walk(wnode))
    ctx.ob("KEYS-2", "FCIDUMP_chol: hcore written flat row-major, read back as (nmo, nmo)",
           flat("hcore") and nmo_pos is not None and reshaped("hcore", ["n", "n"]),
           "flatten() <-> reshape(nmo, nmo)", wd)
    ctx.ob("KEYS-2", "FCIDUMP_chol: chol (nchol, nmo^2) written flat, read back as (-1, nmo, nmo)",
           flat("chol") and chol_2d and nmo_pos is not None and reshaped("chol", [-1, "n", "n"]),
           "flatten() of a 2-D array <-> reshape(-1, nmo, nmo)", wd)
    # the hcore that is read is the bare one-body matrix, not the modified one (parameters of write_dqmc)
    ctx.ob("KEYS-2", "FCIDUMP_chol: dataset 'hcore' holds the parameter hcore (not hcore_mod)",
           isinstance(written.get("hcore"), ast.Call) and ast.unparse(written["hcore"].func.value) == "hcore",
           f"file['hcore'] = {ast.unparse(written['hcore']) if 'hcore' in written else '?'}", wd)
    ctx.ob("KEYS-2", "FCIDUMP_chol: dataset 'energy_core' holds enuc", "energy_core" in written and
           ast.unparse(written["energy_core"]) == "enuc", "", wd)
    ctx.ob("KEYS-2", "_prep_afqmc: (n_up, n_dn) = ((N + |ms|)//2, (N - |ms|)//2)", split_ok, "", rd)


def _savez_sites(p, pa) -> List[Tuple[str, Set[str], int, str]]:
    """(file name, keys, line, description) of every np.savez call in prep_afqmc, from the value graph: keys given as
    keywords or as **dict; a dict chosen between alternatives (UCCSD / CCSD branch) gives one entry per alternative"""
    from ..symex import Evaluator, call_parts, func_name, strip_wrappers
    ev = Evaluator(p)
    ev.eval_function(pa)
    out = []
    seen = set()
    for e in ev.events:
        if e.kind != "call" or not hasattr(e.data, "op") or e.data.op != "call" or \
                not (func_name(e.data) or "").endswith("savez") or e.data.uid in seen:
            continue
        seen.add(e.data.uid)
        _, pos, kws = call_parts(e.data)
        if not pos or pos[0].op != "const":
            continue
        fn = pos[0].args[0]
        alts = [dict(kws)]

        def arms(d):
            d = strip_wrappers(d)
            if d.op == "dict":
                return [{d.args[j].args[0]: d.args[j + 1] for j in range(0, len(d.args) - 1, 2)
                         if d.args[j].op == "const" and isinstance(d.args[j].args[0], str)}]
            if d.op in ("phi", "ifexp"):
                return arms(d.args[1]) + arms(d.args[2])
            return []
        for a_ in e.data.args[1:]:
            if a_.op == "dstar":
                got = arms(a_.args[0])
                if got:
                    alts = [dict(base, **g) for base in alts for g in got]
        for al in alts:
            out.append((fn, set(al), e.line, ",".join(sorted(al))))
    return out


def npz_files(ctx):
    p = ctx.p
    pa = p.func("pyscf_interface.prep_afqmc")
    rd = p.func("mpi_jax._prep_afqmc")
    saves: List[Tuple[str, Set[str], int, str]] = _savez_sites(p, pa)
    mo_saves = [s for s in saves if s[0] == "mo_coeff.npz"]
    ctx.ob("KEYS-2", "mo_coeff.npz: every writer site stores the array under 'mo_coeff'", len(mo_saves) >= 1 and
           all(s[1] == {"mo_coeff"} for s in mo_saves), f"{[(s[2], sorted(s[1])) for s in mo_saves]}", pa)
    def is_load(c_):
        return isinstance(c_, ast.Call) and (dotted(c_.func) or "").endswith("load") and c_.args and \
            _str_const(c_.args[0]) == "mo_coeff.npz"
    loads = []
    for sc_ in with_private_helpers(p, rd):
        handles = set()          # names the opened archive is bound to: `with np.load(..) as f`, `f = np.load(..)`
        for nd in ast.walk(sc_):
            if isinstance(nd, ast.With):
                for it_ in nd.items:
                    if is_load(it_.context_expr) and isinstance(it_.optional_vars, ast.Name):
                        handles.add(it_.optional_vars.id)
            elif isinstance(nd, ast.Assign) and is_load(nd.value) and len(nd.targets) == 1 and isinstance(nd.targets[0], ast.Name):
                handles.add(nd.targets[0].id)
        for nd in ast.walk(sc_):
            if isinstance(nd, ast.Subscript) and isinstance(nd.ctx, ast.Load) and (
                    is_load(nd.value) or (isinstance(nd.value, ast.Name) and nd.value.id in handles)):
                loads.append(nd)
    ctx.ob("KEYS-2", "mo_coeff.npz: the reader loads the key that is written", len(loads) == 1 and
           _str_const(loads[0].slice) == "mo_coeff", f"reads {[_str_const(l.slice) for l in loads]}", rd)
    # spin slicing in the reader:  X[s][:, :N[t]]  must have s == t -- on the value graph, so that named temporaries
    # (n_up, n_dn = nelec_sp; occ_up = mo_coeff[0][:, :n_up]) are seen through
    from ..symex import Evaluator, strip_wrappers, subterms
    ev_ = Evaluator(p)
    ev_.eval_function(rd)
    pairs = []
    seen_ = set()
    # the per-spin electron counts: the elements of the tuple ((N + |ms|) // 2, (N - |ms|) // 2)
    counts = {}
    for e in ev_.events:
        if e.kind == "assign" and hasattr(e.data[1], "op") and e.data[1].op == "tuple" and len(e.data[1].args) == 2:
            el = [strip_wrappers(a_) for a_ in e.data[1].args]
            if all(a_.op == "binop" and a_.args[0] == "//" for a_ in el) and \
                    [strip_wrappers(a_.args[1]).args[0] if strip_wrappers(a_.args[1]).op == "binop" else None for a_ in el] == ["+", "-"]:
                counts = {el[0].uid: 0, el[1].uid: 1}
    for e in ev_.events:
        vals = [e.data[1]] if e.kind == "assign" else ([e.data[2]] if e.kind == "store" else ([e.data] if e.kind == "call" else []))
        for val in vals:
            if not hasattr(val, "op"):
                continue
            for x in subterms(val):
                if x.uid in seen_:
                    continue
                seen_.add(x.uid)
                if x.op == "getitem" and x.args[1].op == "tuple" and len(x.args[1].args) == 2 and \
                        x.args[1].args[1].op == "slice":
                    blk = strip_wrappers(x.args[0])
                    up = strip_wrappers(x.args[1].args[1].args[1])
                    if blk.op == "getitem" and blk.args[1].op == "const" and blk.args[1].args[0] in (0, 1):
                        if up.uid in counts:
                            pairs.append((blk.args[1].args[0], counts[up.uid], 0))
                        elif up.op == "getitem" and up.args[1].op == "const" and up.args[1].args[0] in (0, 1):
                            pairs.append((blk.args[1].args[0], up.args[1].args[0], 0))
    ok = len(pairs) >= 2 and all(a_ == b_ for a_, b_, _ in pairs) and {a_ for a_, _, _ in pairs} == {0, 1}
    ctx.ob("PAIR-1", "_prep_afqmc: orbital block s is sliced with the electron count of spin s", ok,
           f"(block, count) index pairs {sorted({(a_, b_) for a_, b_, _ in pairs})}", rd)
    # amplitudes
    amp = [s for s in saves if s[0] == "amplitudes.npz"]
    by_keys = {frozenset(s[1]): s for s in amp}
    restricted = next((s for s in amp if "ci1" in s[1]), None)
    unrestricted = next((s for s in amp if "ci1a" in s[1]), None)
    # reader side, on the value graph of _prep_afqmc specialised to the trial kind: which npz keys are loaded and under
    # which wave_data key each loaded array is stored
    from ..symex import specialise, subterms as _sub2, const as _const2, getitem as _gi2, func_name as _fn2, call_parts as _cp2
    _ev1, _R1, tr_t = _prep_specialised(p, rd)
    for kind, wsave in (("cisd", restricted), ("ucisd", unrestricted)):
        if _R1 is None or tr_t is None or wsave is None:
            if wsave is None:
                ctx.ob("KEYS-2", f"amplitudes.npz: branch for trial '{kind}' exists on both sides", False,
                       "the writer stores no amplitude file for this kind", rd)
            else:
                ctx.rep.note(f"_prep_afqmc: value graph not specialisable for trial '{kind}'; amplitude key rules not applicable")
            continue
        sp_wd = specialise(_gi2(_R1, _const2(4)), {tr_t: _const2(kind)})
        ents = _dict_entries(sp_wd)

        def npz_keys(v):
            out = []
            for x in _sub2(v):
                if x.op == "getitem" and x.args[1].op == "const" and isinstance(x.args[1].args[0], str):
                    b_ = strip_wrappers(x.args[0])
                    if b_.op == "call" and (_fn2(b_) or "").endswith("load") and _cp2(b_)[1] and \
                            _cp2(b_)[1][0].op == "const" and _cp2(b_)[1][0].args[0] == "amplitudes.npz":
                        out.append(x.args[1].args[0])
            return out
        pairs = [(K, (npz_keys(V) or [None])[0]) for K, V in ents.items() if npz_keys(V)]
        rk = {k_ for _, k_ in pairs}
        if not pairs:
            # a local object handed to a callee that is chosen at run time (a table of builder functions, a strategy object):
            # what that callee stores into it is not followed -- not judged
            dyn = None
            for sc_ in with_private_helpers(p, rd):
                local_ = {n_.id for n_ in ast.walk(sc_) if isinstance(n_, ast.Name) and isinstance(n_.ctx, ast.Store)}
                for c_ in ast.walk(sc_):
                    if isinstance(c_, ast.Call) and any(isinstance(a_, ast.Name) for a_ in
                                                        list(c_.args) + [k_.value for k_ in c_.keywords]):
                        f_ = c_.func
                        if (isinstance(f_, ast.Name) and f_.id in local_) or isinstance(f_, (ast.Subscript, ast.Call)):
                            dyn = ast.unparse(c_)[:60]
            if dyn is not None:
                ctx.rep.note(f"_prep_afqmc: wave_data is filled by a callee selected at run time (`{dyn}`); the amplitude key "
                             f"rules for trial '{kind}' are not applied")
                continue
            ctx.ob("KEYS-2", f"amplitudes.npz: branch for trial '{kind}' exists on both sides", False,
                   "no array loaded from amplitudes.npz reaches wave_data for this kind", rd)
            continue
        ctx.ob("KEYS-2", f"amplitudes.npz: arrays read for trial '{kind}' are the arrays written", bool(rk) and
               rk <= wsave[1], f"reads {sorted(rk)}; writer stores {sorted(wsave[1])}", rd)
        badp = [f"{K} <- {k_}" for K, k_ in pairs if k_ is None or K.lower() != k_.lower()]
        ctx.ob("KEYS-2", f"_prep_afqmc: wave_data entries of trial '{kind}' carry the arrays they are named for",
               not badp, f"{pairs}", rd)
    amplitude_provenance(ctx)


def amplitude_provenance(ctx):
    """KEYS-2 on the writer side, by provenance on the value graph of prep_afqmc: the array stored under 'ci1a' is
    built from cc.t1[0], 'ci2ab' from cc.t2[1] (+ t1[0] x t1[1]) etc. -- decided from the terms, not from what the
    local variables are called."""
    from ..symex import Evaluator, call_parts, func_name, strip_wrappers, subterms
    p = ctx.p
    pa = p.func("pyscf_interface.prep_afqmc")
    ev = Evaluator(p)
    ev.eval_function(pa)
    want = {"ci1": ({"t1": {None}}, set()), "ci2": ({"t2": {None}, "t1": {None}}, set()),
            "ci1a": ({"t1": {0}}, set()), "ci1b": ({"t1": {1}}, set()),
            "ci2aa": ({"t2": {0}, "t1": {0}}, set()), "ci2bb": ({"t2": {2}, "t1": {1}}, set()),
            "ci2ab": ({"t2": {1}, "t1": {0, 1}}, set())}
    seen_keys = set()
    for e in ev.events:
        if e.kind != "call" or not (func_name(e.data) or "").endswith("savez"):
            continue
        _, pos, kws = call_parts(e.data)
        if not pos or not (pos[0].op == "const" and pos[0].args[0] == "amplitudes.npz"):
            continue
        items = dict(kws)

        def dict_items(d):
            """entries of **d where d is a dict display or a choice between dict displays"""
            d = strip_wrappers(d)
            if d.op == "dict":
                for j in range(0, len(d.args) - 1, 2):
                    if d.args[j].op == "const" and isinstance(d.args[j].args[0], str):
                        items.setdefault(d.args[j].args[0], d.args[j + 1])
            elif d.op in ("phi", "ifexp"):
                dict_items(d.args[1])
                dict_items(d.args[2])
        for a_ in e.data.args[1:]:
            if a_.op == "dstar":
                dict_items(a_.args[0])
        for k, v in items.items():
            seen_keys.add(k)
            uses: Dict[str, set] = {}
            for x in subterms(v):
                if x.op == "attr" and x.args[1] in ("t1", "t2"):
                    uses.setdefault(x.args[1], set())
            for x in subterms(v):
                if x.op == "getitem" and x.args[0].op == "attr" and x.args[0].args[1] in ("t1", "t2") and \
                        x.args[1].op == "const":
                    uses[x.args[0].args[1]].add(x.args[1].args[0])
            for a_ in uses:
                if not uses[a_]:
                    uses[a_] = {None}
            exp = want.get(k)
            ok = exp is not None and uses == exp[0]
            ctx.ob("KEYS-2", f"amplitudes.npz: the array stored under '{k}' is built from the matching cluster amplitudes",
                   ok, f"built from {dict((a_, sorted(map(str, b_))) for a_, b_ in uses.items())}" +
                   ("" if ok else f"; expected {dict((a_, sorted(map(str, b_))) for a_, b_ in exp[0].items()) if exp else 'a known key'}"),
                   pa, e.line)
        # SYM-1: the two same-spin doubles blocks are built by one formula: ci2bb is ci2aa with the alpha amplitudes
        # (t1[0], t2[0]) replaced by the beta ones (t1[1], t2[2])
        if "ci2aa" in items and "ci2bb" in items:
            from ..rules.gvn import GVN, TooBig, compare_forms
            from ..symex import const as _c, getitem as _gi
            roots = {}
            for x in subterms(items["ci2aa"]):
                if x.op == "getitem" and x.args[0].op == "attr" and x.args[0].args[1] in ("t1", "t2") and x.args[1].op == "const":
                    roots[x.args[0].args[1]] = x.args[0]
            hyp = {}
            for nm_, (a_, b_) in (("t1", (0, 1)), ("t2", (0, 2))):
                if nm_ in roots:
                    hyp[_gi(roots[nm_], _c(a_))] = _gi(roots[nm_], _c(b_))
            try:
                g = GVN(ev, hyp)
                fa = g.number(items["ci2aa"])
                g2 = GVN(ev, None)
                g2.atoms, g2.atom_keys = g.atoms, g.atom_keys
                fb = g2.number(items["ci2bb"])
                verdict = compare_forms(g, fa, fb)
            except TooBig:
                verdict = "undecided"
            if verdict == "undecided" or not hyp:
                ctx.rep.note("prep_afqmc: ci2aa and ci2bb are written with operations the value numbering does not relate; the "
                             "spin-mirror rule is not applied")
            else:
                da = {k_: v for k_, v in fa.items() if fb.get(k_) != v}
                db = {k_: v for k_, v in fb.items() if fa.get(k_) != v}
                ctx.ob("SYM-1", "amplitudes.npz: ci2bb is ci2aa with the beta amplitudes in place of the alpha ones",
                       verdict != "differ", "equal value numbers under t1[0] -> t1[1], t2[0] -> t2[2]" if verdict != "differ" else
                       f"the two same-spin blocks differ: {g.describe(da)[:160]}  vs  {g.describe(db)[:160]}", pa, e.line)
    if len(seen_keys) == 0:
        raise AnalysisError("prep_afqmc: no amplitude array reaches np.savez('amplitudes.npz', ...)")
    if len(seen_keys) < 7:
        # part of the amplitude conversion is dispatched in a way the value graph does not follow (singledispatch on the
        # cluster object, ...): the arrays that were found are judged, the others are not
        ctx.rep.note(f"prep_afqmc: {len(seen_keys)} of 7 amplitude arrays were followed to np.savez('amplitudes.npz', ...); "
                     f"the others are not judged")


def _prep_specialised(p, rd):
    """(evaluator, result tuple, options['trial'] term): the value graph of _prep_afqmc, to be specialised per option"""
    from ..symex import Evaluator as _Ev, const as _const, getitem as _gi
    ev = _Ev(p)
    R = ev.result(ev.eval_function(rd))
    if R is None:
        return ev, None, None
    opts = _gi(R, _const(7))
    tr = _gi(opts, _const("trial"))
    if tr.op == "getitem" and tr.args[0] is opts:
        tr = None
    return ev, R, tr


def _dict_entries(t) -> Dict[str, object]:
    """string-keyed entries of a dict value: display entries and the stores / updates applied on top of it"""
    from ..symex import strip_wrappers
    out: Dict[str, object] = {}
    chain = []
    t = strip_wrappers(t)
    while t.op == "setitem":
        chain.append((t.args[1], t.args[2]))
        t = strip_wrappers(t.args[0])
    if t.op == "dict":
        for j in range(0, len(t.args) - 1, 2):
            if t.args[j].op == "const" and isinstance(t.args[j].args[0], str):
                out[t.args[j].args[0]] = t.args[j + 1]
    for k, v in reversed(chain):
        if k.op == "const" and isinstance(k.args[0], str):
            out[k.args[0]] = v
    return out


def trial_dispatch(ctx):
    """Decided on the value graph of _prep_afqmc specialised to each documented value of options['trial'] (the dispatch
    may be an if-chain in any order, a table, guard clauses ...): which class is constructed and which wave_data keys
    are provided."""
    from ..symex import specialise, subterms as _sub, const as _const, getitem as _gi, strip_wrappers, show
    p = ctx.p
    rd = p.func("mpi_jax._prep_afqmc")
    ka = keys.key_analysis(p)
    _ev0, _R0, tr_t = _prep_specialised(p, rd)
    if _R0 is None or _R0.op != "tuple" or len(_R0.args) != 9:
        raise AnalysisError("_prep_afqmc does not return the 9-tuple (ham_data, ham, prop, trial, wave_data, ...)")
    documented = ["rhf", "uhf", "noci", "cisd", "ucisd"]
    methods = ["_calc_overlap", "_calc_overlap_restricted", "_calc_force_bias", "_calc_force_bias_restricted",
               "_calc_energy", "_calc_energy_restricted", "_build_measurement_intermediates", "optimize"]
    if tr_t is None:
        ctx.rep.note("_prep_afqmc: options['trial'] not identified in the value graph; trial dispatch rules not applicable")
        documented = []
    for kind in documented:
        sp_trial = specialise(_gi(_R0, _const(3)), {tr_t: _const(kind)})
        made = sorted({x.args[0].args[0] for x in _sub(sp_trial) if x.op == "call" and x.args[0].op == "cls"
                       and x.args[0].args[0].startswith("wavefunctions.")})
        if not made:
            st_ = strip_wrappers(sp_trial)
            dyn_call = [x for x in _sub(st_) if x.op == "call" and x.args[0].op in ("call", "getitem", "phi", "ifexp", "sym", "attr")
                        and not (x.args[0].op == "attr" and x.args[0].args[0].op in ("name", "global"))]
            if dyn_call:
                # the trial is produced by a callee picked from a table / returned by a selector: not followed, not judged
                ctx.rep.note(f"_prep_afqmc: for trial '{kind}' the trial object comes out of a callee selected at run time "
                             f"({show(dyn_call[0].args[0], maxdepth=2)[:50]}); the trial dispatch rules are not applied to it")
                continue
            ctx.ob("KEYS-1", f"_prep_afqmc: documented trial '{kind}' has a branch", False,
                   "no trial class is constructed for this value", rd)
            continue
        cls = made[0] if len(made) == 1 else None
        ok_cls = cls == f"wavefunctions.{kind}"
        ctx.ob("KEYS-1", f"_prep_afqmc: options['trial'] == '{kind}' constructs wavefunctions.{kind}", ok_cls,
               f"constructs {made}", rd)
        if not ok_cls:
            continue
        sp_wd = specialise(_gi(_R0, _const(4)), {tr_t: _const(kind)})
        written = set(_dict_entries(sp_wd))
        need = set(keys.reads_of(ka, cls, methods, "wave_data"))
        missing = sorted(need - written)
        ctx.ob("KEYS-1", f"_prep_afqmc: wave_data assembled for '{kind}' has every key that class reads",
               not missing, f"class reads {sorted(need)}; branch provides {sorted(written)}" +
               (f"; missing {missing}" if missing else ""), rd)
    _R = _R0
    # walker types: the propagator class the returned `prop` is an instance of when options['walker_type'] has the given
    # value, read off the value graph (the choice may be an if-chain, a class variable, a table ...)
    prop_t = _gi(_R, _const(2)) if _R is not None else None
    opts_t = _gi(_R, _const(7)) if _R is not None else None
    wt_t = _gi(opts_t, _const("walker_type")) if opts_t is not None else None
    for wt, cls in (("rhf", "propagator_restricted"), ("uhf", "propagator_unrestricted")):
        if prop_t is None or wt_t is None or (wt_t.op == "getitem" and wt_t.args[0] is opts_t):
            ctx.rep.note("_prep_afqmc: options['walker_type'] / the returned propagator not identified; walker-type binding "
                         "rule not applicable")
            break
        sp = specialise(prop_t, {wt_t: _const(wt)})
        made = sorted({x.args[0].args[0] for x in _sub(sp) if x.op == "call" and x.args[0].op == "cls"
                       and x.args[0].args[0].startswith("propagation.")})
        ctx.ob("KEYS-1", f"_prep_afqmc: walker_type '{wt}' binds prop = propagation.{cls}", made == [f"propagation.{cls}"],
               f"constructs {made}", rd)


def with_private_helpers(p, fi, name: str = "options") -> List[ast.AST]:
    """The function body and the bodies of the module-level helpers of the same module it calls (transitively), each as
    a syntax tree in which the parameter that receives `name` is called `name` again: a set-up function split into
    `_read_options()`, `_fill_default_options(options)`, ... is read as one piece."""
    import copy
    mod = p.modules[fi.module]
    out, seen, todo = [], set(), [(fi, name)]
    while todo:
        f_, alias = todo.pop()
        if f_.qualname in seen or isinstance(f_.node, ast.Lambda):
            continue
        seen.add(f_.qualname)
        node = f_.node
        if alias is not None and alias != name:
            class Ren(ast.NodeTransformer):
                def visit_Name(self, n_):
                    if n_.id == alias:
                        return ast.copy_location(ast.Name(id=name, ctx=n_.ctx), n_)
                    return n_
            node = Ren().visit(copy.deepcopy(node))
        out.append(node)
        for c_ in ast.walk(node):
            if isinstance(c_, ast.Call) and isinstance(c_.func, ast.Name) and c_.func.id in mod.functions:
                g = mod.functions[c_.func.id]
                if g.cls is not None:
                    continue
                prm = [q.name for q in g.params if q.kind == "pos"]
                al = None
                for i_, a_ in enumerate(c_.args):
                    if isinstance(a_, ast.Name) and a_.id == name and i_ < len(prm):
                        al = prm[i_]
                for k_ in c_.keywords:
                    if isinstance(k_.value, ast.Name) and k_.value.id == name and k_.arg:
                        al = k_.arg
                todo.append((g, al))
    return out


def option_defaults_of(rd, p=None) -> Set[str]:
    """Keys of `options` that keep a user-supplied value (whatever it is, including falsy ones) and otherwise get a
    default:  options[k] = options.get(k, d)  /  options.setdefault(k, d)  /  if k not in options: options[k] = d.
    With the program given, the private helpers the set-up calls are read as part of it."""
    defaults: Set[str] = set()
    scopes = with_private_helpers(p, rd) if p is not None else [rd.node]
    for nd in [n_ for sc_ in scopes for n_ in ast.walk(sc_)]:
        if isinstance(nd, ast.Assign) and isinstance(nd.targets[0], ast.Subscript) and \
                isinstance(nd.targets[0].value, ast.Name) and nd.targets[0].value.id == "options":
            k = _str_const(nd.targets[0].slice)
            if k and isinstance(nd.value, ast.Call) and isinstance(nd.value.func, ast.Attribute) and \
                    nd.value.func.attr == "get" and len(nd.value.args) == 2 and _str_const(nd.value.args[0]) == k and \
                    isinstance(nd.value.func.value, ast.Name) and nd.value.func.value.id == "options":
                defaults.add(k)
        if isinstance(nd, ast.Call) and isinstance(nd.func, ast.Attribute) and nd.func.attr == "setdefault" and \
                isinstance(nd.func.value, ast.Name) and nd.func.value.id == "options" and len(nd.args) == 2:
            k = _str_const(nd.args[0])
            if k:
                defaults.add(k)
        if isinstance(nd, ast.If) and isinstance(nd.test, ast.Compare) and len(nd.test.ops) == 1 and \
                isinstance(nd.test.ops[0], ast.NotIn) and isinstance(nd.test.comparators[0], ast.Name) and \
                nd.test.comparators[0].id == "options":
            k = _str_const(nd.test.left)
            if k and any(isinstance(st, ast.Assign) and isinstance(st.targets[0], ast.Subscript) and
                         _str_const(st.targets[0].slice) == k for st in nd.body):
                defaults.add(k)
    return defaults


def options_defaults(ctx):
    p = ctx.p
    rd = p.func("mpi_jax._prep_afqmc")
    defaults = option_defaults_of(rd, p)
    reads: Dict[str, Tuple[str, int]] = {}
    for q in ("driver.afqmc", "driver.fp_afqmc", "mpi_jax._prep_afqmc"):
        fi = p.func(q)
        for nd in [n_ for sc_ in with_private_helpers(p, fi) for n_ in ast.walk(sc_)]:
            if isinstance(nd, ast.Subscript) and isinstance(nd.value, ast.Name) and nd.value.id == "options" and \
                    isinstance(nd.ctx, ast.Load):
                k = _str_const(nd.slice)
                if k:
                    reads.setdefault(k, (q, nd.lineno))
    mod = p.module("mpi_jax")
    for nd in ast.walk(mod.tree):
        if isinstance(nd, ast.Subscript) and isinstance(nd.value, ast.Name) and nd.value.id == "options" and \
                isinstance(nd.ctx, ast.Load):
            k = _str_const(nd.slice)
            if k:
                reads.setdefault(k, ("mpi_jax.<module>", nd.lineno))
    missing = sorted(k for k in reads if k not in defaults)
    ctx.ob("KEYS-1", "options: every options[k] read by the driver / set-up has a default in _prep_afqmc",
           not missing and len(reads) >= 15, f"{len(reads)} keys read, {len(defaults)} defaults" +
           (f"; without default: {[(k, reads[k]) for k in missing]}" if missing else ""), rd)
    # options.bin written / read
    ra = p.module("run_afqmc")
    wrote = [nd for nd in ast.walk(ra.tree) if isinstance(nd, ast.Call) and (dotted(nd.func) or "").endswith("pickle.dump")
             and ast.unparse(nd.args[0]) == "options"]
    names_w = {_str_const(nd.args[0]) for nd in ast.walk(ra.tree) if isinstance(nd, ast.Call)
               and dotted(nd.func) == "open" and nd.args}
    names_r = set()
    for sc_ in with_private_helpers(p, rd):
        dflt = {}
        if isinstance(sc_, (ast.FunctionDef, ast.AsyncFunctionDef)):
            pos_ = sc_.args.posonlyargs + sc_.args.args
            for a_, d_ in zip(pos_[len(pos_) - len(sc_.args.defaults):], sc_.args.defaults):
                dflt[a_.arg] = d_
            for a_, d_ in zip(sc_.args.kwonlyargs, sc_.args.kw_defaults):
                if d_ is not None:
                    dflt[a_.arg] = d_
        for nd in ast.walk(sc_):
            if isinstance(nd, ast.Call) and dotted(nd.func) == "open" and nd.args:
                a0 = nd.args[0]
                if isinstance(a0, ast.Name) and a0.id in dflt:          # open(fname) with fname="options.bin" by default
                    a0 = dflt[a0.id]
                elif isinstance(a0, ast.Name) and a0.id in p.modules[rd.module].constants:
                    a0 = p.modules[rd.module].constants[a0.id]
                names_r.add(_str_const(a0))
    ctx.ob("KEYS-2", "options.bin: the launcher pickles the options dict the set-up unpickles",
           len(wrote) >= 2 and "options.bin" in names_w and "options.bin" in names_r,
           f"writer opens {sorted(x for x in names_w if x)}; reader opens {sorted(x for x in names_r if x)}",
           p.func("run_afqmc.run_afqmc"))


def ene_err(ctx):
    """ene_err.txt carries (energy, error bar) in that order from driver.afqmc to run_afqmc; decided by positions."""
    p = ctx.p
    mod = p.module("mpi_jax")
    # (A, B) = driver.afqmc(...)
    pair = None
    for nd in ast.walk(mod.tree):
        if isinstance(nd, ast.Assign) and isinstance(nd.value, ast.Call) and dotted(nd.value.func) == "driver.afqmc" and \
                isinstance(nd.targets[0], ast.Tuple) and len(nd.targets[0].elts) == 2 and all(
                isinstance(e_, ast.Name) for e_ in nd.targets[0].elts):
            pair = [e_.id for e_ in nd.targets[0].elts]
    ctx.ob("KEYS-2", "mpi_jax: (energy, error) = driver.afqmc(...)", pair is not None and pair[0] != pair[1], f"{pair}",
           mod=mod.name)
    w = None
    from ..model import norm
    for nd in ast.walk(norm(mod.tree)):
        if isinstance(nd, ast.Call) and (dotted(nd.func) or "").endswith("savetxt") and len(nd.args) >= 2 and \
                _str_const(nd.args[0]) == "ene_err.txt":
            v = nd.args[1]
            if isinstance(v, ast.Call) and v.args and isinstance(v.args[0], (ast.List, ast.Tuple)):
                v = v.args[0]
            if isinstance(v, (ast.List, ast.Tuple)):
                w = [e_.id if isinstance(e_, ast.Name) else None for e_ in v.elts]
    ra = p.func("run_afqmc.run_afqmc")
    lv = None
    ranode = norm(ra.node)
    for nd in ast.walk(ranode):
        if isinstance(nd, ast.Assign) and isinstance(nd.targets[0], ast.Name) and isinstance(nd.value, ast.Call) and \
                (dotted(nd.value.func) or "").endswith("loadtxt") and nd.value.args and \
                _str_const(nd.value.args[0]) == "ene_err.txt":
            lv = nd.targets[0].id
    from ..model import returned_values
    rets = [v_ for _, v_ in returned_values(ranode)]
    r_idx = None
    if rets and isinstance(rets[-1], ast.Tuple):
        r_idx = [e_.slice.value if isinstance(e_, ast.Subscript) and isinstance(e_.value, ast.Name) and e_.value.id == lv
                 and isinstance(e_.slice, ast.Constant) else None for e_ in rets[-1].elts]
    ctx.ob("KEYS-2", "ene_err.txt: written as (energy, error) and read back in that order",
           pair is not None and w == pair and lv is not None and r_idx == [0, 1],
           f"writer stores {w} (driver results {pair}); reader returns entries {r_idx}", ra)
    drv = p.func("driver.afqmc")
    rets = [v_ for _, v_ in returned_values(drv.node, top_level_only=True)]
    rn = [e_.id if isinstance(e_, ast.Name) else None for e_ in rets[-1].elts] if rets and isinstance(
        rets[-1], ast.Tuple) else None
    from_ba = False
    if rn and len(rn) == 2 and None not in rn:
        for nd in ast.walk(drv.node):
            if isinstance(nd, ast.Assign) and isinstance(nd.targets[0], ast.Tuple) and isinstance(nd.value, ast.Call) and \
                    (dotted(nd.value.func) or "").endswith("blocking_analysis") and \
                    [e_.id if isinstance(e_, ast.Name) else None for e_ in nd.targets[0].elts] == rn:
                from_ba = True
    detail = f"returns {rn}"
    if not from_ba:
        # the pair may travel through a helper or be renamed on the way: decide on the value graph of driver.afqmc with
        # its helpers evaluated in place
        from ..symex import Evaluator, func_name, subterms, strip_wrappers
        ev = Evaluator(p)
        ev.auto_inline_helpers = True
        try:
            fr = ev.eval_function(drv)
            rv = [strip_wrappers(r_) for _, r_, _ in fr.returns]
        except Exception:
            rv = []
        verdicts = []
        for r_ in rv:
            if r_.op != "tuple" or len(r_.args) != 2:
                continue
            src = []
            for comp in r_.args:
                got = set()
                # values only: the tests of the selections on the way (is the error None? ...) are not part of the value
                pool, stack_, seen_ = [], [comp], set()
                while stack_:
                    x = stack_.pop()
                    if not hasattr(x, "op") or x.uid in seen_:
                        continue
                    seen_.add(x.uid)
                    pool.append(x)
                    stack_.extend(x.args[1:] if x.op in ("phi", "ifexp") and len(x.args) == 3 else x.args)
                for x in pool:
                    if x.op == "getitem" and x.args[1].op == "const" and x.args[1].args[0] in (0, 1) and \
                            x.args[0].op == "call" and (func_name(x.args[0]) or "").endswith("blocking_analysis"):
                        got.add(x.args[1].args[0])
                src.append(got)
            verdicts.append(src)
        if verdicts and all(v == [{0}, {1}] for v in verdicts):
            from_ba, detail = True, "value graph: (blocking_analysis(..)[0], blocking_analysis(..)[1])"
        elif not verdicts or any(not v[0] or not v[1] for v in verdicts):
            ctx.rep.note(f"driver.afqmc: the returned pair is not traced back to one blocking_analysis call ({detail}); "
                         f"the order of (energy, error) in the return value is not decided")
            return
        else:
            detail = f"value graph: result positions of blocking_analysis reaching the two returned values: {verdicts}"
    ctx.ob("KEYS-2", "driver.afqmc returns (energy, error) as blocking_analysis produced them", from_ba, detail, drv)


def prep_dataflow(ctx):
    """Def-use rules on pyscf_interface.prep_afqmc (value graph of the function, nothing executed):
    which values reach write_dqmc, that they switch to the frozen-core quantities together, and that the
    QR-based orthonormalisation of the trial orbitals fixes signs column by column."""
    from ..rules.match import m_arrcall, m_binop, m_method, strip_reshape
    from ..symex import (Evaluator, array_fn, call_parts, const, func_name, getitem, is_const, show,
                         strip_wrappers, subterms)

    p = ctx.p
    pa = p.func("pyscf_interface.prep_afqmc")
    wd = p.func("pyscf_interface.write_dqmc")
    ev = Evaluator(p)
    ev.eval_function(pa)
    calls = [e.data for e in ev.events if e.kind == "call" and (func_name(e.data) or "").endswith("write_dqmc")]
    if len(calls) != 1:
        raise AnalysisError(f"prep_afqmc: {len(calls)} write_dqmc calls in the value graph")
    _, pos, kws = call_parts(calls[0])
    names = [x.name for x in wd.params]
    arg = dict(zip(names, pos))
    arg.update(kws)
    need = ("hcore", "hcore_mod", "chol", "nelec", "nmo", "enuc")
    if any(k not in arg for k in need):
        raise AnalysisError("prep_afqmc: write_dqmc call does not supply " + str([k for k in need if k not in arg]))
    h1, h1m, chol, nel, nmo, enuc = (strip_wrappers(arg[k]) for k in need)

    def has(t, pred):
        return any(pred(x) for x in subterms(t))

    # hcore_mod = hcore - v0(chol)
    d = m_binop(h1m, "-")
    ok_mod = d is not None and strip_wrappers(d[0]) is h1 and has(d[1], lambda x: x.op == "call" and array_fn(x) == "einsum")
    chol_core = strip_reshape(chol)
    v0_uses = d is not None and has(d[1], lambda x: strip_reshape(x) is chol_core)
    ctx.ob("KEYS-2", "prep_afqmc -> write_dqmc: hcore_mod is hcore minus the self-interaction built from the "
           "Cholesky vectors that are written", ok_mod and v0_uses,
           "hcore_mod = hcore - einsum(chol, chol)" if ok_mod and v0_uses else
           f"hcore_mod = {show(h1m, maxdepth=2)[:80]}", pa)
    ctx.ob("KEYS-2", "prep_afqmc -> write_dqmc: hcore is not the modified one-body operator",
           not has(h1, lambda x: x is h1m) and h1 is not h1m, "", pa)
    ok_nmo = nmo.op == "getitem" and nmo.args[0].op == "attr" and nmo.args[0].args[1] == "shape" and \
        strip_wrappers(nmo.args[0].args[0]) is h1
    ctx.ob("KEYS-2", "prep_afqmc -> write_dqmc: nmo is the dimension of the hcore that is written", ok_nmo,
           show(nmo, maxdepth=2)[:80], pa)
    ok_nel = nel.op == "call" and func_name(nel) in ("builtins.sum", "numpy.sum") and has(
        nel, lambda x: x.op == "attr" and x.args[1] in ("nelec", "nelecas"))
    ctx.ob("KEYS-2", "prep_afqmc -> write_dqmc: nelec is the sum of an (n_alpha, n_beta) pair", ok_nel,
           show(nel, maxdepth=2)[:80], pa)
    ms = strip_wrappers(arg.get("ms")) if arg.get("ms") is not None else None
    fn_ = arg.get("filename")
    ctx.ob("KEYS-2", "prep_afqmc -> write_dqmc: ms is the molecule's spin and the file is the one the set-up reads",
           ms is not None and ms.op == "attr" and ms.args[1] == "spin" and fn_ is not None and is_const(fn_, "FCIDUMP_chol"),
           f"ms = {show(ms, maxdepth=1)[:40] if ms is not None else None}, filename = {show(fn_) if fn_ is not None else None}", pa)
    # the one-body integrals are the mean-field object's own (mf.get_hcore()): a mean field whose core Hamiltonian was
    # customised (mf.get_hcore = lambda *a: h, the idiom finite_difference_properties itself uses for an external field)
    # was optimised with that operator; rebuilding hcore from the molecule (pyscf's module-level scf.hf.get_hcore(mol))
    # writes a Hamiltonian the orbitals and the reference energy do not belong to
    rebuilt = [x for x in subterms(h1) if x.op == "call" and (func_name(x) or "").endswith(".get_hcore")
               and x.args[0].op != "attr"]
    own = [x for x in subterms(h1) if x.op == "call" and x.args[0].op == "attr" and x.args[0].args[1] == "get_hcore"]
    if rebuilt or own:
        ctx.ob("KEYS-2", "prep_afqmc: the one-body integrals are taken from the mean-field object (mf.get_hcore())",
               not rebuilt, (f"{show(rebuilt[0], maxdepth=2)[:70]} rebuilds the core Hamiltonian from the molecule: a customised "
                             f"mf.get_hcore is ignored") if rebuilt else f"{len(own)} get_hcore() call(s) on the mean-field object", pa)
    else:
        ctx.rep.note("prep_afqmc: no get_hcore call reaches the written hcore; the source of the one-body integrals is not judged")
    # frozen core: everything switches to the active space together
    eff = [x for x in subterms(h1) if x.op == "call" and x.args[0].op == "attr" and x.args[0].args[1] == "get_h1eff"]
    ctx.ob("KEYS-2", "prep_afqmc: the frozen-core branch takes hcore from an active-space object (get_h1eff)",
           len(eff) == 1, f"{len(eff)} get_h1eff receivers reach hcore", pa)
    if len(eff) == 1:
        M = strip_wrappers(eff[0].args[0].args[0])
        conds = [x.args[0] for x in subterms(h1) if x.op == "phi" and any(y is eff[0] for y in subterms(x.args[1]))
                 and not any(y is eff[0] for y in subterms(x.args[2]))]
        if not conds:
            raise AnalysisError("prep_afqmc: get_h1eff is not under a branch")
        c = conds[0]

        def switches(t, attr_pred):
            return any(x.op == "phi" and x.args[0] is c and any(
                attr_pred(y) and any(z is M for z in subterms(y)) for y in subterms(x.args[1])) for x in subterms(t))

        # the active-space object works in the basis the integrals are written in: its mo_coeff is set to the
        # basis_coeff of the call before the effective one-body term is taken from it (CASSCF otherwise keeps the
        # mean-field orbitals, and hcore / enuc come out in another basis than chol and the trial)
        sets = [(i_, e_) for i_, e_ in enumerate(ev.events) if e_.kind == "setattr" and e_.data[1] == "mo_coeff"
                and strip_wrappers(e_.data[0]) is M]
        call_at = [i_ for i_, e_ in enumerate(ev.events) if e_.kind == "call" and e_.data is eff[0]]
        ok_basis = bool(sets) and bool(call_at) and any(
            i_ < call_at[0] and any(y.op == "sym" and y.args[0] == "basis_coeff" for y in subterms(e_.data[2]))
            for i_, e_ in sets)
        ctx.ob("KEYS-2", "prep_afqmc: with a frozen core, the active-space object is given the AFQMC basis (basis_coeff) "
               "before get_h1eff", ok_basis,
               "mc.mo_coeff = basis_coeff precedes get_h1eff" if ok_basis else
               ("the object get_h1eff is called on never has its mo_coeff set to basis_coeff" if not sets else
                "mo_coeff is set after get_h1eff or not from basis_coeff"), pa)
        for label, t, pred in (
                ("nelec", nel, lambda y: y.op == "attr" and y.args[1] == "nelecas"),
                ("enuc", enuc, lambda y: y.op == "call" and y.args[0].op == "attr" and y.args[0].args[1] == "get_h1eff"),
                ("chol", chol, lambda y: y.op == "attr" and y.args[1] in ("ncore", "ncas"))):
            ok = switches(t, pred)
            ctx.ob("KEYS-2", f"prep_afqmc: with a frozen core, {label} written to the file comes from the same "
                   f"active-space object as hcore", ok,
                   f"under `{show(c, maxdepth=2)[:50]}`" if ok else
                   f"hcore switches to the active space under `{show(c, maxdepth=2)[:50]}` but {label} does not: "
                   f"{show(t, maxdepth=2)[:80]}", pa)
    # QR orthonormalisation of the trial orbitals: sign fix scales the columns of Q by sign(diag R)
    n_fix = 0
    seen = set()
    fixed_qr = set()
    for e in ev.events:
        if e.kind not in ("assign", "store", "call"):
            continue
        val = e.data if e.kind == "call" else (e.data[1] if e.kind == "assign" else e.data[2])
        if not hasattr(val, "op"):
            continue
        for x in subterms(val):
            if x.uid in seen:
                continue
            seen.add(x.uid)
            ops, form = None, None
            if x.op == "binop" and x.args[0] in ("*", "@"):
                ops, form = [x.args[1], x.args[2]], x.args[0]
            elif x.op == "call" and array_fn(x) == "einsum":
                _, ep, _ = call_parts(x)
                if len(ep) == 3 and ep[0].op == "const":
                    ops, form = [ep[1], ep[2]], "einsum:" + str(ep[0].args[0])
            elif x.op == "call" and x.args[0].op == "attr" and x.args[0].args[1] == "dot":
                ops, form = [x.args[0].args[0], call_parts(x)[1][0]], "@"
            if ops is None:
                continue

            def qr_part(t):
                t0 = strip_wrappers(t)
                if t0.op == "getitem" and t0.args[1].op == "const" and t0.args[0].op == "call" and \
                        (func_name(t0.args[0]) or "").endswith("linalg.qr"):
                    return t0.args[0], t0.args[1].args[0]
                return None

            def sign_of(t):
                """(qr call, index pattern) when t is sign(diag(R)) possibly indexed with None/newaxis"""
                t0 = strip_wrappers(t)
                pat = "plain"
                if t0.op == "getitem" and t0.args[1].op == "tuple":
                    kinds = []
                    for a in t0.args[1].args:
                        if a.op == "const" and a.args[0] is None or (a.op == "attr" and a.args[1] == "newaxis"):
                            kinds.append("new")
                        elif a.op == "slice" or (a.op == "const" and a.args[0] is Ellipsis):
                            kinds.append("all")
                        else:
                            kinds.append("?")
                    pat = ",".join(kinds)
                    t0 = strip_wrappers(t0.args[0])
                dg = False
                if t0.op == "call" and array_fn(t0) == "diag":
                    dg = True
                    t0 = strip_wrappers(call_parts(t0)[1][0])
                if not (t0.op == "call" and array_fn(t0) == "sign"):
                    return None
                inner = strip_wrappers(call_parts(t0)[1][0])
                r = None
                if inner.op == "call" and inner.args[0].op == "attr" and inner.args[0].args[1] == "diagonal":
                    r = qr_part(inner.args[0].args[0])
                elif inner.op == "call" and array_fn(inner) in ("diag", "diagonal"):
                    r = qr_part(call_parts(inner)[1][0])
                if r is None or r[1] != 1:
                    return None
                return r[0], ("diag" if dg else pat)

            for a, b, q_first in ((ops[0], ops[1], True), (ops[1], ops[0], False)):
                qp, sg = qr_part(a), sign_of(b)
                if qp is None or qp[1] != 0 or sg is None:
                    continue
                n_fix += 1
                fixed_qr.add(qp[0].uid)
                same = qp[0] is sg[0]
                if form == "*":
                    cols = sg[1] in ("plain", "new,all")
                elif form == "@":
                    cols = sg[1] == "diag" and q_first
                else:
                    sub = form.split(":", 1)[1].replace(" ", "")
                    try:
                        ins, out = sub.split("->")
                        i1, i2 = ins.split(",")
                        qi, si = (i1, i2) if q_first else (i2, i1)
                        cols = len(qi) == 2 and si == qi[1] and out == qi
                    except ValueError:
                        cols = False
                ctx.ob("PAIR-3", f"prep_afqmc: QR sign fix #{n_fix} scales the columns of Q by sign(diag R) of the same "
                       f"factorisation", same and cols,
                       ("Q and R of one qr call; " if same else "Q and R come from different qr calls; ") +
                       (f"column scaling ({form}, {sg[1]})" if cols else
                        f"{form} with sign vector indexed [{sg[1]}] scales rows, not columns"), pa, e.line)
    # every factorisation whose Q is used gets the fix: a qr call with its Q taken and no sign fix is the witness (how many
    # copies of the fix the source spells out -- three branches or one loop over the orbital blocks -- is not the point)
    all_qr = {}
    for e in ev.events:
        val = e.data if e.kind == "call" else (e.data[1] if e.kind == "assign" else (e.data[2] if e.kind == "store" else None))
        if not hasattr(val, "op"):
            continue
        for x in subterms(val):
            if x.op == "getitem" and x.args[1].op == "const" and x.args[1].args[0] == 0 and x.args[0].op == "call" and \
                    (func_name(x.args[0]) or "").endswith("linalg.qr"):
                all_qr.setdefault(x.args[0].uid, e.line)
    # ... among the factorisations whose R is looked at (the closed-shell branch discards R: one determinant for both
    # spins, its column signs cancel in every overlap ratio)
    r_used = set()
    for e in ev.events:
        val = e.data if e.kind == "call" else (e.data[1] if e.kind == "assign" else (e.data[2] if e.kind == "store" else None))
        if not hasattr(val, "op"):
            continue
        for x in subterms(val):
            if x.op == "getitem" and x.args[1].op == "const" and x.args[1].args[0] == 1 and x.args[0].op == "call" and \
                    (func_name(x.args[0]) or "").endswith("linalg.qr") and x is not val and x is not strip_wrappers(val):
                r_used.add(x.args[0].uid)        # read inside an expression, not merely unpacked into a name
    unfixed = sorted(ln for u, ln in all_qr.items() if u not in fixed_qr and u in r_used)
    if n_fix < 3:
        ctx.rep.note(f"prep_afqmc: {n_fix} sign fix(es) spelled out (3 on the reference tree: UHF alpha, UHF beta, ROHF); judged "
                     f"per factorisation, not by count")
    if not all_qr:
        ctx.rep.note("prep_afqmc: no qr call whose Q factor is used was found; the sign-fix rule does not apply")
    else:
        ctx.ob("PAIR-3", "prep_afqmc: QR-orthonormalised trial orbitals are sign-fixed (UHF alpha, UHF beta, ROHF)",
               n_fix >= 1 and not unfixed, f"{n_fix} sign fix(es) for {len(all_qr)} factorisation(s) whose Q is used" +
               (f"; the Q of the qr call(s) at line(s) {unfixed} is used without one" if unfixed else ""), pa)


def no_cross_call_state(ctx):
    """PURE-1.  prep_afqmc may be called several times in one process (a mean-field object, then a coupled-cluster object
    of the same molecule; a scan over geometries).  What it writes must be a function of its arguments alone: no
    function of the interface modules stores into a module-level container, so nothing computed for one call can leak
    -- possibly transformed in place by that call -- into the next."""
    p = ctx.p
    bad = []
    n_mod = 0
    for mname in ("pyscf_interface", "mpi_jax", "run_afqmc"):
        mod = p.modules.get(mname)
        if mod is None:
            continue
        n_mod += 1
        mutable = set()
        for st in mod.tree.body:
            tgt, val = None, None
            if isinstance(st, ast.Assign) and len(st.targets) == 1 and isinstance(st.targets[0], ast.Name):
                tgt, val = st.targets[0].id, st.value
            elif isinstance(st, ast.AnnAssign) and isinstance(st.target, ast.Name) and st.value is not None:
                tgt, val = st.target.id, st.value
            if tgt is None:
                continue
            if isinstance(val, (ast.Dict, ast.List, ast.Set)) or (isinstance(val, ast.Call) and (dotted(val.func) or "").split(".")[-1] in (
                    "dict", "list", "set", "defaultdict", "OrderedDict", "deque")):
                mutable.add(tgt)
        if not mutable:
            continue
        for fn in ast.walk(mod.tree):
            if not isinstance(fn, (ast.FunctionDef, ast.AsyncFunctionDef)):
                continue
            local = {a.arg for a in fn.args.args + fn.args.kwonlyargs} | {
                n.id for n in ast.walk(fn) if isinstance(n, ast.Name) and isinstance(n.ctx, ast.Store)}
            for n in ast.walk(fn):
                base = None
                if isinstance(n, ast.Subscript) and isinstance(n.ctx, (ast.Store, ast.Del)) and isinstance(n.value, ast.Name):
                    base = n.value.id
                elif isinstance(n, ast.Call) and isinstance(n.func, ast.Attribute) and isinstance(n.func.value, ast.Name) and \
                        n.func.attr in ("append", "extend", "update", "setdefault", "pop", "clear", "add", "insert", "popitem"):
                    base = n.func.value.id
                if base in mutable and base not in local:
                    bad.append(f"{mname}.{fn.name}:{n.lineno} stores into module-level '{base}'")
    ctx.ob("PURE-1", "interface modules: no function stores into a module-level container (no state shared between calls)",
           not bad, "; ".join(bad[:3]) or f"{n_mod} modules scanned", mod="pyscf_interface", line=1)


def arguments_not_modified(ctx):
    """MUT-1.  prep_afqmc computes what it writes from the mean-field / coupled-cluster object it is handed; the object
    stays the user's (prepared again with another threshold, used for the reference energy afterwards).  An in-place
    operator on an attribute of it, or on a NumPy view of one (np.asarray / reshape / ravel do not copy), changes the
    amplitudes or integrals every later call sees."""
    from ..rules.pitfalls import param_mutations
    for q in ("pyscf_interface.prep_afqmc", "pyscf_interface.write_dqmc", "pyscf_interface.generate_integrals"):
        try:
            fi = ctx.p.func(q)
        except AnalysisError:
            continue
        if fi.node is None or fi.is_jit:
            continue
        muts = param_mutations(fi.node, numpy_views=True, methods=True)
        ctx.ob("MUT-1", f"{q.split('.')[-1]}: the objects it is handed are not modified in place", not muts,
               "; ".join(f"line {ln}: {txt}" for ln, txt, prm in muts[:3]) or "no in-place operation on a parameter or a view of one",
               fi)


def run(ctx):
    no_cross_call_state(ctx)
    arguments_not_modified(ctx)
    fcidump(ctx)
    prep_dataflow(ctx)
    npz_files(ctx)
    trial_dispatch(ctx)
    options_defaults(ctx)
    ene_err(ctx)
    n = bind.bind1(ctx, ["mpi_jax", "run_afqmc", "pyscf_interface"])
    if n < 8:
        raise AnalysisError(f"BIND-1 matched only {n} call sites in the interface modules")
