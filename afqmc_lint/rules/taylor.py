"""CAP-1 instance for the Taylor-expanded two-body propagator (used by C04 and C05).

propagator._apply_trotprop_det builds  exp(vhs) w  ~  w + sum_{n} (vhs^{n+1} w) / (n+1)!  from the stacked
outputs of a lax.scan.  Decided on the value graph:
  * the scan body multiplies the carry by vhs once per step and emits the new carry (output k is vhs^{k+1} w);
  * the comprehension that sums the outputs ranges over exactly as many indices as the scan has outputs (an index
    past the end is clamped by JAX, silently adding the last term twice);
  * output n is divided by (n + 1)!;
  * the zeroth-order term (the walker itself) is added, and exp_h1 is applied on both sides.
"""

from __future__ import annotations

from fractions import Fraction
from typing import Dict, Optional

from ..model import AnalysisError
from ..symex import (T, Evaluator, array_fn, call_parts, const, func_name, getitem, is_const, match_scan, mk, show,
                     strip_wrappers, subterms, sym)
from .match import m_arrcall, m_binop


def affine(t: T) -> Optional[Dict[object, Fraction]]:
    """a*X + c over opaque atoms -> {atom uid: coef, None: const}"""
    t = strip_wrappers(t)
    if t.op == "const" and isinstance(t.args[0], (int, float)) and not isinstance(t.args[0], bool):
        return {None: Fraction(t.args[0])}
    if t.op == "binop" and t.args[0] in ("+", "-"):
        a, b = affine(t.args[1]), affine(t.args[2])
        if a is None or b is None:
            return None
        out = dict(a)
        sg = 1 if t.args[0] == "+" else -1
        for k, v in b.items():
            out[k] = out.get(k, Fraction(0)) + sg * v
        return {k: v for k, v in out.items() if v != 0}
    return {t.uid: Fraction(1)}


def dot_parts(t: T):
    """(a, b) of  a.dot(b) / a @ b / jnp.dot(a, b) / jnp.matmul(a, b)"""
    t = strip_wrappers(t)
    if t.op == "call":
        a_ = m_arrcall(t, "dot", "matmul")
        if a_ is not None and len(a_) == 2:
            return strip_wrappers(a_[0]), strip_wrappers(a_[1])
        if t.args[0].op == "attr" and t.args[0].args[1] == "dot" and len(call_parts(t)[1]) == 1:
            return strip_wrappers(t.args[0].args[0]), strip_wrappers(call_parts(t)[1][0])
    mm = m_binop(t, "@")
    return (strip_wrappers(mm[0]), strip_wrappers(mm[1])) if mm is not None else None


def same_affine(a: T, b: T) -> bool:
    fa, fb = affine(a), affine(b)
    return fa is not None and fb is not None and fa == fb


def check(ctx, rule: str = "CAP-1"):
    p = ctx.p
    fi = p.func("propagation.propagator._apply_trotprop_det")
    ev = Evaluator(p)
    fr = ev.eval_function(fi)
    R = strip_wrappers(ev.result(fr))
    q = "propagator._apply_trotprop_det"
    scans = [x for x in subterms(R) if x.op == "call" and match_scan(x) is not None]
    if len(scans) != 1:
        raise AnalysisError(f"{q}: expected one scan generating the powers, found {len(scans)}")
    f, init, xs, length = match_scan(scans[0])
    ar = m_arrcall(strip_wrappers(xs), "arange")
    xs0 = strip_wrappers(xs)
    if (xs0.op == "const" and xs0.args[0] is None) and length is not None and not (
            strip_wrappers(length).op == "const" and strip_wrappers(length).args[0] is None):
        # lax.scan(f, init, None, length=n): n outputs; max(n, 0) is n for the counts that occur
        ln_ = strip_wrappers(length)
        if ln_.op == "call" and (func_name(ln_) or "").split(".")[-1] in ("max", "maximum") and len(call_parts(ln_)[1]) == 2 \
                and any(a_.op == "const" and a_.args[0] == 0 for a_ in call_parts(ln_)[1]):
            ln_ = [a_ for a_ in call_parts(ln_)[1] if not (a_.op == "const" and a_.args[0] == 0)][0]
        lo, hi = const(0), ln_
        n_out = ln_
    elif ar is None or not (1 <= len(ar) <= 2):
        ctx.rep.note(f"{q}: the scan that generates the powers runs over neither arange(..) nor length=..; the series "
                     f"rules (CAP-1) do not apply")
        return
    else:
        lo, hi = (const(0), ar[0]) if len(ar) == 1 else (ar[0], ar[1])
        n_out = mk("binop", "-", hi, lo)
    C, x = sym("§carry"), sym("§x")
    body = ev.open_closure(f, [C, x])
    ok_body = False
    vhs = None
    if body.op == "tuple" and len(body.args) == 2:
        nc, y = strip_wrappers(body.args[0]), strip_wrappers(body.args[1])
        dp = dot_parts(nc)
        if nc is y and dp is not None and dp[1] is C:
            ok_body, vhs = True, dp[0]
    ctx.ob(rule, f"{q}: scan step k emits vhs applied to the previous output (output k is vhs^(k+1) w)", ok_body,
           "carry <- vhs . carry; y = carry" if ok_body else show(body, maxdepth=3)[:100], fi)
    ys = getitem(scans[0], const(1))
    # the summed terms: a comprehension  [ys[n] / f(n) for n in range(..)]  or a list filled by append in a for loop
    comps = [c for c in subterms(R) if c.op == "comp"] + [c for c in subterms(R) if c.op == "append"]
    elems = []
    for c in comps:
        el = c.args[1]
        el = strip_wrappers(el.args[0] if el.op == "tuple" and len(el.args) == 1 else el)
        d = m_binop(el, "/")
        if d is None:
            continue
        num, den = strip_wrappers(d[0]), strip_wrappers(d[1])
        if num.op == "getitem" and strip_wrappers(num.args[0]) is ys:
            its = [z for z in subterms(num.args[1]) if z.op == "iter"]
            if len(its) == 1:
                elems.append((c, its[0], num.args[1], den))
    if len(elems) != 1:
        # the terms are not summed as  ys[index] / divisor  inside a comprehension or an append loop: another way of
        # writing the series, which this rule does not model
        ctx.rep.note(f"{q}: no comprehension / append loop of the form ys[n] / f(n) over the scan output "
                     f"({len(elems)} candidates); series-coefficient rules not applicable")
        return
    c, it, idx, den = elems[0]
    rng = strip_wrappers(it.args[0])
    ra = call_parts(rng)[1] if rng.op == "call" and func_name(rng) == "builtins.range" else None
    ia = affine(idx)
    if ra is None or not (1 <= len(ra) <= 2) or ia is None or ia.get(it.uid) != 1 or set(ia) - {it.uid, None}:
        ctx.rep.note(f"{q}: the summed terms are not indexed by range(...) + constant; series-coefficient rules not applicable")
        return
    shift = ia.get(None, Fraction(0))                  # output index = loop variable + shift
    r_lo, r_hi = (const(0), ra[0]) if len(ra) == 1 else (ra[0], ra[1])
    lo_a, hi_a, n_a = affine(r_lo), affine(r_hi), affine(n_out)

    def plus(f, k):
        g = dict(f)
        g[None] = g.get(None, Fraction(0)) + k
        return {k_: v for k_, v in g.items() if v != 0}
    ok_cnt = lo_a is not None and hi_a is not None and n_a is not None and plus(lo_a, shift) == {} and \
        plus(hi_a, shift) == n_a
    ctx.ob(rule, f"{q}: the sum runs over exactly the outputs the scan produces", ok_cnt,
           f"indices {show(idx)} for range({show(r_lo)}, {show(r_hi)}) over {show(n_out)} outputs"
           + ("" if ok_cnt else " (an out-of-range index is clamped by JAX: the last term is added twice / a term is lost)"),
           fi)
    # the divisor of output m must be (m + 1)!:  factorial(loop variable + b) with b - shift == 1, or a running product
    # p = 1; p *= n  over range(1, ...) (which is n!) with shift == -1
    fact_arg = None
    if den.op == "call" and (func_name(den) or "").split(".")[-1] == "factorial":
        fa = affine(call_parts(den)[1][0])
        if fa is not None and fa.get(it.uid) == 1 and not (set(fa) - {it.uid, None}):
            fact_arg = fa.get(None, Fraction(0))
    else:
        mm = m_binop(den, "*")
        if mm is not None:
            for a_, b_ in ((mm[0], mm[1]), (mm[1], mm[0])):
                a_, b_ = strip_wrappers(a_), strip_wrappers(b_)
                if a_.op == "havoc" and a_.args[0] == it.args[1] and is_const(strip_wrappers(a_.args[2]), 1) and b_ is it \
                        and lo_a == {None: Fraction(1)}:
                    fact_arg = Fraction(0)             # running product over 1..n  ==  n!
    ok_fact = fact_arg is not None and fact_arg - shift == 1
    ctx.ob(rule, f"{q}: output n (= vhs^(n+1) w) is divided by (n + 1)!", ok_fact,
           f"output {show(idx)} / {show(den, maxdepth=3)[:60]}", fi)
    # zeroth order and the two half steps
    tot = None
    for t in subterms(R):
        mm = m_binop(t, "+") if t.op == "binop" else None
        if mm is not None and any(any(y is c for y in subterms(z)) for z in mm):
            tot = mm
    ok0 = False
    if tot is not None:
        other = [z for z in tot if not any(y is c for y in subterms(z))]
        ok0 = len(other) == 1 and strip_wrappers(other[0]) is strip_wrappers(init)
    ctx.ob(rule, f"{q}: the zeroth-order term is the walker the powers were generated from", ok0,
           "walker + sum of higher orders" if ok0 else "the sum is not added to the scan's initial walker", fi)
    dr, di = dot_parts(R), dot_parts(init)
    half = dr is not None and di is not None and dr[0] is di[0]
    ctx.ob(rule, f"{q}: the same one-body half step is applied before and after the two-body factor", half,
           "exp_h1 . (1 + ...) . exp_h1 . w" if half else show(R, maxdepth=2)[:80], fi)
