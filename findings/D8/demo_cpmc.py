import os, sys
sys.path.insert(0, os.getcwd())
import numpy as np
from ad_afqmc import config
config.setup_jax()
from jax import numpy as jnp, random
from ad_afqmc import hamiltonian, propagation, wavefunctions
np.random.seed(7)
norb, nelec_sp = 6, (3, 3)
# Hubbard chain, poor trial (random non-orthogonal orbitals)
h1 = np.zeros((norb, norb))
for i in range(norb):
    h1[i, (i+1) % norb] = h1[(i+1) % norb, i] = -1.0
trial = wavefunctions.uhf_cpmc(norb, nelec_sp)
wave_data = {"mo_coeff": [jnp.array(np.random.rand(norb, 3)), jnp.array(np.random.rand(norb, 3))]}
wave_data["rdm1"] = jnp.array([wave_data["mo_coeff"][0] @ wave_data["mo_coeff"][0].T, wave_data["mo_coeff"][1] @ wave_data["mo_coeff"][1].T])
res = {}
for name, cls in (("fast", propagation.propagator_cpmc), ("slow", propagation.propagator_cpmc_slow)):
    for dt in (0.05, 0.3, 0.5):
        prop = cls(dt=dt, n_walkers=20)
        ham = hamiltonian.hamiltonian(norb)
        ham_data = {"h0": 0.0, "h1": jnp.array([h1, h1]), "chol": jnp.zeros((1, norb*norb)), "ene0": 0.0, "u": 8.0}
        ham_data = ham.build_propagation_intermediates(ham_data, prop, trial, wave_data)
        ham_data = ham.build_measurement_intermediates(ham_data, trial, wave_data)
        pd = prop.init_prop_data(trial, wave_data, ham_data)
        pd["key"] = random.PRNGKey(3)
        nan_at, dead_revived = None, False
        for step in range(30):
            w_before = np.array(pd["weights"])
            fields = jnp.array(np.random.randn(20, norb))
            pd = prop.propagate(trial, ham_data, pd, fields, wave_data)
            w_after = np.array(pd["weights"])
            pd = prop.orthonormalize_walkers(pd)          # what the sampler does after every block of steps
            pd["overlaps"] = trial.calc_overlap(pd["walkers"], wave_data)
            w = np.array(pd["weights"])
            if not np.all(np.isfinite(w)) and nan_at is None:
                nan_at = step
            if np.any((w_before == 0) & (w != 0)):
                dead_revived = True
        print(name, dt, "first non-finite weight at step", nan_at, "dead revived/NaN", dead_revived, "shift", float(pd["pop_control_ene_shift"]), "n_zero", int((np.array(pd["weights"])==0).sum()))
