"""Static value-graph construction (SSA-style def-use terms).

For a function body this builds, without executing anything, a hash-consed
*term* for every variable, dictionary slot and returned value, in terms of
the function's parameters.  Control flow is handled structurally: `if` forks
the environment and joins with phi terms, Python loops havoc the variables
they assign and are walked once, local closures are inlined at their call
sites, JAX transforms (vmap, lax.scan, jit, checkpoint, jvp, vjp) stay as
call terms that rules can open.  An ordered event log (stores, calls,
returns) is recorded for ordering / typestate rules.

This is the def-use backbone on which GUARD, PAIR, WMEAN, COUNT, GVN-L, KIND
and TS rules are phrased; it performs no arithmetic on data.
"""

from __future__ import annotations

import ast
from typing import Callable, Dict, Iterable, List, Optional, Sequence, Tuple

from .model import AnalysisError, ClassInfo, FuncInfo, ModuleInfo, Program, dotted

# --------------------------------------------------------------------------
# terms


class T:
    """Hash-consed term; equality is identity."""

    __slots__ = ("op", "args", "uid")
    _table: Dict[tuple, "T"] = {}
    _n = 0

    def __repr__(self):
        return show(self)


def mk(op: str, *args) -> T:
    key = (op,) + tuple(id(a) if isinstance(a, T) else ("#", type(a).__name__, a) for a in args)
    t = T._table.get(key)
    if t is None:
        t = T()
        t.op = op
        t.args = args
        T._n += 1
        t.uid = T._n
        T._table[key] = t
    return t


def sym(name: str) -> T:
    return mk("sym", name)


def const(v) -> T:
    return mk("const", v)


def name(dotted_name: str) -> T:
    return mk("name", dotted_name)


NONE = const(None)


def is_const(t: T, v=...) -> bool:
    if t.op != "const":
        return False
    return True if v is ... else (t.args[0] == v and type(t.args[0]) is type(v))


def show(t, depth: int = 0, maxdepth: int = 12) -> str:
    """Readable rendering (for reports)."""
    if not isinstance(t, T):
        return repr(t)
    if depth > maxdepth:
        return "…"
    d = depth + 1
    op, a = t.op, t.args
    if op == "sym":
        return a[0]
    if op == "const":
        return repr(a[0])
    if op in ("name", "fn", "cls", "mod"):
        return a[0]
    if op == "attr":
        return f"{show(a[0], d)}.{a[1]}"
    if op == "call":
        return f"{show(a[0], d)}({', '.join(show(x, d) for x in a[1:])})"
    if op == "kw":
        return f"{a[0]}={show(a[1], d)}"
    if op == "binop":
        return f"({show(a[1], d)} {a[0]} {show(a[2], d)})"
    if op == "unop":
        return f"({a[0]}{show(a[1], d)})"
    if op == "cmp":
        return f"({show(a[1], d)} {a[0]} {show(a[2], d)})"
    if op == "getitem":
        return f"{show(a[0], d)}[{show(a[1], d)}]"
    if op == "slice":
        f = lambda x: "" if is_const(x, None) else show(x, d)
        s = f"{f(a[0])}:{f(a[1])}"
        if not is_const(a[2], None):
            s += f":{f(a[2])}"
        return s
    if op == "tuple":
        return "(" + ", ".join(show(x, d) for x in a) + ")"
    if op == "list":
        return "[" + ", ".join(show(x, d) for x in a) + "]"
    if op == "setitem":
        return f"{show(a[0], d)}{{{show(a[1], d)}:={show(a[2], d)}}}"
    if op == "phi":
        return f"phi({show(a[0], d)} ? {show(a[1], d)} : {show(a[2], d)})"
    if op == "closure":
        return f"<closure#{a[0]}>"
    return f"{op}(" + ", ".join(show(x, d) for x in a) + ")"


def subterms(t: T, seen=None) -> Iterable[T]:
    """All distinct subterms (DAG walk)."""
    if seen is None:
        seen = set()
    stack = [t]
    while stack:
        x = stack.pop()
        if not isinstance(x, T) or x.uid in seen:
            continue
        seen.add(x.uid)
        yield x
        for a in x.args:
            if isinstance(a, T):
                stack.append(a)


def contains(t: T, pred: Callable[[T], bool]) -> bool:
    return any(pred(x) for x in subterms(t))


def resolve_by_path(t: T, path, memo=None) -> T:
    """Replace phi(c ? a : b) by the arm selected when the path fixes the polarity of c (or of `not c`)."""
    known = {}
    for c, pol in path:
        known[c] = pol
        if c.op == "unop" and c.args[0] == "not" and isinstance(c.args[1], T):
            known[c.args[1]] = not pol
        if c.op == "cmp" and c.args[0] in ("==", "!=") and len(c.args) == 3:
            known[mk("cmp", "!=" if c.args[0] == "==" else "==", c.args[1], c.args[2])] = not pol
    if memo is None:
        memo = {}

    def go(x):
        if x.uid in memo:
            return memo[x.uid]
        c0 = x.args[0] if x.op in ("phi", "ifexp") and len(x.args) == 3 else None
        if c0 is not None and c0 not in known and c0.op == "unop" and c0.args[0] == "not" and c0.args[1] in known:
            r = go(x.args[2] if known[c0.args[1]] else x.args[1])
        elif c0 is not None and c0 in known:
            r = go(x.args[1] if known[x.args[0]] else x.args[2])
        else:
            new_args = tuple(go(a) if isinstance(a, T) else a for a in x.args)
            r = x if all(p is q for p, q in zip(new_args, x.args)) else simplify(x.op, *new_args)
        memo[x.uid] = r
        return r

    return go(t)


def specialise(t: T, mapping: Dict[T, T]) -> T:
    """t with the terms of `mapping` replaced (typically an option by one of its literal values) and every phi /
    conditional whose condition thereby becomes a literal resolved to the arm that is taken"""
    t2 = substitute(t, mapping)
    memo: Dict[int, T] = {}

    def go(x):
        if x.uid in memo:
            return memo[x.uid]
        if x.op in ("phi", "ifexp") and len(x.args) == 3:
            tv = Evaluator._truth(go(x.args[0])) if isinstance(x.args[0], T) else None
            if tv is not None:
                r = go(x.args[1] if tv else x.args[2])
                memo[x.uid] = r
                return r
        new_args = tuple(go(a) if isinstance(a, T) else a for a in x.args)
        r = x if all(p is q for p, q in zip(new_args, x.args)) else simplify(x.op, *new_args)
        memo[x.uid] = r
        return r

    return go(t2)


def substitute(t: T, mapping: Dict[T, T], memo=None) -> T:
    if memo is None:
        memo = {}
    if t in mapping:
        return mapping[t]
    if t.uid in memo:
        return memo[t.uid]
    new_args = tuple(substitute(a, mapping, memo) if isinstance(a, T) else a for a in t.args)
    r = t if all(x is y for x, y in zip(new_args, t.args)) else simplify(t.op, *new_args)
    memo[t.uid] = r
    return r


# --------------------------------------------------------------------------
# constructors with the few load/store simplifications rules rely on


def _rank_of(t: T, depth: int = 0) -> Optional[int]:
    """number of axes of an array term where the source fixes it: an einsum with an explicit output, sums / products /
    differences of such, transposes, negation; None otherwise"""
    if depth > 12 or not isinstance(t, T):
        return None
    if t.op == "call" and t.args[0].op == "name" and t.args[0].args[0].split(".")[-1] == "einsum" and len(t.args) >= 2 and \
            t.args[1].op == "const" and isinstance(t.args[1].args[0], str) and "->" in t.args[1].args[0] and \
            "." not in t.args[1].args[0]:
        return len(t.args[1].args[0].split("->")[1].strip())
    if t.op == "binop" and t.args[0] in ("+", "-", "*", "/"):
        a, b = _rank_of(t.args[1], depth + 1), _rank_of(t.args[2], depth + 1)
        if a is not None and b is not None:
            return max(a, b)
        if a is not None and isinstance(t.args[2], T) and t.args[2].op == "const":
            return a
        if b is not None and isinstance(t.args[1], T) and t.args[1].op == "const":
            return b
        return None
    if t.op == "unop":
        return _rank_of(t.args[1], depth + 1)
    if t.op == "attr" and t.args[1] in ("T", "real", "imag"):
        return _rank_of(t.args[0], depth + 1)
    return None


def getitem(base: T, idx: T) -> T:
    if base.op == "setitem" and base.args[1].op == "slice" and idx.op == "const" and isinstance(idx.args[0], int) and \
            not isinstance(idx.args[0], bool) and idx.args[0] >= 0:
        # X.at[:k].set(V)[i] == V[i] for i < k   (and X[i] for i >= k): literal bounds, unit step
        lo, hi, st = base.args[1].args
        if lo.op == "const" and lo.args[0] in (None, 0) and hi.op == "const" and isinstance(hi.args[0], int) and \
                st.op == "const" and st.args[0] in (None, 1):
            return getitem(base.args[2], idx) if idx.args[0] < hi.args[0] else getitem(base.args[0], idx)
    if base.op == "setitem":
        b, k, v = base.args
        if k.op == "const" and idx.op == "const":
            if k is idx:
                return v
            return getitem(b, idx)
        if k is idx:
            return v
    if base.op in ("tuple", "list") and idx.op == "const" and isinstance(idx.args[0], int):
        i = idx.args[0]
        if -len(base.args) <= i < len(base.args):
            return base.args[i]
    if base.op == "record" and idx.op == "const" and isinstance(idx.args[0], int) and not isinstance(idx.args[0], bool):
        vals = base.args[1:]
        i = idx.args[0]
        if -len(vals) <= i < len(vals):
            return vals[i]
    if base.op == "binop" and base.args[0] == "+" and idx.op == "const" and idx.args[0] == -1 and \
            isinstance(base.args[2], T) and base.args[2].op == "list" and base.args[2].args:
        return base.args[2].args[-1]            # (L + [a, b])[-1] == b
    if base.op == "binop" and base.args[0] in ("-", "/") and idx.op == "const" and isinstance(idx.args[0], int):
        # (A - c)[i] == A[i] - c  for a numeric literal c (elementwise on arrays; '-' and '/' do not exist for lists)
        a_, c_ = base.args[1], base.args[2]
        if isinstance(c_, T) and c_.op == "const" and isinstance(c_.args[0], (int, float)) and not isinstance(c_.args[0], bool) \
                and isinstance(a_, T) and a_.op not in ("const",):
            return mk("binop", base.args[0], getitem(a_, idx), c_)
    if idx.op == "call" and idx.args[0].op == "name" and idx.args[0].args[0] == "builtins.slice" and \
            2 <= len(idx.args) <= 4 and not any(a.op == "kw" for a in idx.args[1:]):
        # X[slice(a, b)] is X[a:b]
        b_ = list(idx.args[1:])
        if len(b_) == 1:
            b_ = [NONE, b_[0], NONE]
        elif len(b_) == 2:
            b_ = [b_[0], b_[1], NONE]
        return getitem(base, mk("slice", *b_))
    if base.op == "call" and base.args[0].op == "name" and base.args[0].args[0] == "builtins.zip" and idx.op != "slice" \
            and len(base.args) >= 2 and not any(a.op in ("kw", "star") for a in base.args[1:]) and \
            not (idx.op == "const" and not (isinstance(idx.args[0], int) and idx.args[0] >= 0)):
        return mk("tuple", *[getitem(_peel_list(a), idx) for a in base.args[1:]])     # zip(A, B)[k] == (A[k], B[k])
    if base.op == "getitem" and base.args[1].op == "slice" and idx.op == "const" and isinstance(idx.args[0], int) \
            and not isinstance(idx.args[0], bool) and idx.args[0] >= 0:
        lo, hi, st = base.args[1].args
        # X[:k][i] == X[i]  and  X[j:][i] == X[j + i]   (literal bounds, unit step, i inside the slice)
        if (st.op == "const" and st.args[0] in (None, 1)) and lo.op == "const" and hi.op == "const":
            l_, h_ = lo.args[0], hi.args[0]
            if (l_ is None or (isinstance(l_, int) and l_ >= 0)) and (h_ is None or (isinstance(h_, int) and h_ >= 0)):
                j = (l_ or 0) + idx.args[0]
                if h_ is None or j < h_:
                    return getitem(base.args[0], const(j))
    if base.op == "call" and idx.op == "const" and isinstance(idx.args[0], int) and not isinstance(idx.args[0], bool) and \
            base.args[0].op == "name" and base.args[0].args[0].split(".")[-1] in ("stack", "array", "asarray") and \
            base.args[0].args[0].split(".")[0] in ("jax", "numpy") and len(base.args) >= 2 and \
            base.args[1].op in ("tuple", "list") and not any(a_.op == "star" for a_ in base.args[1].args) and \
            all(a_.op == "kw" and a_.args[0] == "axis" and a_.args[1].op == "const" and a_.args[1].args[0] == 0
                for a_ in base.args[2:]) and -len(base.args[1].args) <= idx.args[0] < len(base.args[1].args):
        return base.args[1].args[idx.args[0]]          # stack((a, b))[i] / array([a, b])[i] is the i-th stacked item
    if base.op == "call" and base.args[0].op == "name" and base.args[0].args[0].split(".")[-1] == "broadcast_to" and \
            base.args[0].args[0].split(".")[0] in ("jax", "numpy") and len(base.args) == 3 and idx.op == "const" and \
            isinstance(idx.args[0], int) and not isinstance(idx.args[0], bool) and base.args[2].op in ("tuple", "list"):
        r_ = _rank_of(base.args[1])
        if r_ is not None and r_ == len(base.args[2].args) - 1:
            return base.args[1]            # broadcast_to(X, (k,) + X.shape)[i] is X: a new leading axis of copies
    if base.op == "call" and base.args[0].op == "name" and base.args[0].args[0] in ("builtins.tuple", "builtins.list") and \
            len(base.args) == 2 and idx.op == "const" and \
            isinstance(idx.args[0], int) and not isinstance(idx.args[0], bool) and (
                base.args[1].op in ("attr", "sym", "getitem", "setitem", "comp", "list", "tuple", "scan_carry") or (
                    base.args[1].op == "call" and base.args[1].args[0].op == "name" and
                    base.args[1].args[0].args[0] in ("builtins.tuple", "builtins.list"))):
        return getitem(base.args[1], idx)          # tuple(seq)[k] is seq[k] (a field / argument / item that is a sequence)
    if idx.op == "call" and idx.args[0].op == "name" and idx.args[0].args[0].split(".")[-1] == "diag_indices" and \
            idx.args[0].args[0].split(".")[0] in ("jax", "numpy") and len(idx.args) == 2:
        return call(name(idx.args[0].args[0].rsplit(".", 1)[0] + ".diag"), base)     # M[diag_indices(n)] is diag(M)
    if idx.op == "tuple" and len(idx.args) >= 2 and idx.args[0].op == "const" and isinstance(idx.args[0].args[0], int) and \
            not isinstance(idx.args[0].args[0], bool) and any(a_.op == "slice" for a_ in idx.args[1:]):
        # X[i, rest...] is X[i][rest...] for an integer i when the index holds a slice: only an array takes one (a
        # dictionary keyed by tuples, D[(0, i)], must keep its key whole)
        rest = idx.args[1:]
        return getitem(getitem(base, idx.args[0]), rest[0] if len(rest) == 1 else mk("tuple", *rest))
    if base.op == "call" and idx.op == "const" and isinstance(idx.args[0], int) and not isinstance(idx.args[0], bool) and \
            base.args[0].op == "name" and base.args[0].args[0].split(".")[-1] == "swapaxes" and len(base.args) == 4 and \
            all(a_.op == "const" for a_ in base.args[2:]) and {base.args[2].args[0], base.args[3].args[0]} == {1, 2}:
        return mk("attr", getitem(base.args[1], idx), "T")     # swapaxes(X, 1, 2)[i] is X[i].T  (X has rank 3)
    if base.op == "binop" and base.args[0] in ("+", "-") and idx.op == "const" and isinstance(idx.args[0], int) and \
            not isinstance(idx.args[0], bool) and isinstance(base.args[1], T) and isinstance(base.args[2], T):
        a_, b_ = base.args[1], base.args[2]

        def stacked_copies(x):
            return x.op == "call" and x.args[0].op == "name" and x.args[0].args[0].split(".")[-1] == "broadcast_to" and \
                len(x.args) == 3 and x.args[2].op in ("tuple", "list") and _rank_of(x.args[1]) is not None and \
                _rank_of(x.args[1]) == len(x.args[2].args) - 1
        if stacked_copies(a_) or stacked_copies(b_):
            # (A +/- broadcast_to(X, (k,) + X.shape))[i]: the broadcast operand fixes the shape of the sum, item i of it is X
            return mk("binop", base.args[0], getitem(a_, idx), getitem(b_, idx))
        def axis_shuffle_of(x, y):
            return x.op == "call" and x.args[0].op == "name" and x.args[0].args[0].split(".")[-1] in (
                "swapaxes", "transpose", "moveaxis") and len(x.args) >= 2 and x.args[1] is y
        if axis_shuffle_of(b_, a_) or axis_shuffle_of(a_, b_):
            # (A +/- swapaxes(A, ..))[i]: both operands are arrays of one shape, so the item of the sum is the sum of items
            return mk("binop", base.args[0], getitem(a_, idx), getitem(b_, idx))
    if base.op == "comp" and idx.op != "slice":
        e_ = _comp_element(base, idx)
        if e_ is not None:
            return e_
        e_ = _comp_zip_element(base, idx)
        if e_ is not None:
            return e_
    if base.op == "unzip" and idx.op == "const" and isinstance(idx.args[0], int) and not isinstance(idx.args[0], bool):
        # zip(*[E(i) for i in range(n)])[k]  ==  (E(i)[k] for i in range(n))
        cr = _comp_range(base.args[0])
        if cr is not None:
            return mk("comp", "list", mk("tuple", getitem(cr[0], idx)), base.args[0].args[2])
    if base.op == "loopout" and idx.op != "slice" and len(base.args) == 4:
        e_ = _map_loop_element(base, idx)
        if e_ is not None:
            return e_
        ap_ = Evaluator.appended_elements(base)
        if ap_ is not None and ap_[1] is not None and ap_[2] is not None:
            # L = []; for i in range(n): L.append(E(i))   is   [E(i) for i in range(n)]:  L[k] == E(k)
            E_, it_, rng_ = ap_
            if rng_.op == "call" and rng_.args[0].op == "name" and rng_.args[0].args[0] == "builtins.range" and \
                    len(rng_.args) == 2 and rng_.args[1].op != "kw" and not (
                        idx.op == "const" and not (isinstance(idx.args[0], int) and idx.args[0] >= 0)):
                return substitute(E_, {it_: idx})
    if idx.op != "slice" and _running_factorial(base):
        # accumulate(range(1, M), operator.mul)[n]  ==  1 * 2 * ... * (n + 1)  ==  (n + 1)!
        return call(name("math.factorial"), mk("binop", "+", idx, const(1)))
    if base.op == "dict" and idx.op == "const":
        for j in range(0, len(base.args), 2):
            if base.args[j] is idx:
                return base.args[j + 1]
    if base.op == "phi":
        c, a, b = base.args
        ga, gb = getitem(a, idx), getitem(b, idx)
        if ga is gb:
            return ga
        return mk("phi", c, ga, gb)
    return mk("getitem", base, idx)


def _comp_range(base: T):
    """[E(i) for i in range(n)]  ->  (E, the iteration term, n); None for any other comprehension"""
    if not (base.op == "comp" and base.args[0] == "list" and len(base.args) == 3):
        return None
    elts, gen = base.args[1], base.args[2]
    if not (elts.op == "tuple" and len(elts.args) == 1 and gen.op == "gen" and len(gen.args) == 1):
        return None
    it = gen.args[0]
    if not (it.op == "call" and it.args[0].op == "name" and it.args[0].args[0] == "builtins.range"):
        return None
    n = None
    if len(it.args) == 2 and it.args[1].op != "kw":
        n = it.args[1]
    elif len(it.args) == 3 and it.args[1].op == "const" and it.args[1].args[0] == 0:
        n = it.args[2]
    if n is None:
        return None
    iters = [x for x in subterms(elts.args[0]) if x.op == "iter" and x.args[0] is it]
    if len({x.uid for x in iters}) > 1:
        return None
    return elts.args[0], (iters[0] if iters else None), n


def _comp_zip_element(base: T, idx: T) -> Optional[T]:
    """[E(a, b) for a, b in zip(A, B)][k]  ==  E(A[k], B[k])   (k a literal >= 0; no filter; a program that indexes past
    the shorter operand raises before any number is produced)"""
    if not (base.op == "comp" and base.args[0] == "list" and len(base.args) == 3 and idx.op == "const" and
            isinstance(idx.args[0], int) and not isinstance(idx.args[0], bool) and idx.args[0] >= 0):
        return None
    elts, gen = base.args[1], base.args[2]
    if not (elts.op == "tuple" and len(elts.args) == 1 and gen.op == "gen" and len(gen.args) == 1):
        return None
    src = gen.args[0]
    if not (src.op == "call" and src.args[0].op == "name" and src.args[0].args[0] == "builtins.zip" and len(src.args) >= 2 and
            not any(a.op in ("kw", "star") for a in src.args[1:])):
        return None
    iters = {x.uid: x for x in subterms(elts.args[0]) if x.op == "iter" and x.args[0] is src}
    if len(iters) != 1:
        return None
    it = next(iter(iters.values()))
    return substitute(elts.args[0], {it: getitem(src, idx)})


def _comp_element(base: T, idx: T) -> Optional[T]:
    """[E(i) for i in range(n)][k]  ==  E(k)   (k a non-negative index: a loop variable or a literal >= 0)"""
    cr = _comp_range(base)
    if cr is None:
        return None
    if idx.op == "const" and not (isinstance(idx.args[0], int) and idx.args[0] >= 0):
        return None
    E, it, n = cr
    return substitute(E, {it: idx}) if it is not None else E


def _map_loop_element(L: T, idx: T) -> Optional[T]:
    """for i in range(n): X[i] = E(i, X[i])   ->   X_after[k] == E(k, X_before[k])
    (a loop that rewrites every slot from its own old value only; k is assumed to be one of the slots visited, which
    is what the indexed statement  X[k] = E(k, X[k])  it stands for assumes too)"""
    lid, name_, init, fin = L.args
    if not (isinstance(fin, T) and fin.op == "setitem" and isinstance(init, T)):
        return None
    prev, key, val = fin.args
    if not (prev.op == "havoc" and prev.args[0] == lid and prev.args[1] == name_):
        return None
    if not (key.op == "iter" and key.args[0].op == "call" and key.args[0].args[0].op == "name"
            and key.args[0].args[0].args[0] == "builtins.range" and len(key.args[0].args) == 2):
        return None
    if idx.op == "const" and not (isinstance(idx.args[0], int) and not isinstance(idx.args[0], bool) and idx.args[0] >= 0):
        return None
    own = getitem(prev, key)
    # the old object may be read at the slot being written only
    def reads_elsewhere(t, seen):
        if t.uid in seen:
            return False
        seen.add(t.uid)
        if t is own:
            return False
        if t is prev:
            return True
        if t.op in ("havoc", "loopout") and t is not prev and len(t.args) > 1 and t.args[0] == lid:
            return True           # another loop-carried variable: not a pure per-slot map
        return any(isinstance(a, T) and reads_elsewhere(a, seen) for a in t.args)
    if reads_elsewhere(val, set()):
        return None
    return substitute(substitute(val, {own: getitem(init, key)}), {key: idx})


def _peel_list(t: T) -> T:
    while t.op == "call" and t.args[0].op == "name" and t.args[0].args[0] in ("builtins.list", "builtins.tuple") and \
            len(t.args) == 2:
        t = t.args[1]
    return t


def _running_factorial(base: T) -> bool:
    """base is (a list / tuple of) itertools.accumulate(range(1, M), operator.mul)"""
    b = _peel_list(base)
    if not (b.op == "call" and b.args[0].op == "name" and b.args[0].args[0] == "itertools.accumulate"):
        return False
    pos = [a for a in b.args[1:] if a.op != "kw"]
    kws = {a.args[0]: a.args[1] for a in b.args[1:] if a.op == "kw"}
    fn = pos[1] if len(pos) == 2 else kws.get("func")
    if len(pos) not in (1, 2) or fn is None or set(kws) - {"func"}:
        return False
    r = pos[0]
    return fn.op == "name" and fn.args[0] == "operator.mul" and r.op == "call" and r.args[0].op == "name" and \
        r.args[0].args[0] == "builtins.range" and len(r.args) == 3 and r.args[1].op == "const" and r.args[1].args[0] == 1


def _strided_count(lo: T, hi: T, st: T) -> Optional[T]:
    """number of values of range(0, N * s, s)  (== N), else None"""
    if not (lo.op == "const" and lo.args[0] == 0):
        return None
    if hi.op == "binop" and hi.args[0] == "*":
        a, b = hi.args[1], hi.args[2]
        if b is st:
            return a
        if a is st:
            return b
    return None


def sequence_length(t: T) -> Optional[T]:
    """len(t) as a term when the source fixes it: range(a, b) -> b - a, accumulate(R, f) -> len(R), list(X) -> len(X)"""
    t = _peel_list(t)
    if t.op in ("tuple", "list") and not any(isinstance(x, T) and x.op == "star" for x in t.args):
        return const(len(t.args))
    if t.op == "comp":
        cr = _comp_range(t)
        if cr is not None:
            return cr[2]
    if t.op == "loopout" and len(t.args) == 4:
        ap_ = Evaluator.appended_elements(t)
        if ap_ is not None and ap_[2] is not None:
            return sequence_length(ap_[2])       # one append per iteration of the filling loop
    if t.op == "call" and t.args[0].op == "name":
        nm = t.args[0].args[0]
        pos = [a for a in t.args[1:] if a.op != "kw"]
        if nm == "builtins.range" and len(pos) == len(t.args) - 1:
            if len(pos) == 1:
                return pos[0]
            if len(pos) == 2:
                lo, hi = pos
                if lo.op == "const" and lo.args[0] == 0:
                    return hi
                if lo.op == "const" and hi.op == "const" and isinstance(lo.args[0], int) and isinstance(hi.args[0], int):
                    return const(max(hi.args[0] - lo.args[0], 0))
                if hi.op == "binop" and hi.args[0] == "+" and hi.args[2] is lo:
                    return hi.args[1]                      # range(c, n + c)
                return mk("binop", "-", hi, lo)
        if nm == "itertools.accumulate" and pos and not any(a.op == "kw" and a.args[0] == "initial" for a in t.args[1:]):
            return sequence_length(pos[0])
        if nm == "builtins.enumerate" and len(pos) == 1 and len(t.args) == 2:
            return sequence_length(pos[0])
        if nm == "builtins.zip" and pos and len(pos) == len(t.args) - 1:
            for a_ in pos:               # the shortest argument; the ones of unknown length are taken to be as long
                ln_ = sequence_length(a_)
                if ln_ is not None:
                    return ln_
            return None
        if nm == "builtins.range" and len(pos) == 3 and len(t.args) == 4:
            n_ = _strided_count(pos[0], pos[1], pos[2])
            if n_ is not None:
                return n_
    return None


def setitem(base: T, key: T, value: T) -> T:
    if base.op == "setitem" and base.args[1] is key:
        base = base.args[0]
    if base.op == "dict" and key.op == "const" and len(base.args) % 2 == 0 and all(
            base.args[j].op == "const" for j in range(0, len(base.args), 2)):
        # D = {...literal keys...}; D[k] = v   is the display with that entry replaced / added
        items = list(base.args)
        for j in range(0, len(items), 2):
            if items[j] is key:
                items[j + 1] = value
                return mk("dict", *items)
        return mk("dict", *items, key, value)
    if base.op == "list" and key.op == "const" and isinstance(key.args[0], int):
        i = key.args[0]
        if 0 <= i < len(base.args):
            items = list(base.args)
            items[i] = value
            return mk("list", *items)
    return mk("setitem", base, key, value)


def simplify(op: str, *args) -> T:
    if op == "getitem":
        return getitem(*args)
    if op == "setitem":
        return setitem(*args)
    if op == "phi" and args[1] is args[2]:
        return args[1]
    if op == "call":
        return call(args[0], *args[1:])
    return mk(op, *args)


def _disjuncts(c: T) -> List[T]:
    """c1 | c2, logical_or(c1, c2), c1 or c2 -> [c1, c2, ...]"""
    if c.op == "binop" and c.args[0] == "|":
        return _disjuncts(c.args[1]) + _disjuncts(c.args[2])
    if c.op == "boolop" and c.args[0] == "or":
        return [d for a in c.args[1:] for d in _disjuncts(a)]
    if c.op == "call" and c.args[0].op == "name" and c.args[0].args[0].split(".")[-1] == "logical_or" and len(c.args) == 3:
        return _disjuncts(c.args[1]) + _disjuncts(c.args[2])
    return [c]


def _canon_where(t: T) -> T:
    """where(c1(x) | c2(x) | ..., 0, x)  ==  the chain  y1 = where(cn(x), 0, x); y2 = where(c(n-1)(y1), 0, y1); ...
    Exactly the same value: a disjunct that fires gives 0, and 0 passed on through the remaining zeroing tests stays 0
    or is replaced by 0.  One canonical form (the sequential one the repository uses) lets every guard rule see a
    merged mask as the individual guards it consists of.  Only applied when every disjunct mentions x."""
    f = t.args[0]
    if not (f.op == "name" and f.args[0].split(".")[-1] == "where") or len(t.args) != 4:
        return t
    if not any(isinstance(z, T) and z.op == "kw" for z in t.args[1:]):
        # where(not c, a, b) == where(c, b, a): the negated selector written the positive way
        c0 = t.args[1]
        for _ in range(3):
            neg = None
            if c0.op == "call" and c0.args[0].op == "name" and c0.args[0].args[0].split(".")[-1] == "logical_not" and \
                    len(c0.args) == 2 and c0.args[1].op != "kw":
                neg = c0.args[1]
            elif c0.op == "unop" and c0.args[0] in ("~", "not") and isinstance(c0.args[1], T):
                neg = c0.args[1]
            if neg is None:
                break
            t = mk("call", f, neg, t.args[3], t.args[2])
            c0 = neg
    c, a, x = t.args[1], t.args[2], t.args[3]
    if not (isinstance(a, T) and a.op == "const" and a.args[0] in (0, 0.0)) or any(
            isinstance(z, T) and z.op == "kw" for z in t.args[1:]):
        return t
    ds = _disjuncts(c)
    if len(ds) < 2 or not all(any(y is x for y in subterms(d)) for d in ds):
        return t
    cur = x
    for d in reversed(ds):
        d2 = substitute(d, {x: cur}) if cur is not x else d
        cur = mk("call", f, d2, a, cur)
    return cur


def _canon_average(t: T) -> T:
    """average(x, weights=w)  (no axis)  ==  sum(x * w) / sum(w): the form every estimator rule is written for"""
    f = t.args[0]
    if not (f.op == "name" and f.args[0].split(".")[-1] == "average" and f.args[0].split(".")[0] in ("jax", "numpy")):
        return t
    pos = [a for a in t.args[1:] if isinstance(a, T) and a.op != "kw"]
    kws = {a.args[0]: a.args[1] for a in t.args[1:] if isinstance(a, T) and a.op == "kw"}
    if len(pos) == 2 and not kws:
        return t                       # average(x, axis)
    if len(pos) != 1 or set(kws) != {"weights"}:
        return t
    sm = name(f.args[0].rsplit(".", 1)[0] + ".sum")
    x, w = pos[0], kws["weights"]
    return mk("binop", "/", mk("call", sm, mk("binop", "*", x, w)), mk("call", sm, w))


def _const_cond(c: T, x: T, v) -> Optional[bool]:
    """truth of condition c when x is the number v, if that can be decided from literals alone (abs, comparisons,
    arithmetic with literals); None otherwise"""
    def val(t):
        if t is x:
            return v
        if t.op == "const" and isinstance(t.args[0], (int, float)) and not isinstance(t.args[0], bool):
            return t.args[0]
        if t.op == "call" and t.args[0].op == "name" and t.args[0].args[0].split(".")[-1] in ("abs", "absolute", "fabs") \
                and len(t.args) == 2:
            a = val(t.args[1])
            return None if a is None else abs(a)
        if t.op == "unop" and t.args[0] == "-":
            a = val(t.args[1])
            return None if a is None else -a
        if t.op == "binop" and t.args[0] in ("+", "-", "*", "/") and isinstance(t.args[1], T) and isinstance(t.args[2], T):
            a, b = val(t.args[1]), val(t.args[2])
            if a is None or b is None:
                return None
            try:
                return {"+": a + b, "-": a - b, "*": a * b, "/": a / b}[t.args[0]]
            except ZeroDivisionError:
                return None
        return None
    if c.op == "cmp" and len(c.args) == 3 and c.args[0] in ("<", "<=", ">", ">=", "==", "!="):
        a, b = val(c.args[1]), val(c.args[2])
        if a is None or b is None:
            return None
        return {"<": a < b, "<=": a <= b, ">": a > b, ">=": a >= b, "==": a == b, "!=": a != b}[c.args[0]]
    return None


def _canon_select(f: T, args) -> Optional[T]:
    """jnp.select([c1, c2, ..], [v1, v2, ..], default=d) is the first-match chain where(c1, v1, where(c2, v2, .. d)).
    When every condition tests the default value x itself and an earlier replacement is a literal that no later condition
    accepts, the chain equals the sequential guards  y1 = where(c1(x), v1, x); y2 = where(c2(y1), v2, y1); ..  the
    repository writes, and is given that form."""
    pos = [a for a in args if a.op != "kw"]
    kws = {a.args[0]: a.args[1] for a in args if a.op == "kw"}
    if len(pos) < 2 or not all(p_.op in ("list", "tuple") for p_ in pos[:2]) or len(pos[0].args) != len(pos[1].args) or \
            not pos[0].args or set(kws) - {"default"}:
        return None
    conds, vals = list(pos[0].args), list(pos[1].args)
    d = pos[2] if len(pos) > 2 else kws.get("default", const(0))
    wh = name(f.args[0].rsplit(".", 1)[0] + ".where")
    sequential = all(any(y is d for y in subterms(c_)) for c_ in conds)
    if sequential:
        for i, v_ in enumerate(vals):
            if not (v_.op == "const" and isinstance(v_.args[0], (int, float)) and not isinstance(v_.args[0], bool)):
                sequential = False
                break
            for c_ in conds[i + 1:]:
                if _const_cond(c_, d, v_.args[0]) is not False:
                    sequential = False
    all_zero = all(v_.op == "const" and v_.args[0] in (0, 0.0) and not isinstance(v_.args[0], bool) for v_ in vals) and \
        all(any(y is d for y in subterms(c_)) for c_ in conds)
    if all_zero and len(conds) >= 2:
        # every branch zeroes: select([c1, c2, ..], [0, 0, ..], x) is where(c1 | c2 | .., 0, x)
        m_ = conds[0]
        for c_ in conds[1:]:
            m_ = mk("binop", "|", m_, c_)
        return call(wh, m_, vals[0], d)
    if sequential:
        cur = d
        for c_, v_ in zip(conds, vals):
            c2 = substitute(c_, {d: cur}) if cur is not d else c_
            cur = call(wh, c2, v_, cur)
        return cur
    cur = d
    for c_, v_ in reversed(list(zip(conds, vals))):
        cur = call(wh, c_, v_, cur)
    return cur


def call(f: T, *args: T) -> T:
    if f.op == "name" and f.args[0] == "builtins.getattr" and len(args) == 2 and args[1].op == "const" and \
            isinstance(args[1].args[0], str) and args[0].op != "kw":
        return mk("attr", args[0], args[1].args[0])         # getattr(obj, "name") is obj.name
    if f.op == "name" and f.args[0] in ("jax.lax.select", "jax.lax.select_n") and len(args) == 3 and \
            not any(a_.op == "kw" for a_ in args) and f.args[0].endswith("select"):
        # lax.select(pred, a, b) is where(pred, a, b) on operands of one shape: a predicate broadcast to that shape and a
        # zeros_like / full_like filler are what where() takes as a per-column flag and a literal
        def unbroadcast(c_):
            if c_.op == "call" and c_.args[0].op == "name" and c_.args[0].args[0].split(".")[-1] == "broadcast_to" and \
                    len(c_.args) == 3:
                return c_.args[1]
            return c_

        def literal(v_):
            if v_.op == "call" and v_.args[0].op == "name" and v_.args[0].args[0].split(".")[-1] == "zeros_like" and \
                    len(v_.args) == 2:
                return const(0.0)
            if v_.op == "call" and v_.args[0].op == "name" and v_.args[0].args[0].split(".")[-1] == "full_like" and \
                    len(v_.args) == 3 and v_.args[2].op == "const":
                return v_.args[2]
            return v_
        return call(name("jax.numpy.where"), unbroadcast(args[0]), literal(args[1]), literal(args[2]))
    if f.op == "name" and f.args[0].split(".")[-1] == "select" and f.args[0].split(".")[0] in ("jax", "numpy"):
        r_ = _canon_select(f, args)
        if r_ is not None:
            return r_
    if f.op == "name" and f.args[0].endswith("linalg.multi_dot") and len(args) == 1 and args[0].op in ("list", "tuple") and \
            len(args[0].args) >= 2 and not any(a_.op == "star" for a_ in args[0].args):
        # multi_dot([a, b, c]) is a @ b @ c (the parenthesisation is an optimisation)
        mm = name(f.args[0].rsplit(".", 2)[0] + ".matmul")
        cur = args[0].args[0]
        for a_ in args[0].args[1:]:
            cur = mk("call", mm, cur, a_)
        return cur
    if f.op == "name" and f.args[0].split(".")[-1] == "take" and f.args[0].split(".")[0] in ("jax", "numpy") and len(args) == 3 \
            and args[0].op != "kw" and args[1].op != "kw" and args[2].op == "kw" and args[2].args[0] == "axis" and \
            args[2].args[1].op == "const" and args[2].args[1].args[0] == 0:
        return getitem(args[0], args[1])                    # take(x, i, axis=0) is x[i]
    if f.op == "name" and f.args[0].split(".")[-1] == "take" and f.args[0].split(".")[0] in ("jax", "numpy") and len(args) == 3 \
            and args[0].op != "kw" and args[1].op != "kw" and args[2].op == "kw" and args[2].args[0] == "axis" and \
            args[2].args[1].op == "const" and args[2].args[1].args[0] == 1:
        return getitem(args[0], mk("tuple", mk("slice", NONE, NONE, NONE), args[1]))     # take(x, i, axis=1) is x[:, i]

    if f.op == "name" and f.args[0] == "builtins.dict" and len(args) == 1 and args[0].op in (
            "sym", "setitem", "update", "dict", "scan_carry", "phi"):
        # dict(d): a shallow copy has the value of d (stores into the copy rebind the copy's name only)
        return args[0]
    if f.op == "name" and f.args[0] == "builtins.slice" and 1 <= len(args) <= 3 and not any(a_.op in ("kw", "star") for a_ in args):
        # slice(stop) / slice(start, stop[, step]) is the subscript form start:stop:step
        if len(args) == 1:
            return mk("slice", NONE, args[0], NONE)
        return mk("slice", args[0], args[1], args[2] if len(args) == 3 else NONE)
    t = mk("call", f, *args)
    t = _canon_where(t)
    return _canon_average(t) if t.op == "call" else t


def kw(k: str, v: T) -> T:
    return mk("kw", k, v)


def call_parts(t: T):
    """(func, positional list, kwargs dict) of a call term."""
    assert t.op == "call"
    pos, kws = [], {}
    for a in t.args[1:]:
        if a.op == "kw":
            kws[a.args[0]] = a.args[1]
        else:
            pos.append(a)
    return t.args[0], pos, kws


def func_name(t: T) -> Optional[str]:
    """Dotted canonical name of a call's function if it is an external/global name,
    or '.method' for a method call on a value."""
    if t.op != "call":
        return None
    f = t.args[0]
    if f.op in ("name", "fn", "cls"):
        return f.args[0]
    if f.op == "attr":
        return "." + f.args[1]
    return None


def is_call_to(t: T, *names: str) -> bool:
    fnm = func_name(t)
    return fnm is not None and fnm in names


# canonical module prefixes so that np/jnp aliases compare equal where wanted
ARRAY_MODULES = ("jax.numpy", "numpy")


def array_fn(t: T) -> Optional[str]:
    """'where' for jnp.where / np.where, 'linalg.det' for jnp.linalg.det ... else None."""
    fnm = func_name(t)
    if fnm is None:
        return None
    for m in ARRAY_MODULES:
        if fnm.startswith(m + "."):
            return fnm[len(m) + 1:]
    return None


# --------------------------------------------------------------------------
# environment / frames


class Env:
    __slots__ = ("vars", "terminated")

    def __init__(self, vars=None):
        self.vars: Dict[str, T] = dict(vars or {})
        self.terminated = False

    def copy(self) -> "Env":
        e = Env(self.vars)
        e.terminated = self.terminated
        return e


class Closure:
    def __init__(self, node, frame: "Frame", name_: str):
        self.node = node
        self.frame = frame  # defining frame (late binding through its current env)
        self.name = name_


class Event:
    __slots__ = ("kind", "line", "data", "path", "loops", "frame")

    def __init__(self, kind, line, data, path, loops, frame):
        self.kind = kind
        self.line = line
        self.data = data
        self.path = path
        self.loops = loops
        self.frame = frame

    def __repr__(self):
        return f"<{self.kind}@{self.line} {self.data}>"


class Frame:
    """One activation being evaluated."""

    def __init__(self, ev: "Evaluator", fi: Optional[FuncInfo], mod: ModuleInfo,
                 parent: Optional["Frame"], label: str):
        self.ev = ev
        self.fi = fi
        self.mod = mod
        self.parent = parent  # lexically enclosing frame (closures)
        self.label = label
        self.env = Env()
        self.returns: List[Tuple[tuple, T, int]] = []  # (path, term, line)
        self.raises: List[Tuple[tuple, T, int]] = []
        self.path: tuple = ()
        self.loops: tuple = ()
        self.self_class: Optional[str] = None
        self.fell_off_end = False
        self.types: Dict[T, str] = {}  # term -> class qualname (static receiver type)
        self.caller: Optional["Frame"] = None
        self.exact_self = False  # self is exactly self_class (no subclasses)
        self.inlined: List[Tuple[T, "Frame"]] = []  # (result term, frame) of callees evaluated in place
        self.mutated: set = set()    # local names (parameters) whose object received a subscript store

    def lookup(self, nm: str) -> Optional[T]:
        f = self
        while f is not None:
            if nm in f.env.vars:
                return f.env.vars[nm]
            f = f.parent
        return None


BUILTINS = {
    "range", "len", "tuple", "list", "dict", "set", "abs", "max", "min", "sum", "int",
    "float", "complex", "bool", "str", "zip", "map", "sorted", "reversed", "enumerate",
    "isinstance", "hasattr", "getattr", "print", "open", "type", "hash", "super",
    "ValueError", "NotImplementedError", "TypeError", "AssertionError", "Exception",
    "any", "all", "round", "divmod", "pow", "iter", "next", "slice", "id", "repr",
    "filter", "object", "IndexError", "KeyError", "RuntimeError", "True", "False", "None",
    "Ellipsis", "NotImplemented", "frozenset", "bytes", "callable", "vars", "setattr",
    "exec", "eval", "globals", "locals", "__file__", "__name__", "input", "format",
}


_RULE_VOCAB = None


def rule_vocabulary() -> set:
    """Every identifier that occurs in the checker's own sources: the functions the rules reason about by name."""
    global _RULE_VOCAB
    if _RULE_VOCAB is None:
        import glob
        import os
        import re
        here = os.path.dirname(os.path.abspath(__file__))
        toks = set()
        for path in glob.glob(os.path.join(here, "**", "*.py"), recursive=True):
            with open(path) as fh:
                toks.update(re.findall(r"[A-Za-z_][A-Za-z0-9_]*", fh.read()))
        _RULE_VOCAB = toks
    return _RULE_VOCAB


_RULE_REFS: Optional[set] = None


def rule_references() -> set:
    """dotted names quoted in the checker's sources: "linalg_utils.qr_vmap", "wavefunctions.multislater._det_overlap" """
    global _RULE_REFS
    if _RULE_REFS is None:
        import glob
        import os
        import re
        here = os.path.dirname(os.path.abspath(__file__))
        refs = set()
        for path in glob.glob(os.path.join(here, "**", "*.py"), recursive=True):
            with open(path) as fh:
                refs.update(re.findall(r"[\"']([A-Za-z_][A-Za-z0-9_]*(?:\.[A-Za-z_][A-Za-z0-9_]*)+)[\"']", fh.read()))
        _RULE_REFS = refs
    return _RULE_REFS


def _named_by_rules(callee) -> bool:
    n = callee.name
    if n not in rule_vocabulary():
        return False
    if getattr(callee, "cls", None) is not None:
        return True
    # a module-level function: the rules mean it only if they quote it with its module, or mention the bare name
    # without ever qualifying it with a class (a method of the same name is a different function)
    refs = [r for r in rule_references() if r.split(".")[-1] == n]
    q = callee.qualname
    if any(q.endswith(r) or r.endswith(q) for r in refs):
        return True
    return not refs


def is_unnamed_helper(callee) -> bool:
    n = callee.name
    if not n.startswith("_") or n.startswith("__") or _named_by_rules(callee):
        return False
    if getattr(callee, "is_custom_jvp", False) or callee.is_abstract:
        return False
    try:
        if callee.is_refusal():
            return False
    except Exception:
        pass
    return True


def dotted_name(node) -> Optional[str]:
    from .model import dotted
    return dotted(node)


def walker_state_glue(callee) -> bool:
    """Inlining policy shared by the step / typestate evaluations of sampler and propagator code: a method is evaluated
    in place when it handles the walker-state dictionary (a dict parameter named prop*), or when it is glue between the
    kernels the rules speak about -- not jitted, or a private helper no rule names.  The jitted kernels the rules name
    (_apply_trotprop, _multiply_constant, ...) stay calls."""
    if callee.module not in ("sampling", "propagation") or callee.cls is None:
        return False
    for prm in callee.params:
        if getattr(prm.annotation, "id", None) == "dict" and prm.name.startswith("prop"):
            return True
    n = callee.name
    if n.startswith("__") or n == "init_prop_data" or callee.is_abstract or getattr(callee, "is_custom_jvp", False):
        return False
    try:
        if callee.is_refusal():
            return False
    except Exception:
        pass
    if not callee.is_jit and n.startswith("_"):
        return True
    return n.startswith("_") and not _named_by_rules(callee)


class Evaluator:
    """Builds terms for function bodies of a Program.

    Subclass hooks: on_event(event)."""

    MAX_INLINE_DEPTH = 12

    def __init__(self, program: Program):
        self.p = program
        self.closures: Dict[int, Closure] = {}
        self._closure_by_node: Dict[Tuple[int, int], int] = {}
        self.events: List[Event] = []
        self.types: Dict[T, str] = {}  # term -> class qualname (static receiver type)
        self.line_of: Dict[int, int] = {}  # term uid -> first line seen
        self._depth = 0
        self.unknown_names: List[Tuple[str, str, int]] = []
        self.exact_types: Dict[T, str] = {}  # receiver term -> exactly this class
        self.call_env: Dict[int, list] = {}   # call term uid -> [(frame, env vars at the call)]

    # ----------------------------------------------------------------- events
    def emit(self, frame: Frame, kind: str, line: int, data):
        e = Event(kind, line, data, frame.path, frame.loops, frame)
        if getattr(self, "_mute", 0):
            return e            # a side evaluation (layout inference): not part of the program's event stream
        self.events.append(e)
        self.on_event(e)
        return e

    def on_event(self, e: Event):
        pass

    # ---------------------------------------------------------- entry points
    def new_frame(self, fi: FuncInfo, parent: Optional[Frame] = None,
                  self_class: Optional[str] = None) -> Frame:
        mod = self.p.modules[fi.module]
        fr = Frame(self, fi, mod, parent, fi.qualname)
        fr.self_class = self_class or fi.cls
        return fr

    def eval_function(self, fi: FuncInfo, args: Optional[Dict[str, T]] = None,
                      self_class: Optional[str] = None, parent: Optional[Frame] = None) -> Frame:
        """Evaluate fi with parameters bound to `args` (default: symbols)."""
        fr = self.new_frame(fi, parent, self_class)
        args = args or {}
        for p in fi.params:
            if p.name in args:
                fr.env.vars[p.name] = args[p.name]
            elif p.kind in ("vararg", "kwarg"):
                fr.env.vars[p.name] = sym(p.name)
            else:
                fr.env.vars[p.name] = sym(p.name)
            t = fr.env.vars[p.name]
            if p.name == "self" and fr.self_class:
                fr.types[t] = fr.self_class
            else:
                c = self.p.annotation_class(fr.mod, p.annotation)
                if c is not None and t not in fr.types:
                    fr.types[t] = c
        self.exec_block(fr, fi.body())
        if not fr.env.terminated:
            fr.fell_off_end = True
        return fr

    def result(self, fr: Frame) -> T:
        """Single term for the frame's return value (phi over returning paths)."""
        rets = fr.returns
        if not rets:
            return NONE
        if len(rets) == 1:
            return rets[0][1]
        # fold by path conditions, innermost first
        out = rets[-1][1]
        for path, term, _ in reversed(rets[:-1]):
            cond = path[-1][0] if path else sym("?")
            out = simplify("phi", cond, term, out) if (not path or path[-1][1]) else simplify(
                "phi", cond, out, term)
        return out

    # ------------------------------------------------------------- statements
    def exec_block(self, fr: Frame, stmts: Sequence[ast.stmt]):
        for st in stmts:
            if fr.env.terminated:
                break
            self.exec_stmt(fr, st)

    def exec_stmt(self, fr: Frame, st: ast.stmt):
        m = getattr(self, "st_" + type(st).__name__, None)
        if m is None:
            self.emit(fr, "unmodelled", getattr(st, "lineno", 0), type(st).__name__)
            return
        m(fr, st)

    def st_Expr(self, fr, st):
        c = st.value
        # L.append(e) / L.extend([..]) on a local list: the list value is rebuilt (lists are values in the graph)
        if isinstance(c, ast.Call) and isinstance(c.func, ast.Attribute) and isinstance(c.func.value, ast.Name) and \
                c.func.attr in ("append", "extend") and len(c.args) == 1 and not c.keywords:
            cur = fr.env.vars.get(c.func.value.id)
            base = cur
            while base is not None and base.op in ("append", "havoc", "loopout"):
                base = base.args[0] if base.op == "append" else base.args[2]
            if cur is not None and base is not None and base.op == "list":
                v = self.eval(fr, c.args[0])
                if c.func.attr == "append" and cur.op == "list" and not fr.loops:
                    new = mk("list", *cur.args, v)
                elif c.func.attr == "extend" and cur.op == "list" and v.op in ("list", "tuple") and not fr.loops:
                    new = mk("list", *cur.args, *v.args)
                else:
                    new = mk("append", cur, v) if c.func.attr == "append" else mk("extend", cur, v)
                fr.env.vars[c.func.value.id] = new
                self.emit(fr, "assign", st.lineno, (c.func.value.id, new, True))
                return
        # D.update({...}) / D.update(other) on a local dict: the dict value is rebuilt key by key
        if isinstance(c, ast.Call) and isinstance(c.func, ast.Attribute) and c.func.attr == "update" and \
                isinstance(c.func.value, ast.Name) and (
                    (len(c.args) == 1 and not c.keywords) or
                    (not c.args and c.keywords and all(k_.arg is not None for k_ in c.keywords))):
            cur = fr.lookup(c.func.value.id)
            if cur is not None and c.func.value.id in fr.env.vars:
                if c.args:
                    arg = self.eval(fr, c.args[0])
                else:
                    # D.update(a=x, b=y)  is  D.update({"a": x, "b": y})
                    items_ = []
                    for k_ in c.keywords:
                        items_ += [const(k_.arg), self.eval(fr, k_.value)]
                    arg = mk("dict", *items_)
                if arg.op == "dict" and len(arg.args) % 2 == 0 and all(
                        arg.args[j].op == "const" for j in range(0, len(arg.args), 2)):
                    new = cur
                    for j in range(0, len(arg.args), 2):
                        new = setitem(new, arg.args[j], arg.args[j + 1])
                        self.emit(fr, "store", st.lineno, (c.func.value.id, (arg.args[j],), arg.args[j + 1], False,
                                                            getitem(cur, arg.args[j]), cur))
                else:
                    new = mk("update", cur, arg)
                fr.env.vars[c.func.value.id] = new
                self.emit(fr, "assign", st.lineno, (c.func.value.id, new, True))
                return
        # D.setdefault(k, []).append(e)  is  D[k] = D.get(k, []) + [e]   (the form the repository writes out)
        if isinstance(c, ast.Call) and isinstance(c.func, ast.Attribute) and c.func.attr == "append" and len(c.args) == 1 \
                and not c.keywords and isinstance(c.func.value, ast.Call) and isinstance(c.func.value.func, ast.Attribute) \
                and c.func.value.func.attr == "setdefault" and isinstance(c.func.value.func.value, ast.Name) \
                and len(c.func.value.args) == 2 and isinstance(c.func.value.args[1], ast.List) and not c.func.value.args[1].elts:
            import copy
            d_name = c.func.value.func.value
            k_node, dflt = c.func.value.args
            tgt = ast.Subscript(value=ast.Name(id=d_name.id, ctx=ast.Load()), slice=copy.deepcopy(k_node), ctx=ast.Store())
            getc = ast.Call(func=ast.Attribute(value=ast.Name(id=d_name.id, ctx=ast.Load()), attr="get", ctx=ast.Load()),
                            args=[copy.deepcopy(k_node), copy.deepcopy(dflt)], keywords=[])
            val = ast.BinOp(left=getc, op=ast.Add(), right=ast.List(elts=[c.args[0]], ctx=ast.Load()))
            new_st = ast.Assign(targets=[tgt], value=val)
            ast.copy_location(new_st, st)
            ast.fix_missing_locations(new_st)
            self.st_Assign(fr, new_st)
            return
        v = self.eval(fr, st.value)
        self.emit(fr, "expr", st.lineno, v)

    def st_Pass(self, fr, st):
        pass

    def st_Assert(self, fr, st):
        self.emit(fr, "assert", st.lineno, self.eval(fr, st.test))

    def st_Delete(self, fr, st):
        pass

    def st_Global(self, fr, st):
        pass

    def st_Nonlocal(self, fr, st):
        pass

    def st_Break(self, fr, st):
        pass

    def st_Continue(self, fr, st):
        pass

    def st_Import(self, fr, st):
        # imports inside a function: the module's import table (which covers every import statement of the file)
        # resolves the alias, to a package module / function / class or to an external name
        for a in st.names:
            alias = a.asname or a.name.split(".")[0]
            if alias in fr.mod.imports:
                fr.env.vars.pop(alias, None)
                continue
            fr.env.vars[alias] = name(a.name if a.asname else a.name.split(".")[0])

    def st_ImportFrom(self, fr, st):
        for a in st.names:
            alias = a.asname or a.name
            if alias in fr.mod.imports:
                fr.env.vars.pop(alias, None)
                continue
            fr.env.vars[alias] = name(f"{st.module}.{a.name}")

    def st_Return(self, fr, st):
        v = self.eval(fr, st.value) if st.value is not None else NONE
        # returns belong to the function frame even when we are inside a closure-less block
        fr.returns.append((fr.path, v, st.lineno))
        self.emit(fr, "return", st.lineno, v)
        fr.env.terminated = True

    def st_Raise(self, fr, st):
        v = self.eval(fr, st.exc) if st.exc is not None else NONE
        fr.raises.append((fr.path, v, st.lineno))
        self.emit(fr, "raise", st.lineno, v)
        fr.env.terminated = True

    def st_FunctionDef(self, fr, st):
        fr.env.vars[st.name] = self.make_closure(fr, st, st.name)

    def st_ClassDef(self, fr, st):
        fr.env.vars[st.name] = sym(f"<localclass {st.name}>")

    def st_Assign(self, fr, st):
        v = self.eval(fr, st.value)
        for tgt in st.targets:
            self.assign(fr, tgt, v, st.lineno)

    def st_AnnAssign(self, fr, st):
        if st.value is not None:
            self.assign(fr, st.target, self.eval(fr, st.value), st.lineno)

    def st_AugAssign(self, fr, st):
        cur = self.eval(fr, self._as_load(st.target))
        rhs = self.eval(fr, st.value)
        v = mk("binop", _OPS.get(type(st.op), type(st.op).__name__), cur, rhs)
        self.note_line(v, st.lineno)
        self.assign(fr, st.target, v, st.lineno, aug=True)

    @staticmethod
    def _as_load(node):
        import copy

        n = copy.copy(node)
        if hasattr(n, "ctx"):
            n.ctx = ast.Load()
        return n

    @staticmethod
    def _pc(cond, pol):
        """path-condition entry with negations folded into the polarity: (not c, True) is (c, False)"""
        while isinstance(cond, T) and cond.op == "unop" and cond.args[0] == "not" and isinstance(cond.args[1], T):
            cond, pol = cond.args[1], not pol
        if isinstance(cond, T) and cond.op == "cmp" and cond.args[0] == "!=" and len(cond.args) == 3:
            cond, pol = mk("cmp", "==", cond.args[1], cond.args[2]), not pol      # (a != b, False) is (a == b, True)
        return (cond, pol)

    @staticmethod
    def _truth_on_path(cond: T, path) -> Optional[bool]:
        """truth of a branch condition given what the enclosing branches have already decided (propositional reasoning
        over the very condition terms: not / and / or): the last arm of an exhaustive if / elif chain is taken"""
        known: Dict[T, bool] = {}

        def learn(c, pol) -> bool:
            while isinstance(c, T) and c.op == "unop" and c.args[0] == "not" and isinstance(c.args[1], T):
                c, pol = c.args[1], not pol
            if not isinstance(c, T):
                return False
            if c.op == "cmp" and c.args[0] == "!=" and len(c.args) == 3:
                c, pol = mk("cmp", "==", c.args[1], c.args[2]), not pol
            changed = False
            if known.get(c) is None:
                known[c] = pol
                changed = True
            if c.op == "boolop" and len(c.args) >= 2:
                ops = [a for a in c.args[1:] if isinstance(a, T)]
                if (c.args[0] == "and" and pol) or (c.args[0] == "or" and not pol):
                    for a in ops:
                        changed |= learn(a, pol)
                else:
                    # and(..) is False / or(..) is True: if all operands but one are decided the other way, the last one
                    want = c.args[0] == "or"
                    vals = [ev(a) for a in ops]
                    und = [a for a, v in zip(ops, vals) if v is None]
                    if len(und) == 1 and all(v == (not want) for v in vals if v is not None):
                        changed |= learn(und[0], want)
            return changed

        def ev(c) -> Optional[bool]:
            if not isinstance(c, T):
                return None
            if c in known:
                return known[c]
            if c.op == "unop" and c.args[0] == "not":
                v = ev(c.args[1])
                return None if v is None else not v
            if c.op == "cmp" and c.args[0] == "!=" and len(c.args) == 3:
                v = ev(mk("cmp", "==", c.args[1], c.args[2]))
                return None if v is None else not v
            if c.op == "boolop" and len(c.args) >= 2:
                vals = [ev(a) for a in c.args[1:] if isinstance(a, T)]
                if c.args[0] == "and":
                    return False if any(v is False for v in vals) else (True if all(v is True for v in vals) else None)
                return True if any(v is True for v in vals) else (False if all(v is False for v in vals) else None)
            return None
        for _ in range(4):
            ch = False
            for c, pol in path:
                ch |= learn(c, pol)
            if not ch:
                break
        return ev(cond)

    def st_If(self, fr, st):
        cond = self.eval(fr, st.test)
        tv = self._truth(cond)
        if tv is None and fr.path and cond.op in ("boolop", "unop", "cmp", "sym", "getitem", "attr", "call"):
            tv = self._truth_on_path(cond, fr.path)
        if tv is not None:
            # a flag that is a literal here (e.g. a helper evaluated in place with relax=True): only that branch exists
            self.exec_block(fr, st.body if tv else st.orelse)
            return
        base = fr.env
        path0 = fr.path
        e1 = base.copy()
        fr.env, fr.path = e1, path0 + (self._pc(cond, True),)
        self.fork(fr)
        self.exec_block(fr, st.body)
        e1 = fr.env
        s1 = self.take_state(fr)
        e2 = base.copy()
        fr.env, fr.path = e2, path0 + (self._pc(cond, False),)
        self.exec_block(fr, st.orelse)
        e2 = fr.env
        fr.path = path0
        if e1.terminated and e2.terminated:
            fr.env = e1
            self.join_state(fr, s1, True, True)
            return
        if e1.terminated:
            # guard clause: the rest of the block runs only when the test failed
            fr.env = e2
            fr.path = path0 + (self._pc(cond, False),)
            self.join_state(fr, s1, True, False)
            return
        if e2.terminated:
            fr.env = e1
            fr.path = path0 + (self._pc(cond, True),)
            self.join_state(fr, s1, False, True)
            return
        merged = Env()
        for k in set(e1.vars) | set(e2.vars):
            a, b = e1.vars.get(k), e2.vars.get(k)
            if a is None or b is None:
                x = a if a is not None else b
                merged.vars[k] = mk("phi", cond, x, mk("undef", k)) if a is not None else mk(
                    "phi", cond, mk("undef", k), x)
            elif a is b:
                merged.vars[k] = a
            else:
                merged.vars[k] = mk("phi", cond, a, b)
        fr.env = merged
        self.join_state(fr, s1, False, False)

    # client abstract-state plumbing (overridden by typestate clients)
    def fork(self, fr):
        pass

    def take_state(self, fr):
        return None

    def join_state(self, fr, other, other_terminated, cur_terminated):
        pass

    def _assigned_names(self, stmts) -> List[str]:
        out = []
        for st in stmts:
            for n in ast.walk(st):
                if isinstance(n, ast.Name) and isinstance(n.ctx, ast.Store):
                    out.append(n.id)
                elif isinstance(n, (ast.Subscript, ast.Attribute)) and isinstance(
                        getattr(n, "ctx", None), ast.Store):
                    b = n
                    while isinstance(b, (ast.Subscript, ast.Attribute)):
                        b = b.value
                    if isinstance(b, ast.Name):
                        out.append(b.id)
                elif isinstance(n, ast.AugAssign):
                    b = n.target
                    while isinstance(b, (ast.Subscript, ast.Attribute)):
                        b = b.value
                    if isinstance(b, ast.Name):
                        out.append(b.id)
                elif isinstance(n, ast.Call) and isinstance(n.func, ast.Attribute) and isinstance(n.func.value, ast.Name) \
                        and n.func.attr in ("append", "extend", "update"):
                    out.append(n.func.value.id)      # list / dict filled in the loop
                elif isinstance(n, (ast.FunctionDef, ast.Lambda)) and n is not st:
                    pass
        seen, res = set(), []
        for x in out:
            if x not in seen:
                seen.add(x)
                res.append(x)
        return res

    def _loop(self, fr, st, header_term: T, target, src: Optional[T] = None, stride: Optional[T] = None):
        lid = st.lineno
        assigned = self._assigned_names(st.body)
        inits = {}
        for v in assigned:
            init = fr.lookup(v)
            inits[v] = init
            if init is not None and v in fr.env.vars:
                fr.env.vars[v] = mk("havoc", lid, v, init)
        old_loops = fr.loops
        fr.loops = old_loops + ((lid, header_term),)
        self.emit(fr, "loop_enter", st.lineno, header_term)
        if target is not None:
            ix_ = mk("iter", header_term, lid)
            val_ = mk("tuple", ix_, getitem(src, ix_)) if src is not None else (
                mk("binop", "*", ix_, stride) if stride is not None else ix_)
            self.assign(fr, target, val_, st.lineno)
        saved_term = fr.env.terminated
        saved_path = fr.path
        self.exec_block(fr, st.body)
        fr.env.terminated = saved_term  # a return inside the loop does not end the function
        fr.path = saved_path
        fr.loops = old_loops
        for v in assigned:
            fin = fr.env.vars.get(v)
            init = inits.get(v)
            if fin is not None:
                fr.env.vars[v] = mk("loopout", lid, v, init if init is not None else mk("undef", v),
                                    fin)
        self.emit(fr, "loop_exit", st.lineno, header_term)
        if st.orelse:
            self.exec_block(fr, st.orelse)

    MAX_UNROLL = 4

    @staticmethod
    def _enumerate_as_index_loop(it: T):
        """for i, x in enumerate(X)  ==  for i in range(len(X)): x = X[i]   ->  (range(len(X)), X)"""
        if it.op == "call" and func_name(it) == "builtins.enumerate" and len(it.args) == 2 and it.args[1].op != "kw":
            X = it.args[1]
            ln_ = sequence_length(X)
            if ln_ is None:
                ln_ = call(name("builtins.len"), X)
            return call(name("builtins.range"), ln_), X
        return None

    @staticmethod
    def _strided_as_index_loop(it: T):
        """for x in range(0, N * s, s)  ==  for k in range(N): x = k * s   ->  (range(N), s)"""
        if it.op == "call" and func_name(it) == "builtins.range" and len(it.args) == 4 and not any(
                a.op == "kw" for a in it.args[1:]):
            n_ = _strided_count(it.args[1], it.args[2], it.args[3])
            if n_ is not None:
                return call(name("builtins.range"), n_), it.args[3]
        return None

    @staticmethod
    def _comp_as_index_loop(it: T):
        """for x in [E(i) for i in range(n)]  ==  for i in range(n): x = E(i)   ->  (range(n), the comprehension)"""
        c = _peel_list(it)
        cr = _comp_range(c)
        if cr is not None:
            return call(name("builtins.range"), cr[2]), c
        return None

    def const_sequence(self, it: T) -> Optional[List[T]]:
        """Elements of an iterable whose length is a small literal: range(2), range(1, 3), (a, b), [a, b].
        Such loops are copy-paste in disguise (`for spin in range(2)`): they are unrolled, not abstracted."""
        it0 = it
        els = self.static_elements(it0)
        if els is not None:
            return els if 0 < len(els) <= self.MAX_UNROLL else None
        if it0.op == "call" and func_name(it0) == "builtins.enumerate" and len(call_parts(it0)[1]) == 1 and \
                not call_parts(it0)[2]:
            inner = self.const_sequence(call_parts(it0)[1][0])
            return None if inner is None else [mk("tuple", const(i), e) for i, e in enumerate(inner)]
        if it0.op == "call" and func_name(it0) == "builtins.zip" and call_parts(it0)[1] and not call_parts(it0)[2]:
            cols = [self.const_sequence(a) for a in call_parts(it0)[1]]
            if all(c is not None for c in cols) and len({len(c) for c in cols}) == 1:
                return [mk("tuple", *row) for row in zip(*cols)]
            return None
        if it0.op == "call" and func_name(it0) == "builtins.range":
            _, pos, kws = call_parts(it0)
            if kws or not (1 <= len(pos) <= 2):
                return None
            vals = [a.args[0] if a.op == "const" and isinstance(a.args[0], int) and not isinstance(a.args[0], bool)
                    else None for a in pos]
            if None in vals:
                return None
            lo, hi = (0, vals[0]) if len(vals) == 1 else (vals[0], vals[1])
            if 0 < hi - lo <= self.MAX_UNROLL:
                return [const(i) for i in range(lo, hi)]
        return None

    def static_elements(self, t: T) -> Optional[List[T]]:
        """Elements of a sequence whose length is fixed by the source: a tuple / list display, the per-iteration value
        of a scan or vmap over such a display, a slice of one of those, tuple(<such>)."""
        if t.op in ("tuple", "list") and all(isinstance(a, T) and a.op != "star" for a in t.args):
            return list(t.args)
        if t.op == "record":
            ci_ = self.p.classes.get(t.args[0])
            if ci_ is not None and getattr(ci_, "is_namedtuple", False):
                return list(t.args[1:])
        if t.op in ("scan_x", "vmap_elem") and isinstance(t.args[0], T):
            inner = self.static_elements(t.args[0])
            if inner is not None:
                return [getitem(t, const(i)) for i in range(len(inner))]
        if t.op == "getitem" and t.args[1].op == "slice":
            inner = self.static_elements(t.args[0])
            if inner is not None:
                b = []
                for x in t.args[1].args:
                    if x.op == "const" and (x.args[0] is None or isinstance(x.args[0], int)):
                        b.append(x.args[0])
                    else:
                        return None
                return inner[slice(*b)]
        if t.op == "call" and func_name(t) in ("builtins.tuple", "builtins.list") and len(call_parts(t)[1]) == 1:
            return self.static_elements(call_parts(t)[1][0])
        if t.op == "binop" and t.args[0] == "+":
            l, r = self.static_elements(t.args[1]), self.static_elements(t.args[2])
            if l is not None and r is not None:
                return l + r
        if t.op in ("getitem", "call") and not (t.op == "getitem" and t.args[1].op == "slice"):
            # the result of a scan whose body returns a display / of an in-package function that returns one
            try:
                lay = self.layout_of(t, None)
            except Exception:
                lay = None
            if lay is not None and lay[0] == "tup":
                return [getitem(t, const(i)) for i in range(len(lay[1]))]
            if lay is not None and lay[0] == "arr":
                return [getitem(t, const(i)) for i in range(lay[1])]      # the rows of an array built from a display
        return None

    @staticmethod
    def appended_elements(L: T):
        """L built as  L = []; for i in R: L.append(E(i))  ->  (E, iteration term of that loop, R)"""
        if L.op != "loopout" or len(L.args) != 4:
            return None
        lid, name, init, fin = L.args
        if not (isinstance(init, T) and init.op == "list" and not init.args and isinstance(fin, T) and fin.op == "append"):
            return None
        prev, E = fin.args
        if not (prev.op == "havoc" and prev.args[0] == lid and prev.args[1] == name):
            return None
        its = [x for x in subterms(E) if x.op == "iter" and x.args[1] == lid]
        if len({x.uid for x in its}) > 1:
            return None
        return E, (its[0] if its else None), (its[0].args[0] if its else None)

    @staticmethod
    def _unroll_break_loop(st: ast.For) -> Optional[List[ast.stmt]]:
        """for x in (e1, .., en): A; if c: B; break; C   [else: E]     (n <= 4, one top-level `if ..: ..; break`)
        is the nest   x = e1; A; if c: B  else: C; x = e2; A; if c: B else: C; .. E   -- built as syntax and executed as
        ordinary statements, so that "try the candidates in order, stop at the first good one" reads like the nested
        ifs it replaces"""
        import copy
        if not isinstance(st.iter, (ast.Tuple, ast.List)) or not (0 < len(st.iter.elts) <= 4) or \
                any(isinstance(e_, ast.Starred) for e_ in st.iter.elts):
            return None
        idx = [i for i, b_ in enumerate(st.body) if isinstance(b_, ast.If) and not b_.orelse and b_.body and
               isinstance(b_.body[-1], ast.Break)]
        if len(idx) != 1:
            return None
        k = idx[0]
        n_break = sum(1 for b_ in st.body for n_ in ast.walk(b_) if isinstance(n_, (ast.Break, ast.Continue)))
        if n_break != 1:
            return None
        A, IF, C = st.body[:k], st.body[k], st.body[k + 1:]

        def iteration(j: int) -> List[ast.stmt]:
            if j == len(st.iter.elts):
                return copy.deepcopy(list(st.orelse))
            head = [ast.Assign(targets=[copy.deepcopy(st.target)], value=copy.deepcopy(st.iter.elts[j]))]
            for t_ in ast.walk(head[0].targets[0]):
                if hasattr(t_, "ctx"):
                    t_.ctx = ast.Store()
            rest = copy.deepcopy(C) + iteration(j + 1)
            branch = ast.If(test=copy.deepcopy(IF.test), body=copy.deepcopy(IF.body[:-1]) or [ast.Pass()],
                            orelse=rest)
            out = head + copy.deepcopy(A) + [branch]
            for o_ in out:
                ast.copy_location(o_, st)
                ast.fix_missing_locations(o_)
            return out
        return iteration(0)

    def st_For(self, fr, st):
        unrolled = self._unroll_break_loop(st)
        if unrolled is not None:
            self.exec_block(fr, unrolled)
            return
        it = self.eval(fr, st.iter)
        # second pass over a list filled by an earlier loop:  for k, x in enumerate(L)  /  for x in L
        src, with_index = it, False
        if it.op == "call" and func_name(it) == "builtins.enumerate" and len(call_parts(it)[1]) == 1:
            src, with_index = call_parts(it)[1][0], True
        ap = self.appended_elements(src) if isinstance(src, T) else None
        if ap is not None and not st.orelse:
            E, it1, rng = ap
            lid = st.lineno
            header = rng if rng is not None else it
            idx = mk("iter", header, lid)
            elem = substitute(E, {it1: idx}) if it1 is not None else E
            assigned = self._assigned_names(st.body)
            inits = {}
            for v in assigned:
                init = fr.lookup(v)
                inits[v] = init
                if init is not None and v in fr.env.vars:
                    fr.env.vars[v] = mk("havoc", lid, v, init)
            old_loops = fr.loops
            fr.loops = old_loops + ((lid, header),)
            self.emit(fr, "loop_enter", lid, header)
            self.assign(fr, st.target, mk("tuple", idx, elem) if with_index else elem, lid)
            saved_term, saved_path = fr.env.terminated, fr.path
            self.exec_block(fr, st.body)
            fr.env.terminated, fr.path = saved_term, saved_path
            fr.loops = old_loops
            for v in assigned:
                fin = fr.env.vars.get(v)
                if fin is not None:
                    fr.env.vars[v] = mk("loopout", lid, v, inits[v] if inits.get(v) is not None else mk("undef", v), fin)
            self.emit(fr, "loop_exit", lid, header)
            return
        if isinstance(it, T) and it.op == "genseq" and not st.orelse:
            # for x in <generator evaluated in place>: the body runs once per yield site, between them the loop-carried
            # variables keep their values; the generator's own loops make the whole thing a loop
            lid = st.lineno
            assigned = self._assigned_names(st.body)
            inits = {}
            for v in assigned:
                init = fr.lookup(v)
                inits[v] = init
                if init is not None and v in fr.env.vars:
                    fr.env.vars[v] = mk("havoc", lid, v, init)
            old_loops = fr.loops
            fr.loops = old_loops + ((lid, it),)
            self.emit(fr, "loop_enter", lid, it)
            for y in it.args[2:]:
                self.assign(fr, st.target, y, lid)
                saved_term, saved_path = fr.env.terminated, fr.path
                self.exec_block(fr, st.body)
                fr.env.terminated, fr.path = saved_term, saved_path
            fr.loops = old_loops
            for v in assigned:
                fin = fr.env.vars.get(v)
                if fin is not None:
                    fr.env.vars[v] = mk("loopout", lid, v, inits[v] if inits.get(v) is not None else mk("undef", v), fin)
            self.emit(fr, "loop_exit", lid, it)
            return
        seq = self.const_sequence(it)
        if seq is not None and not st.orelse and not any(
                isinstance(n, (ast.Break, ast.Continue, ast.Return)) for b in st.body for n in ast.walk(b)):
            for el in seq:
                self.assign(fr, st.target, el, st.lineno)
                self.exec_block(fr, st.body)
            return
        en_ = self._enumerate_as_index_loop(it)
        if en_ is not None:
            self._loop(fr, st, en_[0], st.target, src=en_[1])
            return
        sr_ = self._strided_as_index_loop(it)
        if sr_ is not None:
            self._loop(fr, st, sr_[0], st.target, stride=sr_[1])
            return
        self._loop(fr, st, it, st.target)

    def _counting_while(self, fr, st: ast.While) -> Optional[ast.For]:
        """i = a; while i < n: BODY; i += 1   (i assigned nowhere else in the loop, no break / continue, n not assigned in
        the loop, a an int literal >= 0 held by i on entry)   is   for i in range(a, n): BODY"""
        import copy
        t = st.test
        if st.orelse or not (isinstance(t, ast.Compare) and len(t.ops) == 1 and isinstance(t.ops[0], ast.Lt)
                             and isinstance(t.left, ast.Name)):
            return None
        v = t.left.id
        if not st.body or not (isinstance(st.body[-1], ast.AugAssign) and isinstance(st.body[-1].op, ast.Add)
                               and isinstance(st.body[-1].target, ast.Name) and st.body[-1].target.id == v
                               and isinstance(st.body[-1].value, ast.Constant) and st.body[-1].value.value == 1):
            return None
        body = st.body[:-1]
        for b_ in body:
            for n_ in ast.walk(b_):
                if isinstance(n_, (ast.Break, ast.Continue)):
                    return None
                if isinstance(n_, ast.Name) and isinstance(n_.ctx, (ast.Store, ast.Del)) and n_.id == v:
                    return None
        bound_names = {n_.id for n_ in ast.walk(t.comparators[0]) if isinstance(n_, ast.Name)}
        if bound_names & set(self._assigned_names(st.body)):
            return None
        cur = fr.lookup(v)
        if cur is None or not (cur.op == "const" and isinstance(cur.args[0], int) and not isinstance(cur.args[0], bool)
                               and cur.args[0] >= 0):
            return None
        rng = ast.Call(func=ast.Name(id="range", ctx=ast.Load()),
                       args=([] if cur.args[0] == 0 else [ast.Constant(value=cur.args[0])]) + [copy.deepcopy(t.comparators[0])],
                       keywords=[])
        loop = ast.For(target=ast.Name(id=v, ctx=ast.Store()), iter=rng, body=copy.deepcopy(body) or [ast.Pass()], orelse=[])
        ast.copy_location(loop, st)
        ast.fix_missing_locations(loop)
        return loop

    def st_While(self, fr, st):
        as_for = self._counting_while(fr, st)
        if as_for is not None and "range" not in fr.env.vars:
            self.st_For(fr, as_for)
            return
        # the condition is evaluated with havoc'd variables inside _loop: evaluate after havoc
        lid = st.lineno
        assigned = self._assigned_names(st.body)
        pre = {v: fr.lookup(v) for v in assigned}
        cond0 = self.eval(fr, st.test)
        self._loop(fr, st, mk("while", cond0, lid), None)

    def st_With(self, fr, st):
        for item in st.items:
            v = self.eval(fr, item.context_expr)
            if item.optional_vars is not None:
                self.assign(fr, item.optional_vars, mk("enter", v), st.lineno)
        self.exec_block(fr, st.body)

    def st_Try(self, fr, st):
        base = fr.env.copy()
        self.exec_block(fr, st.body)
        self.exec_block(fr, st.orelse)
        e_ok = fr.env
        results = [e_ok]
        for h in st.handlers:
            fr.env = base.copy()
            fr.path = fr.path + ((mk("except", h.lineno), True),)
            self.exec_block(fr, h.body)
            fr.path = fr.path[:-1]
            results.append(fr.env)
        live = [e for e in results if not e.terminated]
        if not live:
            fr.env = results[0]
        else:
            merged = live[0]
            for other in live[1:]:
                m = Env()
                for k in set(merged.vars) | set(other.vars):
                    a, b = merged.vars.get(k), other.vars.get(k)
                    if a is b:
                        m.vars[k] = a
                    else:
                        m.vars[k] = mk("phi", sym("exc"), a if a is not None else mk("undef", k),
                                       b if b is not None else mk("undef", k))
                merged = m
            fr.env = merged
        if st.finalbody:
            self.exec_block(fr, st.finalbody)

    # ------------------------------------------------------------ assignment
    def assign(self, fr: Frame, tgt: ast.AST, v: T, line: int, aug: bool = False):
        if isinstance(tgt, ast.Name):
            fr.env.vars[tgt.id] = v
            self.emit(fr, "assign", line, (tgt.id, v, aug))
        elif isinstance(tgt, (ast.Tuple, ast.List)):
            n = len(tgt.elts)
            for i, e in enumerate(tgt.elts):
                if isinstance(e, ast.Starred):
                    self.assign(fr, e.value, mk("starred", v, i), line)
                else:
                    self.assign(fr, e, getitem(v, const(i)), line)
        elif isinstance(tgt, ast.Subscript):
            keys = []
            node = tgt
            while isinstance(node, ast.Subscript):
                keys.append(self.eval_index(fr, node.slice))
                node = node.value
            keys.reverse()
            if isinstance(node, ast.Name):
                base = fr.lookup(node.id)
                if base is None:
                    base = self.eval(fr, node)
                old_val = base
                for k_ in keys:
                    old_val = getitem(old_val, k_)
                new = self._store_path(base, keys, v)
                if node.id in fr.env.vars or fr.parent is None:
                    fr.env.vars[node.id] = new
                    if getattr(fr, "mutated", None) is not None:
                        fr.mutated.add(node.id)
                else:
                    # store through a captured variable: rebind in the defining frame
                    f = fr.parent
                    while f is not None and node.id not in f.env.vars:
                        f = f.parent
                    (f or fr).env.vars[node.id] = new
                self.emit(fr, "store", line, (node.id, tuple(keys), v, aug, old_val, base))
            else:
                base = self.eval(fr, node)
                self.emit(fr, "store_expr", line, (base, tuple(keys), v, aug))
        elif isinstance(tgt, ast.Attribute):
            base = self.eval(fr, tgt.value)
            self.emit(fr, "setattr", line, (base, tgt.attr, v))
            if isinstance(tgt.value, ast.Name):
                # track self.x = v as a pseudo variable
                fr.env.vars[f"{tgt.value.id}.{tgt.attr}"] = v
        elif isinstance(tgt, ast.Starred):
            self.assign(fr, tgt.value, mk("starred", v, 0), line)

    def _store_path(self, base: T, keys: List[T], v: T) -> T:
        if len(keys) == 1:
            return setitem(base, keys[0], v)
        inner = getitem(base, keys[0])
        return setitem(base, keys[0], self._store_path(inner, keys[1:], v))

    # ------------------------------------------------------------ expressions
    def note_line(self, t: T, line: int):
        if t.uid not in self.line_of:
            self.line_of[t.uid] = line

    def eval(self, fr: Frame, node: ast.AST) -> T:
        m = getattr(self, "ex_" + type(node).__name__, None)
        if m is None:
            t = mk("unknown", type(node).__name__, getattr(node, "lineno", 0))
        else:
            t = m(fr, node)
        ln = getattr(node, "lineno", None)
        if ln is not None:
            self.note_line(t, ln)
        if self.record_terms is not None:
            self.record_terms.append((t, ln or 0, fr))
        return t

    record_terms: Optional[list] = None

    def ex_Constant(self, fr, n):
        return const(n.value)

    def ex_Name(self, fr, n):
        v = fr.lookup(n.id)
        if v is not None:
            if v.op == "phi" and fr.path and len(v.args) == 3:
                # a variable bound under `if c:` and read under a later `if c:` -- on this path it has the bound value
                known = {}
                for c_, pol_ in fr.path:
                    if isinstance(c_, T):
                        known[c_] = pol_
                for _ in range(8):
                    if v.op == "phi" and len(v.args) == 3 and v.args[0] in known and isinstance(v.args[1], T) and \
                            isinstance(v.args[2], T):
                        v = v.args[1] if known[v.args[0]] else v.args[2]
                    else:
                        break
            return v
        return self.global_name(fr, n.id, n.lineno)

    def global_name(self, fr: Frame, nm: str, line: int = 0) -> T:
        mod = fr.mod
        r = self.p.resolve_name(mod, nm)
        if r is not None:
            if r[0] == "class":
                return mk("cls", r[1])
            if r[0] == "func":
                return mk("fn", r[1])
            if r[0] == "module":
                return mk("mod", r[1])
            if r[0] == "ext":
                return name(r[1])
        if nm in getattr(mod, "constants", {}) and not fr.lookup(nm):
            # a module-level literal constant (_DEG_THRESH = 1.0e-5, a dispatch table of strings ...): its value
            try:
                return self.eval(fr, mod.constants[nm])
            except Exception:
                pass
        if nm in mod.rebinds:
            # module-level variable (print = partial(print...), comm, MPI, rank ...)
            return mk("global", f"{mod.name}.{nm}")
        if nm in BUILTINS:
            return name(f"builtins.{nm}")
        self.unknown_names.append((mod.path, nm, line))
        return mk("global", f"{mod.name}.{nm}")

    def ex_Attribute(self, fr, n):
        base = self.eval(fr, n.value)
        return self.attr(fr, base, n.attr)

    # ------------------------------------------------------------------ records
    def record_fields(self, q: str) -> Optional[List[str]]:
        """field names, in constructor order, of a class whose instances are plain records: a NamedTuple, or a private
        dataclass without constructor logic"""
        ci = self.p.classes.get(q)
        if ci is not None and not ci.is_dataclass:
            return self._init_record_fields(ci)
        if ci is None or not ci.is_dataclass:
            return None
        if not getattr(ci, "is_namedtuple", False):
            if not ci.name.startswith("_") or any(m in ci.methods for m in ("__init__", "__post_init__", "__new__")):
                return None
            if any(c_ != q and self.p.classes.get(c_) is not None and self.p.classes[c_].is_dataclass for c_ in ci.mro[1:]):
                return None
        return [f.name for f in self.p.dataclass_fields(q)]

    _init_rec_cache: Dict[str, Optional[List[str]]] = {}

    def _init_record_fields(self, ci) -> Optional[List[str]]:
        """A private plain class (no dataclass, no in-package base) whose __init__ is a straight line of assignments to
        locals and to self.<name>: its instances are records of those attributes, in assignment order."""
        key_ = ci.qualname + "@" + str(id(self.p))
        if key_ in self._init_rec_cache:
            return self._init_rec_cache[key_]
        out: Optional[List[str]] = None
        init = ci.methods.get("__init__")
        bases_ok = all(self.p.classes.get(c_) is None for c_ in ci.mro[1:])
        if ci.name.startswith("_") and init is not None and bases_ok and not any(
                m_ in ci.methods for m_ in ("__new__", "__setattr__", "__getattr__", "__getattribute__", "__slots__")):
            names: List[str] = []
            ok = True
            for st in init.real_body():
                tg = None
                if isinstance(st, ast.Assign) and len(st.targets) == 1:
                    tg = st.targets[0]
                elif isinstance(st, ast.AnnAssign) and st.value is not None:
                    tg = st.target
                elif isinstance(st, ast.Pass):
                    continue
                else:
                    ok = False
                    break
                tgs = list(tg.elts) if isinstance(tg, (ast.Tuple, ast.List)) else [tg]
                for t_ in tgs:
                    if isinstance(t_, ast.Name):
                        continue
                    if isinstance(t_, ast.Attribute) and isinstance(t_.value, ast.Name) and t_.value.id == "self":
                        if t_.attr not in names:
                            names.append(t_.attr)
                        continue
                    ok = False
            # the methods only read the attributes
            for m_ in ci.methods.values():
                if m_ is init:
                    continue
                for n_ in ast.walk(m_.node):
                    if isinstance(n_, ast.Attribute) and isinstance(n_.value, ast.Name) and n_.value.id == "self" and \
                            isinstance(n_.ctx, (ast.Store, ast.Del)):
                        ok = False
            if ok and names:
                out = names
        self._init_rec_cache[key_] = out
        return out

    def _make_init_record(self, fr, f: T, ci, names: List[str], args: List[T], kws: List[T], line: int) -> Optional[T]:
        from .model import bind_call
        init = ci.methods["__init__"]
        kwd = {k.args[0]: k.args[1] for k in kws if k.op == "kw"}
        if len(kwd) != len(kws):
            return None
        ok, _, mapping = bind_call(init, len(args), list(kwd), True)
        if not ok or any(q.kind in ("vararg", "kwarg") for q in init.params) or self._depth >= self.MAX_INLINE_DEPTH:
            return None
        sub = self.new_frame(init, None, None)
        sub.caller = fr
        sub.self_class = ci.qualname
        pp = init.pos_params()
        # the object under construction carries the name of __init__'s first parameter, so that self.<x> read back inside
        # __init__ finds what was just stored
        inst = sym(pp[0].name) if pp else sym("self")
        binding = {pp[0].name: inst} if pp else {}
        for pname, m in mapping.items():
            binding[pname] = args[m[1]] if m[0] == "pos" else kwd[m[1]]
        for prm in init.params:
            if prm.name in binding:
                sub.env.vars[prm.name] = binding[prm.name]
            elif prm.default is not None:
                sub.env.vars[prm.name] = self.eval(sub, prm.default)
            else:
                return None
        sub.path, sub.loops = fr.path, fr.loops
        self._depth += 1
        try:
            self.exec_block(sub, init.body())
        finally:
            self._depth -= 1
        self_name = pp[0].name if pp else "self"
        vals = []
        for n_ in names:
            v = sub.env.vars.get(f"{self_name}.{n_}")
            if v is None:
                return None
            vals.append(v)
        return mk("record", ci.qualname, *vals)

    def make_record(self, fr, f: T, args: List[T], kws: List[T], line: int) -> Optional[T]:
        q = f.args[0]
        names = self.record_fields(q)
        if names is None or any(a.op in ("star", "dstar") for a in args + kws):
            return None
        ci_ = self.p.classes.get(q)
        if ci_ is not None and not ci_.is_dataclass:
            return self._make_init_record(fr, f, ci_, names, args, kws, line)
        flds = self.p.dataclass_fields(q)
        vals: Dict[str, T] = {}
        if len(args) > len(names):
            return None
        for n_, v in zip(names, args):
            vals[n_] = v
        for k in kws:
            if k.op != "kw" or k.args[0] not in names or k.args[0] in vals:
                return None
            vals[k.args[0]] = k.args[1]
        for fld in flds:
            if fld.name not in vals:
                if fld.default is None:
                    return None
                vals[fld.name] = self.eval(fr, fld.default)
        return mk("record", q, *[vals[n_] for n_ in names])

    _layout_cache: Dict[Tuple[int, int], object] = {}

    def layout_of(self, t: T, fr, depth: int = 0):
        """Shape of the value of t as far as the source fixes it: ('rec', class) for a record, ('tup', [layouts]) for a
        tuple / list display, None when unknown.  Looks through calls of in-package functions (their returned display),
        scan results (the body's returned carry / per-step output) and scan / vmap element terms."""
        if depth > 6 or not isinstance(t, T):
            return None
        if t.op == "record":
            return ("rec", t.args[0])
        if t.op in ("tuple", "list"):
            return ("tup", [self.layout_of(a, fr, depth + 1) for a in t.args])
        if t.op in ("phi", "ifexp") and len(t.args) == 3:
            a, b = self.layout_of(t.args[1], fr, depth + 1), self.layout_of(t.args[2], fr, depth + 1)
            return a if a == b else None
        if t.op in ("scan_carry",) and isinstance(t.args[0], T):
            return self.layout_of(t.args[0], fr, depth + 1)
        if t.op in ("scan_x", "vmap_elem") and isinstance(t.args[0], T):
            return self.layout_of(t.args[0], fr, depth + 1)
        if t.op == "getitem" and t.args[1].op == "const" and isinstance(t.args[1].args[0], int):
            lay = self.layout_of(t.args[0], fr, depth + 1)
            i = t.args[1].args[0]
            if lay is not None and lay[0] == "tup" and -len(lay[1]) <= i < len(lay[1]):
                return lay[1][i]
            return None
        if t.op == "call":
            key_ = (id(self), t.uid)
            if key_ in self._layout_cache:
                return self._layout_cache[key_]
            self._layout_cache[key_] = None          # recursion guard
            lay = None
            sc = match_scan(t)
            if sc is not None and sc[0].op == "closure" and self._depth < self.MAX_INLINE_DEPTH:
                try:
                    self._mute = getattr(self, "_mute", 0) + 1
                    try:
                        body = self.open_closure(sc[0], [mk("scan_carry", sc[1], 0), mk("scan_x", sc[2], 0)], at_call=t)
                    finally:
                        self._mute -= 1
                    bl = self.layout_of(body, fr, depth + 1)
                    if bl is not None and bl[0] == "tup" and len(bl[1]) == 2:
                        lay = ("tup", [bl[1][0] if bl[1][0] is not None else self.layout_of(sc[1], fr, depth + 1), bl[1][1]])
                except Exception:
                    lay = None
            elif array_fn(t) in ("array", "asarray", "stack") and call_parts(t)[1] and \
                    call_parts(t)[1][0].op in ("list", "tuple") and (
                        call_parts(t)[2].get("axis") is None or call_parts(t)[2]["axis"] is const(0)) and not any(
                        x.op == "star" for x in call_parts(t)[1][0].args):
                # jnp.array([a, b]): iterating / indexing its leading axis gives its len(display) rows
                lay = ("arr", len(call_parts(t)[1][0].args))
            elif t.args[0].op in ("attr", "fn"):
                try:
                    cands = self.resolve_callees(t.args[0], fr)
                except Exception:
                    cands = None
                if cands and len(cands) == 1 and not cands[0][0].is_abstract and self._depth < self.MAX_INLINE_DEPTH:
                    callee, rc = cands[0]
                    lay = self._callee_layout(callee, rc, depth)
            self._layout_cache[key_] = lay
            return lay
        return None

    _callee_layouts: Dict[str, object] = {}

    def _callee_layout(self, callee: FuncInfo, rc, depth: int):
        k = f"{id(self.p)}:{callee.qualname}:{rc}"
        if k in self._callee_layouts:
            return self._callee_layouts[k]
        self._callee_layouts[k] = None
        lay = None
        try:
            sub = Evaluator(self.p)
            sub.auto_inline_helpers = True
            sub._depth = self._depth + 1
            fr2 = sub.eval_function(callee, self_class=rc)
            rets = [r_ for _, r_, _ in fr2.returns]
            lays = [sub.layout_of(r_, fr2, depth + 1) for r_ in rets]
            if lays and all(l_ == lays[0] for l_ in lays):
                lay = lays[0]
        except Exception:
            lay = None
        self._callee_layouts[k] = lay
        return lay

    def attr(self, fr, base: T, a: str) -> T:
        if base.op == "record":
            names = self.record_fields(base.args[0])
            if names is not None and a in names:
                return base.args[1 + names.index(a)]
            # a read-only property of the record: its body evaluated with self bound to the record
            pm = self.p.lookup_method(base.args[0], a)
            if pm is not None and any((dotted_name(d_) or "").split(".")[-1] in ("property", "cached_property")
                                      for d_ in pm.decorators) and self._depth < self.MAX_INLINE_DEPTH:
                r_ = self.inline_function(fr, mk("attr", base, a), pm, base.args[0], [], [], getattr(pm, "lineno", 0))
                if r_ is not None:
                    return r_
        elif base.op in ("phi", "ifexp") and len(base.args) == 3 and all(
                isinstance(x, T) and x.op == "record" for x in base.args[1:]):
            return mk(base.op, base.args[0], self.attr(fr, base.args[1], a), self.attr(fr, base.args[2], a))
        elif base.op in ("call", "getitem", "scan_carry", "scan_x", "vmap_elem") and not a.startswith("__") and \
                a not in ("T", "real", "imag", "shape", "size", "ndim", "dtype", "at"):
            # x.energy where x is known to be a record (the result of an in-package function / of a scan whose body
            # returns one): the field's position, so that a named field and a tuple slot are the same term
            lay = self.layout_of(base, fr)
            if lay is not None and lay[0] == "rec":
                names = self.record_fields(lay[1])
                if names is not None and a in names:
                    return getitem(base, const(names.index(a)))
        if base.op not in ("record", "mod", "name", "cls", "fn", "const") and not a.startswith("__"):
            cv_ = self._class_level_value(fr, base, a)
            if cv_ is not None:
                return cv_
            c_ = self.static_type(base, fr) if fr is not None else None
            if c_ is not None and base.op != "call":
                names = self.record_fields(c_)
                ci_ = self.p.classes.get(c_)
                if names is not None and a in names and ci_ is not None and getattr(ci_, "is_namedtuple", False):
                    return getitem(base, const(names.index(a)))      # a NamedTuple-typed value: field == position
        if base.op == "mod":
            target = self.p.modules[base.args[0]]
            r = self.p._resolve_in_module(target, [a])
            if r is not None:
                if r[0] == "class":
                    return mk("cls", r[1])
                if r[0] == "func":
                    return mk("fn", r[1])
                if r[0] == "module":
                    return mk("mod", r[1])
                if r[0] == "ext":
                    return name(r[1])
            if a in target.rebinds:
                return mk("global", f"{target.name}.{a}")
            return mk("attr", base, a)
        if base.op == "name":
            return name(f"{base.args[0]}.{a}")
        if isinstance(base, T) and base.op == "sym":
            pseudo = fr.lookup(f"{base.args[0]}.{a}")
            if pseudo is not None:
                return pseudo
        return mk("attr", base, a)

    def _class_level_value(self, fr, base: T, a: str) -> Optional[T]:
        """obj.<a> where <a> is neither an instance field nor a method but a class-level binding that every class obj can
        be resolves to the same thing:
          - a strategy attribute   _kernel = staticmethod(sr.stochastic_reconfiguration)   -> that function
          - a class constant       _weight_cap = 100.0  /  NAMES: ClassVar[...] = ("a", "b") -> the literal
        None otherwise (instance fields, dataclass fields with defaults, methods, anything not a literal / function)."""
        if fr is None:
            return None
        c = self.static_type(base, fr)
        if c is None and base is sym("self"):
            c = fr.self_class
        if c is None or c not in self.p.classes:
            return None
        exact = base in self.exact_types or (base is sym("self") and self._frame_exact(fr))
        cands = [c] if exact else self.p.subclasses(c)
        found = []
        for sc in cands:
            if self.p.lookup_method(sc, a) is not None:
                return None
            owner, node = None, None
            for q_ in self.p.classes[sc].mro:
                cc = self.p.classes.get(q_)
                if cc is not None and a in cc.class_attrs:
                    owner, node = cc, cc.class_attrs[a]
                    break
            if node is None:
                return None
            fld = [f_ for f_ in owner.own_fields if f_.name == a]
            if fld and "ClassVar" not in ast.unparse(fld[0].annotation):
                return None                   # an instance field with a default: instances may differ
            found.append((owner, node))
        if not found or len({ast.dump(n_) for _, n_ in found}) != 1:
            return None
        owner, node = found[0]
        mod = self.p.modules[owner.module]
        from .model import dotted
        if isinstance(node, ast.Call) and isinstance(node.func, ast.Name) and node.func.id == "staticmethod" and \
                len(node.args) == 1 and not node.keywords:
            dn = dotted(node.args[0])
            r = self.p.resolve_name(mod, dn) if dn else None
            if r and r[0] == "func":
                return mk("fn", r[1])
            if r and r[0] == "ext":
                return name(r[1])
            return None
        try:
            lit = ast.literal_eval(node)
        except Exception:
            return None

        def term(v):
            if isinstance(v, (tuple, list)):
                return mk("tuple" if isinstance(v, tuple) else "list", *[term(x) for x in v])
            return const(v)
        if isinstance(lit, (int, float, complex, str, bytes, tuple, bool)) or lit is None:
            return term(lit)
        return None

    def eval_index(self, fr, n) -> T:
        if isinstance(n, ast.Slice):
            f = lambda x: self.eval(fr, x) if x is not None else NONE
            return mk("slice", f(n.lower), f(n.upper), f(n.step))
        if isinstance(n, ast.Tuple):
            return mk("tuple", *[self.eval_index(fr, e) for e in n.elts])
        return self.eval(fr, n)

    def ex_Subscript(self, fr, n):
        base = self.eval(fr, n.value)
        idx = self.eval_index(fr, n.slice)
        r = getitem(base, idx)
        if self.emit_loads and idx.op == "const" and isinstance(idx.args[0], str):
            self.emit(fr, "load", n.lineno, (base, idx.args[0], r))
        return r

    emit_loads = False

    def ex_Slice(self, fr, n):
        return self.eval_index(fr, n)

    def ex_Tuple(self, fr, n):
        return mk("tuple", *self._elts(fr, n.elts))

    def ex_List(self, fr, n):
        return mk("list", *self._elts(fr, n.elts))

    def ex_Set(self, fr, n):
        return mk("set", *self._elts(fr, n.elts))

    def _elts(self, fr, elts):
        out = []
        for e in elts:
            if isinstance(e, ast.Starred):
                v = self.eval(fr, e.value)
                if v.op in ("tuple", "list"):
                    out.extend(v.args)
                else:
                    els = self.static_elements(v)      # *batch where batch is the scanned slice of a tuple of arrays
                    if els is not None:
                        out.extend(els)
                    else:
                        out.append(mk("star", v))
            else:
                out.append(self.eval(fr, e))
        return out

    def ex_Dict(self, fr, n):
        items = []
        for k, v in zip(n.keys, n.values):
            items.append(self.eval(fr, k) if k is not None else mk("dstar"))
            items.append(self.eval(fr, v))
        return mk("dict", *items)

    def ex_BinOp(self, fr, n):
        l, r = self.eval(fr, n.left), self.eval(fr, n.right)
        op = _OPS.get(type(n.op), type(n.op).__name__)
        # displays of known length:  (0,) * 2  and  (a, b) + (c,)  are displays again
        if op == "+" and l.op == r.op and l.op in ("tuple", "list") and not any(
                isinstance(a, T) and a.op == "star" for a in l.args + r.args):
            return mk(l.op, *l.args, *r.args)
        if op == "*":
            for seq, k in ((l, r), (r, l)):
                if seq.op in ("tuple", "list") and k.op == "const" and isinstance(k.args[0], int) and \
                        not isinstance(k.args[0], bool) and 0 <= k.args[0] <= 8 and len(seq.args) * k.args[0] <= 16 and \
                        all(isinstance(a, T) and a.op == "const" for a in seq.args):
                    return mk(seq.op, *(list(seq.args) * k.args[0]))
        if op in ("+", "-", "*", "//", "%") and l.op == "const" and r.op == "const" and \
                all(isinstance(x.args[0], int) and not isinstance(x.args[0], bool) for x in (l, r)) and \
                not (op in ("//", "%") and r.args[0] == 0) and abs(l.args[0]) < 1 << 20 and abs(r.args[0]) < 1 << 20:
            # integer arithmetic on two literals (an unrolled loop variable in `1 - field`, `k + 1`): the literal result
            a_, b_ = l.args[0], r.args[0]
            return const({"+": a_ + b_, "-": a_ - b_, "*": a_ * b_, "//": a_ // b_ if b_ else 0, "%": a_ % b_ if b_ else 0}[op])
        return mk("binop", op, l, r)

    def ex_UnaryOp(self, fr, n):
        v = self.eval(fr, n.operand)
        op = _UOPS.get(type(n.op), type(n.op).__name__)
        if op == "-" and v.op == "const" and isinstance(v.args[0], (int, float, complex)) \
                and not isinstance(v.args[0], bool):
            return const(-v.args[0])
        return mk("unop", op, v)

    def ex_BoolOp(self, fr, n):
        return mk("boolop", "and" if isinstance(n.op, ast.And) else "or",
                  *[self.eval(fr, v) for v in n.values])

    def ex_Compare(self, fr, n):
        left = self.eval(fr, n.left)
        parts = []
        for op, c in zip(n.ops, n.comparators):
            right = self.eval(fr, c)
            parts.append(mk("cmp", _CMP.get(type(op), type(op).__name__), left, right))
            left = right
        if len(parts) == 1:
            return parts[0]
        return mk("boolop", "and", *parts)

    @staticmethod
    def _truth(c) -> Optional[bool]:
        """truth value of a condition that is a literal in this evaluation (a flag bound to True / False at the call
        that is being evaluated in place, `not` of one, a comparison of two literals); None if not a literal"""
        if not isinstance(c, T):
            return None
        if c.op == "const" and (isinstance(c.args[0], (bool, int, float, str)) or c.args[0] is None):
            return bool(c.args[0])
        if c.op == "unop" and c.args[0] == "not":
            v = Evaluator._truth(c.args[1])
            return None if v is None else not v
        if c.op == "cmp" and len(c.args) == 3 and all(isinstance(a, T) and a.op == "const" for a in c.args[1:]):
            a, b = c.args[1].args[0], c.args[2].args[0]
            try:
                return {"==": a == b, "!=": a != b, "is": a is b, "is not": a is not b, "<": a < b, ">": a > b,
                        "<=": a <= b, ">=": a >= b}.get(c.args[0])
            except TypeError:
                return None
        if c.op == "cmp" and len(c.args) == 3 and c.args[0] in ("in", "not in") and c.args[1].op == "const" and \
                c.args[2].op in ("tuple", "list", "set") and all(isinstance(a, T) and a.op == "const" for a in c.args[2].args):
            hit = c.args[1].args[0] in [a.args[0] for a in c.args[2].args]
            return hit if c.args[0] == "in" else not hit
        if c.op == "boolop":
            vals = [Evaluator._truth(a) for a in c.args[1:]]
            if c.args[0] == "and":
                if any(v is False for v in vals):
                    return False
                return True if all(v is True for v in vals) else None
            if any(v is True for v in vals):
                return True
            return False if all(v is False for v in vals) else None
        return None

    def ex_IfExp(self, fr, n):
        c = self.eval(fr, n.test)
        tv = self._truth(c)
        if tv is not None:
            return self.eval(fr, n.body if tv else n.orelse)
        return mk("ifexp", c, self.eval(fr, n.body), self.eval(fr, n.orelse))

    def ex_Lambda(self, fr, n):
        return self.make_closure(fr, n, "<lambda>")

    def ex_JoinedStr(self, fr, n):
        parts = []
        for v in n.values:
            if isinstance(v, ast.FormattedValue):
                parts.append(self.eval(fr, v.value))
            elif isinstance(v, ast.Constant):
                parts.append(const(v.value))
        return mk("fstr", *parts)

    def ex_FormattedValue(self, fr, n):
        return self.eval(fr, n.value)

    def ex_Starred(self, fr, n):
        return mk("star", self.eval(fr, n.value))

    def ex_Yield(self, fr, n):
        """inside a generator evaluated in place: record the yielded value (see inline_function / st_For)"""
        v = self.eval(fr, n.value) if n.value is not None else NONE
        f_ = fr
        while f_ is not None and not hasattr(f_, "yields"):
            f_ = f_.parent
        if f_ is not None:
            f_.yields.append(v)
            return NONE
        return mk("unknown", "Yield", getattr(n, "lineno", 0))

    def ex_NamedExpr(self, fr, n):
        v = self.eval(fr, n.value)
        self.assign(fr, n.target, v, n.lineno)
        return v

    def _comp(self, fr, n, kind, elt_nodes):
        sub = Frame(self, fr.fi, fr.mod, fr, fr.label + ".<comp>")
        sub.self_class = fr.self_class
        sub.path, sub.loops = fr.path, fr.loops
        if kind in ("list", "gen") and len(n.generators) == 1 and not n.generators[0].ifs and len(elt_nodes) == 1:
            seq = self.const_sequence(self.eval(sub, n.generators[0].iter))
            if seq is not None:
                out = []
                for el in seq:
                    self.assign(sub, n.generators[0].target, el, n.lineno)
                    out.append(self.eval(sub, elt_nodes[0]))
                return mk("list", *out)
        if kind == "dict" and len(n.generators) == 1 and not n.generators[0].ifs and len(elt_nodes) == 2:
            # {k: f(v) for k, v in <a table of literals>.items()}: one entry per row of the table
            seq = self.static_elements(self.eval(sub, n.generators[0].iter))
            if seq is not None and 0 < len(seq) <= 16:
                items = []
                for el in seq:
                    self.assign(sub, n.generators[0].target, el, n.lineno)
                    items += [self.eval(sub, elt_nodes[0]), self.eval(sub, elt_nodes[1])]
                if all(items[j].op == "const" for j in range(0, len(items), 2)):
                    return mk("dict", *items)
        gens = []
        for g in n.generators:
            it = self.eval(sub, g.iter)
            en_ = self._enumerate_as_index_loop(it)
            if en_ is not None:
                it, src_ = en_
                ix_ = mk("iter", it, n.lineno)
                self.assign(sub, g.target, mk("tuple", ix_, getitem(src_, ix_)), n.lineno)
                conds = [self.eval(sub, c) for c in g.ifs]
                gens.append(mk("gen", it, *conds))
                continue
            cm_ = self._comp_as_index_loop(it)
            if cm_ is not None:
                it, src_ = cm_
                ix_ = mk("iter", it, n.lineno)
                self.assign(sub, g.target, getitem(src_, ix_), n.lineno)
                conds = [self.eval(sub, c) for c in g.ifs]
                gens.append(mk("gen", it, *conds))
                continue
            sr_ = self._strided_as_index_loop(it)
            if sr_ is not None:
                it, step_ = sr_
                ix_ = mk("iter", it, n.lineno)
                self.assign(sub, g.target, mk("binop", "*", ix_, step_), n.lineno)
                conds = [self.eval(sub, c) for c in g.ifs]
                gens.append(mk("gen", it, *conds))
                continue
            self.assign(sub, g.target, mk("iter", it, n.lineno), n.lineno)
            conds = [self.eval(sub, c) for c in g.ifs]
            gens.append(mk("gen", it, *conds))
        elts = [self.eval(sub, e) for e in elt_nodes]
        return mk("comp", kind, mk("tuple", *elts), *gens)

    def ex_ListComp(self, fr, n):
        return self._comp(fr, n, "list", [n.elt])

    def ex_GeneratorExp(self, fr, n):
        return self._comp(fr, n, "gen", [n.elt])

    def ex_SetComp(self, fr, n):
        return self._comp(fr, n, "set", [n.elt])

    def ex_DictComp(self, fr, n):
        return self._comp(fr, n, "dict", [n.key, n.value])

    # ------------------------------------------------------------------ calls
    def make_closure(self, fr: Frame, node, nm: str) -> T:
        key = (id(node), id(fr))
        cid = self._closure_by_node.get(key)
        if cid is None:
            cid = len(self.closures) + 1
            self.closures[cid] = Closure(node, fr, nm)
            self._closure_by_node[key] = cid
        return mk("closure", cid)

    def ex_Call(self, fr, n: ast.Call):
        f = self.eval(fr, n.func)
        args = self._elts(fr, n.args)
        kws = []
        for k in n.keywords:
            if k.arg is None:
                dv = self.eval(fr, k.value)
                if dv.op == "dict" and len(dv.args) % 2 == 0 and all(
                        dv.args[j].op == "const" and isinstance(dv.args[j].args[0], str) for j in range(0, len(dv.args), 2)):
                    # **{"a": x, "b": y}  is  a=x, b=y
                    for j in range(0, len(dv.args), 2):
                        kws.append(kw(dv.args[j].args[0], dv.args[j + 1]))
                else:
                    kws.append(mk("dstar", dv))
            else:
                kws.append(kw(k.arg, self.eval(fr, k.value)))
        t = self.apply(fr, f, args, kws, n.lineno)
        return t

    def _closure_choice(self, f: T, depth: int = 0) -> bool:
        if depth > 8:
            return False
        if f.op == "closure":
            return True
        return f.op == "phi" and len(f.args) == 3 and all(
            isinstance(x, T) and self._closure_choice(x, depth + 1) for x in f.args[1:])

    _ARRAY_ANNOTATIONS = ("jax.Array", "jnp.ndarray", "Array", "jax.numpy.ndarray", "np.ndarray", "numpy.ndarray",
                          "jnp.array", "complex", "float")
    _ARRAY_RESULT_FNS = ("where", "array", "asarray", "exp", "einsum", "zeros", "ones", "sum", "abs", "absolute", "real",
                         "imag", "stack", "concatenate", "dot", "matmul", "linalg.det", "linalg.inv", "zeros_like",
                         "ones_like", "sqrt", "log", "cos", "sin", "angle", "conj", "vstack", "hstack", "reshape")

    def _static_isinstance(self, fr, x: T, c: T) -> Optional[bool]:
        """isinstance(x, list / tuple / (list, tuple)) when the container kind of x is visible in its term: a list or
        tuple display / comprehension, or the result of an array function or of a package callee annotated to return an
        array.  None: not decidable here (the call term is kept)."""
        cs = list(c.args) if c.op == "tuple" else [c]
        names = set()
        for q in cs:
            if q.op != "name" or q.args[0] not in ("builtins.list", "builtins.tuple"):
                return None
            names.add(q.args[0].split(".")[-1])
        x = transparent(x) if x.op == "call" else x
        if x.op in ("list", "comp"):
            return "list" in names
        if x.op == "tuple":
            return "tuple" in names
        if x.op == "call":
            fn = array_fn(x)
            if fn in self._ARRAY_RESULT_FNS:
                return False
            try:
                cands = self.resolve_callees(transparent(x.args[0]), fr)
            except Exception:  # noqa
                cands = None
            if cands and all(ci is not None and getattr(ci, "node", None) is not None and
                             getattr(ci.node, "returns", None) is not None and
                             ast.unparse(ci.node.returns) in self._ARRAY_ANNOTATIONS for ci, _ in cands):
                return False
        return None

    def apply(self, fr: Frame, f: T, args: List[T], kws: List[T], line: int) -> T:
        """Apply callee term f.  Local closures are inlined; everything else
        becomes a call term (and an event)."""
        # transparent wrappers: jit(f) / checkpoint(f) -> f ; partial(f, a..) kept as term
        if f.op == "name" and f.args[0] == "builtins.isinstance" and len(args) == 2 and not kws:
            v_ = self._static_isinstance(fr, args[0], args[1])
            if v_ is not None:
                return const(v_)
        if f.op == "phi" and len(f.args) == 3 and self._depth < self.MAX_INLINE_DEPTH and self._closure_choice(f):
            # a local function chosen by an earlier if / elif chain and called here: the call is that chain around the
            # calls of the candidates
            cond, fa, fb = f.args
            base, path0 = fr.env, fr.path
            e1 = base.copy()
            fr.env, fr.path = e1, path0 + (self._pc(cond, True),)
            r1 = self.apply(fr, fa, list(args), list(kws), line)
            e1 = fr.env
            e2 = base.copy()
            fr.env, fr.path = e2, path0 + (self._pc(cond, False),)
            r2 = self.apply(fr, fb, list(args), list(kws), line)
            e2 = fr.env
            fr.path = path0
            merged = Env()
            for k in set(e1.vars) | set(e2.vars):
                a_, b_ = e1.vars.get(k), e2.vars.get(k)
                if a_ is None or b_ is None:
                    x_ = a_ if a_ is not None else b_
                    merged.vars[k] = mk("phi", cond, x_, mk("undef", k)) if a_ is not None else mk("phi", cond, mk("undef", k), x_)
                elif a_ is b_:
                    merged.vars[k] = a_
                else:
                    merged.vars[k] = mk("phi", cond, a_, b_)
            fr.env = merged
            return r1 if r1 is r2 else mk("phi", cond, r1, r2)
        if f.op == "closure" and self._depth < self.MAX_INLINE_DEPTH:
            r = self.inline_closure(fr, f, args, kws, line)
            if r is not None:
                return r
        if f.op == "fn" and self._depth < self.MAX_INLINE_DEPTH and (self.auto_inline_helpers or self.inline_policy is not None):
            base_fi = self.p.functions.get(f.args[0])
            if base_fi is not None and base_fi.is_dispatch_base and base_fi.cls is None:
                impls = [base_fi] + list(self.p.modules[base_fi.module].dispatch.get(base_fi.name, []))
                if len(impls) > 1 and not any(isinstance(a, T) and a.op in ("star", "dstar") for a in list(args) + list(kws)):
                    # functools.singledispatch: which implementation runs depends on the run-time type of the first
                    # argument; every implementation is evaluated in place and the result is the selection between them
                    res = []
                    for im in impls:
                        r_ = self.inline_function(fr, mk("fn", im.qualname), im, None, list(args), list(kws), line)
                        if r_ is None:
                            res = None
                            break
                        res.append(r_)
                    if res:
                        out = res[0]
                        for i_, r_ in enumerate(res[1:], 1):
                            out = mk("phi", mk("dispatch", f.args[0], impls[i_].qualname, args[0] if args else NONE), r_, out)
                        return out
        if kws and f.op in ("attr", "fn", "cls") and not any(
                isinstance(a, T) and a.op in ("star", "dstar") for a in list(args) + list(kws)):
            args, kws = self._keywords_to_positions(fr, f, list(args), list(kws))
        # functional array update  X.at[idx].set(v)  ==  X with slot idx replaced by v
        if f.op == "attr" and f.args[1] == "set" and len(args) == 1 and not kws:
            tgt = f.args[0]
            if tgt.op == "getitem" and tgt.args[0].op == "attr" and tgt.args[0].args[1] == "at":
                t = setitem(tgt.args[0].args[0], tgt.args[1], args[0])
                self.note_line(t, line)
                return t
        # X.at[idx].add(v) on a fresh zero array at distinct positions (a slice of an argsort / arange) is a set
        if f.op == "attr" and f.args[1] == "add" and len(args) == 1 and not kws:
            tgt = f.args[0]
            if tgt.op == "getitem" and tgt.args[0].op == "attr" and tgt.args[0].args[1] == "at":
                base_ = strip_wrappers(tgt.args[0].args[0])
                if base_.op == "call" and (array_fn(base_) or "") in ("zeros", "zeros_like") and any(
                        u.op == "call" and (array_fn(u) or "") in ("argsort", "arange") for u in subterms(tgt.args[1])):
                    t = setitem(tgt.args[0].args[0], tgt.args[1], args[0])
                    self.note_line(t, line)
                    return t
        if f.op == "cls":
            rec = self.make_record(fr, f, args, kws, line)
            if rec is not None:
                t0 = call(f, *args, *kws)
                self.note_line(t0, line)
                self.emit(fr, "call", line, t0)          # the constructor call is still a call site (arity rules)
                self.note_line(rec, line)
                return rec
        if (self.inline_policy is not None or self.auto_inline_helpers) and self._depth < self.MAX_INLINE_DEPTH \
                and f.op in ("attr", "fn"):
            cands = self.resolve_callees(f, fr)
            if cands and len(cands) == 1:
                callee, rc = cands[0]
                is_rec_method = callee.cls is not None and self.record_fields(callee.cls) is not None
                if not callee.qualname.endswith(">") and (
                        (self.inline_policy is not None and self.inline_policy(callee, rc, fr)) or
                        (self.auto_inline_helpers and (is_unnamed_helper(callee) or is_rec_method))):
                    r = self.inline_function(fr, f, callee, rc, args, kws, line)
                    if r is not None:
                        return r
        if f.op == "attr" and f.args[1] in ("items", "keys", "values") and not args and not kws and \
                f.args[0].op == "dict" and len(f.args[0].args) % 2 == 0 and not any(
                    x.op == "dstar" for x in f.args[0].args):
            d_ = f.args[0].args
            ks_, vs_ = d_[0::2], d_[1::2]
            if f.args[1] == "items":
                return mk("list", *[mk("tuple", k_, v_) for k_, v_ in zip(ks_, vs_)])
            return mk("list", *(ks_ if f.args[1] == "keys" else vs_))
        if f.op in ("itemgetter", "attrgetter") and len(args) == 1 and not kws and args[0].op not in ("star",):
            # itemgetter(k1, k2, ..)(obj) == (obj[k1], obj[k2], ..)   (a single key gives the bare item)
            if f.op == "itemgetter":
                vals = [getitem(args[0], k_) for k_ in f.args]
            else:
                vals = [self.attr(fr, args[0], k_.args[0]) for k_ in f.args]
            return vals[0] if len(vals) == 1 else mk("tuple", *vals)
        if f.op == "partial":
            F_, b_, k_ = f.args
            given = {k.args[0] for k in kws if isinstance(k, T) and k.op == "kw"}
            return self.apply(fr, F_, list(b_.args) + list(args),
                              [k for k in k_.args if not (k.op == "kw" and k.args[0] in given)] + list(kws), line)
        if f.op == "name":
            r_ = self._fold_stdlib(fr, f, args, kws, line)
            if r_ is not None:
                return r_
        if f.op == "name" and not kws and len(args) == 1 and isinstance(args[0], T):
            a0 = args[0]
            if f.args[0] == "builtins.len":
                ln_ = sequence_length(a0)
                if ln_ is not None:
                    return ln_
            if f.args[0] in ("builtins.tuple", "builtins.list") and a0.op in ("tuple", "list") and not any(
                    isinstance(x, T) and x.op == "star" for x in a0.args):
                return mk("tuple" if f.args[0].endswith("tuple") else "list", *a0.args)
            if f.args[0] in ("builtins.tuple", "builtins.list") and _comp_range(a0) is not None:
                return a0
            if f.args[0] == "builtins.list" and a0.op == "binop" and a0.args[0] == "*" and any(
                    isinstance(x, T) and x.op == "list" for x in a0.args[1:]):
                return a0                                              # list([x] * n) is [x] * n
        t = call(f, *args, *kws)
        self.note_line(t, line)
        if t.op != "call":
            # rewritten to a canonical non-call form (average -> sum / sum): the calls it consists of are the events
            for x in t.args:
                if isinstance(x, T) and x.op == "call":
                    self.emit(fr, "call", line, x)
            return t
        self._snapshot_closures(t, f, args)
        self.emit(fr, "call", line, t)
        if self.open_transforms and self._depth < self.MAX_INLINE_DEPTH:
            self._open_transform(fr, t, line)
        return t

    def call_binding(self, t: T, fr=None, cls: Optional[str] = None) -> Optional[Dict[str, T]]:
        """{parameter name: argument term} of a call of a package function / method, through the signature the callee
        resolves to (all candidates must agree).  `cls`: class to resolve self.<method> in when no frame is at hand.
        None: not a package callee, ambiguous, or the call does not bind."""
        from .model import bind_call
        if t.op != "call":
            return None
        f, pos, kws = call_parts(t)
        f = transparent(f)
        cands = None
        try:
            cands = self.resolve_callees(f, fr)
        except Exception:
            cands = None
        if not cands and cls is not None and f.op == "attr":
            fi = self.p.lookup_method(cls, f.args[1])
            cands = [(fi, cls)] if fi is not None else None
        if not cands:
            return None
        out = None
        for callee, _rc in cands:
            if callee is None:
                return None
            bound = bound_receiver(f, callee)
            ok, _, mp = bind_call(callee, len(pos), list(kws), bound)
            if not ok:
                return None
            b = {n_: (pos[m_[1]] if m_[0] == "pos" else kws[m_[1]]) for n_, m_ in mp.items()}
            if out is not None and {k: v.uid for k, v in out.items()} != {k: v.uid for k, v in b.items()}:
                return None
            out = b
        return out

    def _keywords_to_positions(self, fr, f: T, args: List[T], kws: List[T]):
        """f(a, y=b) -> f(a, b) when f resolves to package callee(s) with one positional signature: the call term
        (and with it every rule that reads call arguments) does not depend on how the caller spelled the binding.  Only
        the keywords that continue the positional prefix are moved; a keyword after a skipped defaulted parameter stays."""
        try:
            cands = self.resolve_callees(f, fr)
        except Exception:
            cands = None
        if not cands:
            return args, kws
        sigs = set()
        for callee, _rc in cands:
            if callee is None or any(q.kind in ("vararg", "kwarg") for q in callee.params):
                return args, kws
            pp = [q.name for q in callee.pos_params()]
            if pp and (bound_receiver(f, callee) or (f.op == "cls" and pp[0] == "self")):
                pp = pp[1:]
            sigs.add(tuple(pp))
        if len(sigs) != 1:
            return args, kws
        sig = next(iter(sigs))
        kwd = {k.args[0]: k.args[1] for k in kws if k.op == "kw"}
        if len(kwd) != len(kws):
            return args, kws
        i = len(args)
        while i < len(sig) and sig[i] in kwd:
            args.append(kwd.pop(sig[i]))
            i += 1
        return args, [k for k in kws if k.args[0] in kwd]

    _OPERATORS = {"add": "+", "sub": "-", "mul": "*", "truediv": "/", "floordiv": "//", "mod": "%", "pow": "**",
                  "matmul": "@", "and_": "&", "or_": "|", "xor": "^"}
    _CMP_OPERATORS = {"lt": "<", "le": "<=", "gt": ">", "ge": ">=", "eq": "==", "ne": "!="}

    def _fold_stdlib(self, fr, f: T, args: List[T], kws: List[T], line: int) -> Optional[T]:
        """Calls of standard-library utilities whose result is fixed by the source: operator.*, functools.partial /
        reduce, map / zip / enumerate / itertools.product / chain over sequences of known length, math.prod,
        jax.tree_util.tree_map over list displays, operator.itemgetter(...)(x).  None: not one of these / not foldable."""
        nm = f.args[0]
        kwd = {k.args[0]: k.args[1] for k in kws if isinstance(k, T) and k.op == "kw"}
        if nm == "builtins.zip" and len(args) == 1 and args[0].op == "star" and not kws:
            inner = args[0].args[0]
            rows = self.static_elements(inner)
            if rows is not None:
                cols = [self.static_elements(r_) for r_ in rows]
                if rows and all(c_ is not None for c_ in cols) and len({len(c_) for c_ in cols}) == 1:
                    return mk("list", *[mk("tuple", *[c_[j] for c_ in cols]) for j in range(len(cols[0]))])
                if rows:
                    return None
            if _comp_range(_peel_list(inner)) is not None:
                return mk("unzip", _peel_list(inner))
            return None
        if any(isinstance(a, T) and a.op in ("star", "dstar") for a in args + kws):
            return None
        if nm == "builtins.divmod" and len(args) == 2 and not kws:
            return mk("tuple", mk("binop", "//", args[0], args[1]), mk("binop", "%", args[0], args[1]))
        if nm in ("operator.itemgetter", "operator.attrgetter") and args and not kws and all(
                a.op == "const" for a in args):
            return mk(nm.split(".")[1], *args)
        if nm.startswith("operator."):
            op = nm.split(".", 1)[1]
            if op in self._OPERATORS and len(args) == 2 and not kws:
                return mk("binop", self._OPERATORS[op], args[0], args[1])
            if op in self._CMP_OPERATORS and len(args) == 2 and not kws:
                return mk("cmp", self._CMP_OPERATORS[op], args[0], args[1])
            if op == "neg" and len(args) == 1:
                return mk("unop", "-", args[0])
            if op == "getitem" and len(args) == 2:
                return getitem(args[0], args[1])
            return None
        if nm == "functools.partial" and args:
            return self._make_partial(fr, args[0], args[1:], kws, line)
        if nm == "jax.lax.map" and len(args) == 2 and not kws:
            # lax.map(f, xs) is the scan without a carry:  lax.scan(lambda c, x: (c, f(x)), None, xs)[1]
            body = self._synth_closure(fr, "lambda map_c__, map_x__: (map_c__, map_f__(map_x__))", {"map_f__": args[0]}, line, "<lax.map>")
            return getitem(self.apply(fr, name("jax.lax.scan"), [body, NONE, args[1]], [], line), const(1))
        if nm == "jax.lax.fori_loop" and len(args) == 4 and not kws:
            # fori_loop(lo, hi, body, init) is  lax.scan(lambda c, i: (body(i, c), None), init, arange(lo, hi))[0]
            body = self._synth_closure(fr, "lambda fori_c__, fori_i__: (fori_f__(fori_i__, fori_c__), None)", {"fori_f__": args[2]}, line,
                                       "<lax.fori_loop>")
            lo, hi = args[0], args[1]
            xs = call(name("jax.numpy.arange"), hi) if (lo.op == "const" and lo.args[0] == 0) else call(name("jax.numpy.arange"), lo, hi)
            return getitem(self.apply(fr, name("jax.lax.scan"), [body, args[3], xs], [], line), const(0))
        if nm == "functools.reduce" and len(args) in (2, 3) and not kws:
            els = self.static_elements(args[1])
            if els is None:
                return None
            acc = args[2] if len(args) == 3 else (els[0] if els else None)
            rest = els if len(args) == 3 else els[1:]
            if acc is None:
                return None
            for e in rest:
                acc = self.apply(fr, args[0], [acc, e], [], line)
            return acc
        if nm == "math.prod" and len(args) == 1 and not kws:
            els = self.static_elements(args[0])
            if els:
                acc = els[0]
                for e in els[1:]:
                    acc = mk("binop", "*", acc, e)
                return acc
            return None
        def zipped(seq_terms):
            """element tuples of zip(*seq_terms): the length is that of the shortest sequence whose length the source
            fixes; a sequence of unknown length (ham_data['rot_chol'], an [up, dn] pair by convention) contributes
            seq[i] -- it is assumed to be at least that long, which is what the indexed form it replaces assumed too"""
            seqs = [self.static_elements(a) for a in seq_terms]
            known = [q for q in seqs if q is not None]
            if not known:
                return None
            n = min(len(q) for q in known)
            return [[(q[i] if q is not None else getitem(a, const(i))) for q, a in zip(seqs, seq_terms)] for i in range(n)]
        if nm == "builtins.map" and len(args) >= 2 and not kws:
            rows = zipped(args[1:])
            if rows is None:
                # sequences of a length the source does not fix:  map(f, X, Y)  ==  [f(X[i], Y[i]) for i in range(len(X))]
                # (all of them are taken to be as long as the first -- the [up, dn] pairs this code maps over)
                X0 = _peel_list(args[1])
                ln_ = sequence_length(X0)
                rng = call(name("builtins.range"), ln_ if ln_ is not None else call(name("builtins.len"), X0))
                ix_ = mk("iter", rng, line)
                el_ = self.apply(fr, args[0], [getitem(_peel_list(a_), ix_) for a_ in args[1:]], [], line)
                return mk("comp", "list", mk("tuple", el_), mk("gen", rng))
            return mk("list", *[self.apply(fr, args[0], row, [], line) for row in rows])
        if nm == "builtins.zip" and args and not kws:
            rows = zipped(args)
            if rows is None:
                return None
            return mk("list", *[mk("tuple", *row) for row in rows])
        if nm == "builtins.enumerate" and len(args) == 1 and not kws:
            els = self.static_elements(args[0])
            if els is None:
                return None
            return mk("list", *[mk("tuple", const(i), e) for i, e in enumerate(els)])
        if nm == "itertools.product" and args:
            seqs = [self.static_elements(a) for a in args]
            rep = kwd.get("repeat")
            if any(q is None for q in seqs) or (rep is not None and not (rep.op == "const" and isinstance(rep.args[0], int))):
                return None
            if set(kwd) - {"repeat"}:
                return None
            seqs = seqs * (rep.args[0] if rep is not None else 1)
            import itertools as _it
            combos = list(_it.product(*seqs))
            if len(combos) > 64:
                return None
            return mk("list", *[mk("tuple", *c_) for c_ in combos])
        if nm == "itertools.repeat" and len(args) == 2 and not kws:
            return mk("binop", "*", mk("list", args[0]), args[1])      # repeat(x, n) holds what [x] * n holds
        if nm == "itertools.chain" and args and not kws:
            seqs = [self.static_elements(a) for a in args]
            if any(q is None for q in seqs):
                return None
            return mk("list", *[e for q in seqs for e in q])
        if nm in ("jax.tree_util.tree_map", "jax.tree_map", "jax.tree.map") and len(args) >= 2 and not kws:
            def children(t):
                """sub-trees of a pytree node whose structure the source fixes (a display, or a value whose layout is a
                tuple / list: a scan output, the result of an in-package function); None for a leaf / unknown"""
                if not isinstance(t, T):
                    return None
                if t.op in ("list", "tuple") and not any(x.op == "star" for x in t.args):
                    return t.op, list(t.args)
                if t.op in ("getitem", "call", "scan_x", "scan_carry", "vmap_elem"):
                    try:
                        lay = self.layout_of(t, fr)
                    except Exception:
                        lay = None
                    if lay is not None and lay[0] == "tup":
                        return "list", [getitem(t, const(i)) for i in range(len(lay[1]))]
                return None

            def tmap(trees):
                ch = [children(x) for x in trees]
                if ch[0] is not None and all(c_ is not None and len(c_[1]) == len(ch[0][1]) for c_ in ch):
                    kids = [tmap([c_[1][i] for c_ in ch]) for i in range(len(ch[0][1]))]
                    return None if any(k_ is None for k_ in kids) else mk(ch[0][0], *kids)
                if ch[0] is not None:
                    return None
                return self.apply(fr, args[0], list(trees), [], line)
            if children(args[1]) is not None:
                r_ = tmap(list(args[1:]))
                return r_
            return None
        return None

    def _synth_closure(self, fr, src: str, bindings: Dict[str, T], line: int, label: str) -> T:
        """a closure written as source text (a lambda) whose free names are bound to the given terms"""
        lam = ast.parse(src, mode="eval").body
        for n_ in ast.walk(lam):
            if hasattr(n_, "lineno"):
                n_.lineno = line
                n_.end_lineno = line
        sub = Frame(self, fr.fi, fr.mod, fr, fr.label + "." + label)
        sub.self_class = fr.self_class
        sub.path, sub.loops = fr.path, fr.loops
        sub.env.vars.update(bindings)
        return self.make_closure(sub, lam, label)

    def _make_partial(self, fr, F: T, bound: List[T], kws: List[T], line: int) -> Optional[T]:
        """functools.partial(F, b1, .., k=v)  ->  the closure  lambda p1, ..: F(b1, .., p1, .., k=v)  over the parameters F
        still lacks (read off F's signature), so that it is opened, matched and inlined like a hand-written wrapper"""
        F0 = transparent(F)
        kwd = {k.args[0]: k.args[1] for k in kws if k.op == "kw"}
        if len(kwd) != len(kws):
            return None
        names: Optional[List[str]] = None
        if F0.op == "closure":
            a = self.closures[F0.args[0]].node.args
            if a.vararg or a.kwarg:
                return None
            names = [p.arg for p in list(a.posonlyargs) + list(a.args)]
        elif F0.op in ("attr", "fn", "cls"):
            try:
                cands = self.resolve_callees(F0, fr)
            except Exception:
                cands = None
            if cands and len({c_[0].qualname for c_ in cands}) >= 1:
                sigs = set()
                for callee, _rc in cands:
                    if any(q.kind in ("vararg", "kwarg") for q in callee.params):
                        return None
                    pp = [q.name for q in callee.pos_params()]
                    if (bound_receiver(F0, callee) and pp) or (F0.op == "cls" and pp and pp[0] == "self"):
                        pp = pp[1:]
                    sigs.add(tuple(pp))
                if len(sigs) == 1:
                    names = list(next(iter(sigs)))
        elif F0.op == "name":
            # an external function (jnp.einsum, ...): the application appends the remaining arguments
            return mk("partial", F0, mk("tuple", *bound), mk("tuple", *kws))
        if names is None or len(bound) > len(names):
            return None
        rest = [n_ for n_ in names[len(bound):] if n_ not in kwd]
        sub = Frame(self, fr.fi, fr.mod, fr, fr.label + ".<partial>")
        sub.self_class = fr.self_class
        sub.path, sub.loops = fr.path, fr.loops
        sub.env.vars["__pf"] = F
        call_args = []
        for i, b in enumerate(bound):
            sub.env.vars[f"__pb{i}"] = b
            call_args.append(ast.Name(id=f"__pb{i}", ctx=ast.Load()))
        uniq = [f"{n_}" if not n_.startswith("__p") else f"q{n_}" for n_ in rest]
        for n_ in uniq:
            call_args.append(ast.Name(id=n_, ctx=ast.Load()))
        kw_nodes = []
        for k_, v_ in kwd.items():
            sub.env.vars[f"__pk_{k_}"] = v_
            kw_nodes.append(ast.keyword(arg=k_, value=ast.Name(id=f"__pk_{k_}", ctx=ast.Load())))
        lam = ast.Lambda(
            args=ast.arguments(posonlyargs=[], args=[ast.arg(arg=n_) for n_ in uniq], vararg=None, kwonlyargs=[],
                               kw_defaults=[], kwarg=None, defaults=[]),
            body=ast.Call(func=ast.Name(id="__pf", ctx=ast.Load()), args=call_args, keywords=kw_nodes))
        ast.fix_missing_locations(lam)
        for n_ in ast.walk(lam):
            if hasattr(n_, "lineno"):
                n_.lineno = line
                n_.end_lineno = line
        return self.make_closure(sub, lam, "<partial>")

    def _snapshot_closures(self, t: T, f: T, args: List[T]):
        """Closures are late-binding: a body handed to scan / vmap / jvp runs with the values its
        free variables have *at this call*.  Remember them so that rules re-opening the body later
        do not see subsequent rebinding of those variables."""
        if t.uid in self.call_env:
            return
        cands = [f] + list(args)
        clos = []
        for c in cands:
            c2 = transparent(c)
            if c2.op == "closure":
                clos.append(c2)
            elif c2.op == "call":
                for a in c2.args:
                    a2 = transparent(a) if isinstance(a, T) else None
                    if a2 is not None and a2.op == "closure":
                        clos.append(a2)
        if not clos:
            return
        snap = []
        seen = set()
        for c in clos:
            fr_ = self.closures[c.args[0]].frame
            while fr_ is not None and id(fr_) not in seen:
                seen.add(id(fr_))
                snap.append((fr_, dict(fr_.env.vars)))
                fr_ = fr_.parent
        self.call_env[t.uid] = snap

    open_transforms = False
    inline_policy = None  # callable(callee FuncInfo, receiver class, frame) -> bool
    # private helpers that no rule refers to by name (typically extracted by a refactoring) are evaluated in place:
    # a rule never has to know that a sub-expression has been given a function of its own
    auto_inline_helpers = True

    @staticmethod
    def _own_nodes(fn_node):
        """nodes of a function body that belong to the function itself (nested defs / lambdas / classes excluded)"""
        stack = list(ast.iter_child_nodes(fn_node))
        while stack:
            n_ = stack.pop()
            if isinstance(n_, (ast.FunctionDef, ast.AsyncFunctionDef, ast.Lambda, ast.ClassDef)):
                continue
            yield n_
            stack.extend(ast.iter_child_nodes(n_))

    def inline_function(self, fr: Frame, f: T, callee: FuncInfo, recv_cls: Optional[str],
                        args: List[T], kws: List[T], line: int) -> Optional[T]:
        """Evaluate an in-package callee in place with its parameters bound to the
        argument terms; returns the callee's result term."""
        from .model import bind_call

        if any(a.op in ("star", "dstar") for a in args + kws):
            return None
        kwd = {k.args[0]: k.args[1] for k in kws if k.op == "kw"}
        bound_self = bound_receiver(f, callee)
        ok, _, mapping = bind_call(callee, len(args), list(kwd), bound_self)
        if not ok:
            return None
        binding: Dict[str, T] = {}
        pp = callee.pos_params()
        if bound_self and pp:
            binding[pp[0].name] = f.args[0]
        for pname, m in mapping.items():
            binding[pname] = args[m[1]] if m[0] == "pos" else kwd[m[1]]
        va = [q for q in callee.params if q.kind == "vararg"]
        if va:
            # *rest receives the positional arguments beyond the named ones, as a tuple of known length
            n_named = len(pp) - (1 if bound_self and pp else 0)
            binding[va[0].name] = mk("tuple", *args[n_named:])
        if any(q.kind == "kwarg" for q in callee.params):
            return None
        sub = self.new_frame(callee, None, None)
        if bound_self:
            recv = f.args[0]
            if recv is sym("self") and fr.self_class:
                sub.self_class = fr.self_class
                sub.exact_self = self._frame_exact(fr)
            else:
                sub.self_class = recv_cls or self.static_type(recv, fr) or callee.cls
                sub.exact_self = recv in self.exact_types
        elif f.op == "attr" and f.args[0].op == "cls" and pp and pp[0].name == "self" and \
                binding.get("self") is sym("self") and fr.self_class:
            # Base.method(self, ...): the receiver is the caller's own object
            sub.self_class = fr.self_class
            sub.exact_self = self._frame_exact(fr)
        sub.caller = fr
        for prm in callee.params:
            if prm.name in binding:
                sub.env.vars[prm.name] = binding[prm.name]
            elif prm.default is not None:
                sub.env.vars[prm.name] = self.eval(sub, prm.default)
            else:
                sub.env.vars[prm.name] = sym(prm.name)
            t = sub.env.vars[prm.name]
            if prm.name == "self" and sub.self_class:
                sub.types[t] = sub.self_class
            else:
                c = self.static_type(t, fr) or self.p.annotation_class(sub.mod, prm.annotation)
                if c is not None:
                    sub.types[t] = c
        sub.path, sub.loops = fr.path, fr.loops
        is_gen = any(isinstance(n_, (ast.Yield, ast.YieldFrom)) for n_ in self._own_nodes(callee.node))
        if is_gen:
            if any(isinstance(n_, ast.YieldFrom) for n_ in self._own_nodes(callee.node)):
                return None
            sub.yields = []
        self._depth += 1
        self.emit(fr, "enter_call", line, (callee, tuple(binding.items())))
        try:
            self.exec_block(sub, callee.body())
        finally:
            self._depth -= 1
        if is_gen:
            # a generator evaluated in place: the sequence of values it yields, in source order (each yield site once;
            # sites inside the generator's own loops carry those loops' iteration terms).  A for statement over this
            # term runs its body once per site (st_For).
            g = mk("genseq", line, callee.qualname, *sub.yields)
            self.emit(fr, "exit_call", line, (callee, g))
            return g
        r = self.result(sub)
        # a subscript store through a parameter mutates the caller's object: every caller variable that holds the
        # object passed sees the stores (the callee may not hand the object back at all: key-advancing helpers)
        for prm in callee.params:
            if prm.name in sub.mutated and prm.name in binding:
                t0, t1 = binding[prm.name], sub.env.vars.get(prm.name)
                root = t1
                while isinstance(root, T) and root.op == "setitem":
                    root = root.args[0]
                if isinstance(t1, T) and t1 is not t0 and root is t0 and t0.op not in ("const",):
                    for nm_, val_ in list(fr.env.vars.items()):
                        if val_ is t0:
                            fr.env.vars[nm_] = t1
        self.emit(fr, "exit_call", line, (callee, r))
        fr.inlined.append((r, sub))
        # an exception raised inside a callee evaluated in place is an exit of the caller on that path
        fr.raises.extend(sub.raises)
        return r

    def leaves(self, fr: Frame) -> List[Tuple[tuple, str, T, int]]:
        """Exits of a function as (path conditions, 'return' | 'raise', term, line), with callees that were evaluated
        in place expanded: a return whose value is the (multi-exit) result of such a callee is split into one leaf per
        exit of the callee, so that moving branches into a helper does not change the set of leaves."""
        out: List[Tuple[tuple, str, T, int]] = []
        multi = [(r, sub) for r, sub in fr.inlined if len(sub.returns) > 1]

        def contradicts(p_a, p_b) -> bool:
            d = {}
            for c, pol in p_a:
                d[c] = pol
            return any(c in d and d[c] != pol for c, pol in p_b)

        def expand(path, term, line, depth=0):
            if depth > 6:
                out.append((tuple(path), "return", term, line))
                return
            if term.op in ("phi", "ifexp") and len(term.args) == 3 and all(isinstance(a_, T) for a_ in term.args) and \
                    term.args[0] not in {c for c, _ in path}:
                # `return a if c else b` is the two-exit form `if c: return a / else: return b`
                for pol in (True, False):
                    p2 = tuple(path) + ((term.args[0], pol),)
                    expand(p2, resolve_by_path(term, p2), line, depth + 1)
                return
            inl = [(r, sub) for r, sub in multi if any(x is r for x in subterms(term))]
            if not inl:
                out.append((tuple(path), "return", term, line))
                return
            # a branch that selects between helper results: one leaf per arm
            known = {c for c, _ in path}
            for x in subterms(term):
                if x.op == "phi" and x.args[0] not in known and not any(x is r for r, _ in inl) and any(
                        any(y is r for a_ in x.args[1:] if isinstance(a_, T) for y in subterms(a_)) for r, _ in inl):
                    for pol in (True, False):
                        p2 = tuple(path) + ((x.args[0], pol),)
                        expand(p2, resolve_by_path(term, p2), line, depth + 1)
                    return
            r, sub = inl[0]
            for p2, t2, l2 in sub.returns:
                if contradicts(path, p2):
                    continue
                ext = tuple(c for c in p2 if c not in path)
                full = tuple(path) + ext
                expand(full, resolve_by_path(substitute(term, {r: t2}), full), l2, depth + 1)

        for path, term, line in fr.returns:
            expand(tuple(path), term, line)
        for path, term, line in fr.raises:
            out.append((tuple(path), "raise", term, line))
        return out

    def _open_transform(self, fr: Frame, t: T, line: int):
        """Walk the bodies of closures handed to scan / vmap / jvp / vjp so that the
        calls inside them are seen (their events are emitted in place)."""
        sc = match_scan(t)
        if sc is not None:
            f, init, xs, length = sc
            if f.op == "closure":
                self.emit(fr, "scan_enter", line, t)
                r = self.inline_closure(fr, f, [mk("scan_carry", init, t.uid), mk("scan_x", xs, t.uid)],
                                        [], line)
                self.emit(fr, "scan_exit", line, (t, r))
            return
        vm = match_vmap(t)
        if vm is not None:
            f, in_axes, vargs = vm
            if f.op == "closure":
                axes = None
                if in_axes is not None and in_axes.op in ("tuple", "list"):
                    axes = list(in_axes.args)
                margs = []
                for i, a in enumerate(vargs):
                    mapped = True
                    if axes is not None and i < len(axes) and is_const(axes[i], None):
                        mapped = False
                    margs.append(mk("vmap_elem", a, t.uid) if mapped else a)
                self.emit(fr, "vmap_enter", line, t)
                r = self.inline_closure(fr, f, margs, [], line)
                self.emit(fr, "vmap_exit", line, (t, r))
            return
        fn = func_name(t)
        if fn in ("jax.jvp", "jax.vjp"):
            _, pos, kws = call_parts(t)
            if pos and transparent(pos[0]).op == "closure":
                f = transparent(pos[0])
                if fn == "jax.jvp" and len(pos) >= 2 and pos[1].op in ("tuple", "list"):
                    prim = list(pos[1].args)
                else:
                    prim = list(pos[1:])
                self.emit(fr, "ad_enter", line, t)
                r = self.inline_closure(fr, f, prim, [], line)
                self.emit(fr, "ad_exit", line, (t, r))

    def inline_closure(self, fr: Frame, f: T, args: List[T], kws: List[T], line: int) -> Optional[T]:
        clo = self.closures[f.args[0]]
        node = clo.node
        a = node.args
        params = [p.arg for p in list(a.posonlyargs) + list(a.args)]
        if a.vararg or a.kwarg or any(x.op in ("star", "dstar") for x in args + kws):
            return None
        binding: Dict[str, T] = {}
        if len(args) > len(params):
            return None
        for p, v in zip(params, args):
            binding[p] = v
        kwonly = [p.arg for p in a.kwonlyargs]
        for k in kws:
            if k.op == "kw":
                if k.args[0] not in params and k.args[0] not in kwonly:
                    return None
                binding[k.args[0]] = k.args[1]
        for p_, d_ in zip(a.kwonlyargs, a.kw_defaults):
            if p_.arg not in binding:
                if d_ is None:
                    return None
                binding[p_.arg] = self.eval(clo.frame, d_)
        defaults = list(a.defaults)
        for i, p in enumerate(params):
            if p not in binding:
                di = i - (len(params) - len(defaults))
                if di < 0:
                    return None
                binding[p] = self.eval(clo.frame, defaults[di])
        sub = Frame(self, clo.frame.fi, clo.frame.mod, clo.frame, f"{clo.frame.label}.{clo.name}")
        sub.self_class = clo.frame.self_class
        sub.path, sub.loops = fr.path, fr.loops
        sub.env.vars.update(binding)
        # a parameter annotated with a record class of the package: its fields are its positions
        if not isinstance(node, ast.Lambda):
            for p_ in list(a.posonlyargs) + list(a.args) + list(a.kwonlyargs):
                if p_.annotation is not None and p_.arg in binding:
                    c_ = self.p.annotation_class(clo.frame.mod, p_.annotation)
                    if c_ is not None and self.record_fields(c_) is not None and binding[p_.arg].op not in ("record",):
                        sub.types[binding[p_.arg]] = c_
        self._depth += 1
        self.emit(fr, "enter_closure", line, (clo.name, tuple(binding.items())))
        try:
            if isinstance(node, ast.Lambda):
                v = self.eval(sub, node.body)
                sub.returns.append((sub.path, v, node.lineno))
            else:
                self.exec_block(sub, node.body)
        finally:
            self._depth -= 1
        r = self.result(sub)
        self.emit(fr, "exit_closure", line, (clo.name, r))
        return r

    def open_closure(self, f: T, args: List[T], line: int = 0, fr: Optional[Frame] = None,
                     at_call: Optional[T] = None) -> T:
        """Evaluate closure f on given argument terms (used by rules to open scan / vmap bodies).
        `at_call`: the call term the closure was handed to; its free variables are then read as
        they were at that call."""
        clo = self.closures[f.args[0]]
        frame = fr or clo.frame
        snap = self.call_env.get(at_call.uid) if at_call is not None else None
        saved = []
        if snap:
            for fr_, vars_ in snap:
                saved.append((fr_, fr_.env))
                e2 = Env(vars_)
                fr_.env = e2
        n_events = len(self.events)
        try:
            r = self.inline_closure(frame, f, list(args), [], line or getattr(clo.node, "lineno", 0))
        finally:
            for fr_, env_ in saved:
                fr_.env = env_
        if r is None:
            raise AnalysisError(f"cannot open closure {clo.name} at line {line}")
        return r

    # ------------------------------------------------------ callee resolution
    def _frame_exact(self, fr: Optional[Frame]) -> bool:
        while fr is not None:
            if fr.exact_self:
                return True
            fr = fr.parent
        return False

    def static_type(self, t: T, fr: Optional[Frame] = None) -> Optional[str]:
        if t in self.exact_types:
            return self.exact_types[t]
        c = None
        f = fr
        seen_ = 0
        while f is not None and c is None and seen_ < 64:
            c = f.types.get(t)
            # lexically enclosing frame first; a function evaluated in place also sees what its call site knows about the
            # terms handed to it (a bound method passed as a value keeps the class of its receiver)
            f = f.parent if f.parent is not None else getattr(f, "caller", None)
            seen_ += 1
        if c is None:
            c = self.types.get(t)
        if c is None and t.op == "call" and t.args[0].op == "cls":
            return t.args[0].args[0]
        if c is None and t.op == "record":
            return t.args[0]
        return c

    def resolve_callees(self, f: T, fr: Optional[Frame] = None) -> Optional[List[Tuple[FuncInfo, Optional[str]]]]:
        """Possible in-package callees of function term f: list of (FuncInfo, receiver class).

        None when f is not an in-package callable (external / unknown)."""
        if f.op == "fn":
            fi = self.p.functions.get(f.args[0])
            return [(fi, None)] if fi else None
        if f.op == "cls":
            q = f.args[0]
            return [(self.p.init_signature(q), q)]
        if f.op == "attr":
            recv, meth = f.args
            if recv.op == "cls":
                # Class.method(...): a classmethod (cls bound to the class term) or a staticmethod
                fi = self.p.lookup_method(recv.args[0], meth)
                if fi is not None and (fi.is_classmethod or fi.is_staticmethod):
                    return [(fi, recv.args[0])]
                if fi is not None and fi.node is not None and not isinstance(fi.node, ast.Lambda):
                    # Base.method(self, ...): the instance method of that very class, the receiver passed explicitly
                    return [(fi, recv.args[0])]
                return None
            c = self.static_type(recv, fr)
            if c is None and recv.op in ("call", "getitem", "scan_carry", "scan_x", "vmap_elem"):
                lay_ = self.layout_of(recv, fr)
                if lay_ is not None and lay_[0] == "rec":
                    c = lay_[1]
            if c is None and recv.op == "call" and recv.args[0].op == "name" and \
                    recv.args[0].args[0] == "builtins.super" and fr is not None and fr.self_class:
                # super().m(...) -> next in MRO after the class that lexically owns the frame
                owner = fr.fi.cls if fr.fi is not None else None
                out = []
                for sc in self.p.subclasses(fr.self_class):
                    mro = self.p.classes[sc].mro
                    if owner in mro:
                        for c2 in mro[mro.index(owner) + 1:]:
                            cc = self.p.classes.get(c2)
                            if cc is not None and meth in cc.methods:
                                out.append((cc.methods[meth], sc))
                                break
                uniq = {}
                for fi, sc in out:
                    uniq.setdefault(fi.qualname, (fi, sc))
                return list(uniq.values())
            if c is None:
                return None
            out = []
            seen = set()
            cands = self.p.subclasses(c)
            if recv in self.exact_types:
                cands = [self.exact_types[recv]]
            elif recv is sym("self") and fr is not None and self._frame_exact(fr):
                cands = [c]
            elif recv is sym("self") and fr is not None and fr.fi is not None and fr.fi.cls:
                # `self` can only be an instance of a class for which the calling
                # method is the one its MRO resolves
                caller = fr.fi
                cname = caller.dispatch_of or caller.name
                keep = []
                for sc in cands:
                    m = self.p.lookup_method(sc, cname)
                    if m is None:
                        continue
                    if m is caller or (caller.dispatch_of and caller in self.p.lookup_dispatch(sc, cname)):
                        keep.append(sc)
                cands = keep or cands
            for sc in cands:
                fi = self.p.lookup_method(sc, meth)
                if fi is None:
                    continue
                if fi.is_dispatch_base:
                    for d in self.p.lookup_dispatch(sc, meth):
                        if d.qualname not in seen:
                            seen.add(d.qualname)
                            out.append((d, sc))
                    continue
                if fi.qualname not in seen:
                    seen.add(fi.qualname)
                    out.append((fi, sc))
            return out
        return None


_OPS = {
    ast.Add: "+", ast.Sub: "-", ast.Mult: "*", ast.Div: "/", ast.FloorDiv: "//",
    ast.Mod: "%", ast.Pow: "**", ast.MatMult: "@", ast.BitAnd: "&", ast.BitOr: "|",
    ast.BitXor: "^", ast.LShift: "<<", ast.RShift: ">>",
}
_UOPS = {ast.USub: "-", ast.UAdd: "+", ast.Not: "not", ast.Invert: "~"}
_CMP = {
    ast.Eq: "==", ast.NotEq: "!=", ast.Lt: "<", ast.LtE: "<=", ast.Gt: ">", ast.GtE: ">=",
    ast.Is: "is", ast.IsNot: "is not", ast.In: "in", ast.NotIn: "not in",
}


# --------------------------------------------------------------------------
# helpers used by several rules


def strip_wrappers(t: T) -> T:
    """Peel value-preserving wrappers: jnp.array(x), jnp.asarray(x), x.copy(),
    x.astype(..) is NOT peeled (changes precision but not meaning -> peeled too for pairing)."""
    while True:
        if t.op == "call":
            fn = array_fn(t)
            f, pos, kws = call_parts(t)
            if fn in ("array", "asarray") and len(pos) == 1:
                t = pos[0]
                continue
            if f.op == "attr" and f.args[1] in ("copy",) and not pos:
                t = f.args[0]
                continue
        return t


def bound_receiver(f: T, callee) -> bool:
    """does the call f(...) bind the callee's first parameter to the receiver?  obj.m(..) does (unless m is a
    staticmethod); Class.m(obj, ..) on an instance method passes the receiver as an ordinary first argument"""
    if f.op != "attr" or callee is None or callee.is_staticmethod:
        return False
    if f.args[0].op == "cls" and not callee.is_classmethod:
        return False
    return True


def transparent(f: T) -> T:
    """jit(f), checkpoint(f), partial(jit,...)(f) -> f."""
    while f.op == "call":
        fn = func_name(f)
        fx, pos, kws = call_parts(f)
        if fn in ("jax.jit", "jax.checkpoint", "jax.remat") and pos:
            f = pos[0]
            continue
        break
    return f


def match_scan(t: T):
    """lax.scan(f, init, xs, length=..) -> (f, init, xs, length) or None."""
    if t.op != "call" or func_name(t) != "jax.lax.scan":
        return None
    f, pos, kws = call_parts(t)
    fn = pos[0] if pos else kws.get("f")
    init = pos[1] if len(pos) > 1 else kws.get("init")
    xs = pos[2] if len(pos) > 2 else kws.get("xs", NONE)
    length = pos[3] if len(pos) > 3 else kws.get("length", NONE)
    if fn is None or init is None:
        return None
    return transparent(fn), init, xs, length


def match_vmap(t: T):
    """vmap(f, in_axes=..)(args..) -> (f, in_axes term or None, args)."""
    if t.op != "call":
        return None
    f, pos, kws = call_parts(t)
    if f.op != "call" or func_name(f) != "jax.vmap":
        return None
    _, fpos, fkws = call_parts(f)
    if not fpos:
        return None
    in_axes = fkws.get("in_axes")
    if in_axes is None and len(fpos) > 1:
        in_axes = fpos[1]
    return transparent(fpos[0]), in_axes, pos
