"""C15 -- covariance under orbital rotations: the congruence shape (last clause of the property)."""

from __future__ import annotations

from typing import Dict, List, Tuple

from ..model import AnalysisError
from ..rules.kinds import KindEngine
from ..rules.siblings import evaluate, trial_evaluator
from ..symex import (Evaluator, const, getitem, mk, show, strip_wrappers, subterms, sym)

ID = "C15"
EXPLANATION = (
    "KIND-2 (basis-tagged axis kinds). hamiltonian.rotate_orbs is typed with h1[s] : (O:old, O:old), "
    "chol.reshape(-1, norb, norb) : (G, O:old, O:old), mo_coeff : (O:old, O:new). Obligations: every "
    ".dot / einsum contraction pairs O:old with O:old; the stored results have kinds (O:new, O:new) per "
    "spin and (G, O:new, O:new) flattened to (G, F:new); slot s of h1 receives the rotated h1[s]; both "
    "spins and both Cholesky indices are rotated with the same matrix -- i.e. the routine is the "
    "congruence C^T X C. The same inference types the half-rotations that feed the measurements (rhf, "
    "uhf, ghf, noci builders: (E, O) x (O, O) and 'pi,gij->gpj'; the cisd / ucisd builders: "
    "'git,pt->gip' over the virtual slice and the full rotation 'pi,gij,jq->gpq' into the beta basis): a "
    "subscript that contracts an electron or new-basis axis against an old-basis orbital axis is a failed "
    "unification; a transposition that does not matter because the operand is symmetric is kind-correct "
    "and silent."
    ' KIND-2 positive witnesses: tril / triu of an array with orbital axes (selection by explicit orbital index is not covariant); a reshape that joins axes (O, S) into the 2*norb spin-orbital axis (interleaved instead of [up | dn] blocks); numpy dot with a rank-3 right operand is typed as left[:-1] + right[:-2] + right[-1:], not as a batched product. An array the interpreter cannot type is noted, not reported. '
    ' MUT-1: rotate_orbs does not overwrite the Hamiltonian it is handed (its stores act on the traced copy only while it is jit-decorated). '
)
NOT_DECIDED = "invariance of energies, force biases and overlaps under the rotation (numerical)."
TECHNIQUE = "static analysis: axis-kind (dimension-type) inference with basis tags over einsum / dot / reshape sites"

HD, WD, SELF = sym("ham_data"), sym("wave_data"), sym("self")


def _report(ctx, eng: KindEngine, fi, what: str, min_sites: int):
    if not eng.violations and eng.checked_sites < min_sites:
        # fewer contractions could be typed than on the reference tree (operations without a transfer function): what
        # could be typed unifies; the rest is not judged
        ctx.rep.note(f"{fi.qualname}: only {eng.checked_sites} contraction sites could be typed ({min_sites} on the reference "
                     f"tree); the untyped ones are not judged")
        ctx.rep.count("kind_sites_untyped")
        return
    ctx.ob("KIND-2", f"{fi.qualname}: contractions unify ({what})", not eng.violations and
           eng.checked_sites >= min_sites,
           "; ".join(f"{msg} at {show(t, maxdepth=2)[:60]}" for t, msg in eng.violations[:3]) or
           (f"{eng.checked_sites} contraction/store sites typed, {eng.typed} typed terms, {eng.top} unknown"
            if eng.checked_sites >= min_sites else
            f"only {eng.checked_sites} sites could be typed (expected >= {min_sites}): anchors changed"), fi)


def rotate_orbs(ctx):
    p = ctx.p
    fi = p.func("hamiltonian.hamiltonian.rotate_orbs")
    ev = Evaluator(p)
    fr = ev.eval_function(fi)
    R = ev.result(fr)
    norb = mk("attr", SELF, "norb")
    seeds = {
        sym("mo_coeff"): ("O:old", "O:new"),
        getitem(HD, const("h1")): ("S", "O:old", "O:old"),
        getitem(HD, const("chol")): ("G", "F:old"),
    }
    eng = KindEngine(ev, seeds, norb_terms=[norb])
    h1n = getitem(R, const("h1"))
    chn = getitem(R, const("chol"))
    for s in (0, 1):
        v = strip_wrappers(getitem(h1n, const(s)))
        k = eng.k(v)
        if k is None:
            # written with operations the axis-kind interpreter has no transfer function for: no kind, no claim
            ctx.rep.note(f"rotate_orbs: h1[{s}] = {show(v, maxdepth=3)[:80]} could not be typed; the basis-change rule does "
                         f"not apply to it")
            continue
        ctx.ob("KIND-2", f"rotate_orbs: h1[{s}] becomes C^T h1[{s}] C", k == ("O:new", "O:new") and any(
            x is getitem(getitem(HD, const("h1")), const(s)) for x in subterms(v)) and not any(
            x is getitem(getitem(HD, const("h1")), const(1 - s)) for x in subterms(v)),
            f"kind {k}; built from h1[{s}]" if k else f"cannot type {show(v, maxdepth=3)[:80]}", fi)
    kc = eng.k(chn)
    if kc is None:
        ctx.rep.note("rotate_orbs: the rotated Cholesky tensor could not be typed; the basis-change rule does not apply to it")
    else:
        ctx.ob("KIND-2", "rotate_orbs: every Cholesky matrix becomes C^T L C, flattened again", kc == ("G", "F:new"),
               f"kind {kc}", fi)
    _report(ctx, eng, fi, "old-basis axes contract only with old-basis axes", 5)
    # a congruence C^T X C, not a similarity C^-1 X C: the two coincide for orthogonal C only, and the index kinds cannot
    # tell an inverse from a transpose (both map the new basis to the old one)
    from ..symex import array_fn as _afn, call_parts as _cp
    inverses = [x for x in subterms(R) if x.op == "call" and (_afn(x) or "") in ("linalg.inv", "linalg.pinv", "linalg.solve",
                                                                                 "linalg.lstsq")
                and any(y is sym("mo_coeff") for a_ in _cp(x)[1] for y in subterms(a_))]
    ctx.ob("KIND-2", "rotate_orbs: the rotation matrix enters through C and C^T only (congruence, no inverse)", not inverses,
           f"{show(inverses[0], maxdepth=2)[:60]} is applied: C^-1 X C equals C^T X C for orthogonal C only" if inverses
           else "no inverse of mo_coeff", fi)
    # the caller rotates trial orbitals and walkers with the matrix it passes in: a factor of it (the Q of a QR, singular /
    # eigen vectors) spans the same space in another basis (column signs, order), so rotating the Hamiltonian with that
    # factor puts it in a different basis than everything else
    factors = [x for x in subterms(R) if x.op == "call" and (_afn(x) or "") in ("linalg.qr", "linalg.svd", "linalg.eigh",
                                                                                 "linalg.eig", "linalg.cholesky")
               and any(y is sym("mo_coeff") for a_ in _cp(x)[1] for y in subterms(a_))]
    if factors:
        ctx.ob("KIND-2", "rotate_orbs: the rotation applied is the matrix the caller passed", False,
               f"{show(factors[0], maxdepth=2)[:60]} replaces mo_coeff by one of its factors: C D with D != 1 in general, while "
               f"the caller keeps rotating orbitals and walkers with C", fi)
    # the unrotated Hamiltonian stays usable: energies in both bases are computed from the input and from the result.
    # Under jit the body's `ham_data[...] = ...` acts on the traced copy of the dictionary; run eagerly it overwrites the
    # caller's entries with the rotated ones
    from ..rules.pitfalls import param_mutations
    muts = [] if fi.is_jit else param_mutations(fi.node, methods=True)
    ctx.ob("MUT-1", "rotate_orbs: the Hamiltonian it is handed is not modified in place", not muts,
           "; ".join(f"line {ln}: {txt} overwrites the caller's '{prm}' (the function is not traced by jit)"
                     for ln, txt, prm in muts[:2]) or
           ("traced by jit: stores act on the traced copy" if fi.is_jit else "no store into a parameter"), fi)
    # one rotation matrix only
    mats = {x.uid for x in subterms(R) if x.op == "sym" and x.args[0] not in ("ham_data", "self")}
    ctx.ob("KIND-2", "rotate_orbs: a single rotation matrix is applied on both sides", mats == {sym("mo_coeff").uid},
           f"{len(mats)} matrix symbol(s)", fi)


def builders(ctx, only_auto: bool = False):
    p = ctx.p
    ev = trial_evaluator(p)
    norb = mk("attr", SELF, "norb")
    ne0 = getitem(mk("attr", SELF, "nelec"), const(0))
    ne1 = getitem(mk("attr", SELF, "nelec"), const(1))
    h1 = getitem(HD, const("h1"))
    chol = getitem(HD, const("chol"))
    mo = getitem(WD, const("mo_coeff"))

    def run_one(cls, meth, seeds, targets, nocc=None, min_sites=2):
        e = evaluate(p, ev, "wavefunctions." + cls, meth)
        eng = KindEngine(ev, seeds, norb_terms=[norb], nocc_terms=nocc or {})
        for label, term, want in targets(e):
            k = eng.k(strip_wrappers(term))
            if k is None:
                ctx.rep.note(f"{cls}.{meth}: {label} could not be typed (an operation without a transfer function); not judged")
                continue
            ctx.ob("KIND-2", f"{cls}.{meth}: {label} has kind {want}", k == want,
                   f"inferred {k}", e.fi)
        _report(ctx, eng, e.fi, "orbital axes contract with orbital axes", min_sites)

    base = {h1: ("S", "O", "O"), chol: ("G", "F")}
    run_one("wave_function_auto", "_build_measurement_intermediates", dict(base),
            lambda e: [("normal_ordering_term", getitem(e.result, const("normal_ordering_term")), ("O", "O"))], min_sites=1)
    if only_auto:
        return
    run_one("rhf", "_build_measurement_intermediates", {**base, mo: ("O", "E")},
            lambda e: [("rot_h1", getitem(e.result, const("rot_h1")), ("E", "O")),
                       ("rot_chol", getitem(e.result, const("rot_chol")), ("G", "E", "O"))])
    run_one("uhf", "_build_measurement_intermediates",
            {**base, getitem(mo, const(0)): ("O", "E:0"), getitem(mo, const(1)): ("O", "E:1")},
            lambda e: [(f"{k}[{s}]", getitem(getitem(e.result, const(k)), const(s)), w)
                       for k, ws in (("rot_h1", (("E:0", "O"), ("E:1", "O"))),
                                     ("rot_chol", (("G", "E:0", "O"), ("G", "E:1", "O"))))
                       for s, w in enumerate(ws)], min_sites=4)
    # the per-determinant NOCI helper: what each of its (private) parameters is is read off the call in
    # _build_measurement_intermediates -- a determinant block of spin s, the one-body integrals, the Cholesky vectors
    # (flat or already reshaped to matrices), or the ham_data dictionary itself
    from ..rules.trialsib import Sib
    from ..rules.common import m_method_reshape_of
    bnd = Sib(ctx).helper_call_binding("noci", "_rot_orbs_single_det", "_build_measurement_intermediates")
    dets = getitem(getitem(WD, const("ci_coeffs_dets")), const(1))
    nseeds = dict(base)
    known = bnd is not None
    def root(t):
        t = strip_wrappers(t)
        while t.op == "setitem":          # an entry (or the dictionary) updated in place before the call: same role
            t = strip_wrappers(t.args[0])
        return t
    for pname, actual in (bnd or {}).items():
        a0 = root(actual)
        if a0 is getitem(dets, const(0)):
            nseeds[sym(pname)] = ("O", "E:0")
        elif a0 is getitem(dets, const(1)):
            nseeds[sym(pname)] = ("O", "E:1")
        elif a0 is h1:
            nseeds[sym(pname)] = ("S", "O", "O")
        elif a0 is chol:
            nseeds[sym(pname)] = ("G", "F")
        elif m_method_reshape_of(a0, chol):
            nseeds[sym(pname)] = ("G", "O", "O")
        elif a0 is HD or a0 is WD:
            pass
        else:
            known = False
    if not known:
        ctx.rep.note("noci._rot_orbs_single_det: the roles of its parameters could not be read off its call site; "
                     "the index-kind rule does not apply to it")
    else:
        run_one("noci", "_rot_orbs_single_det", nseeds,
                lambda e: [(f"{k}[{s}]", getitem(getitem(e.result, const(i)), const(s)), w)
                           for i, (k, ws) in enumerate((("rot_h1", (("E:0", "O"), ("E:1", "O"))),
                                                        ("rot_chol", (("G", "E:0", "O"), ("G", "E:1", "O")))))
                           for s, w in enumerate(ws)], min_sites=4)
    run_one("ghf", "_build_measurement_intermediates", {**base, mo: ("SO", "ES")},
            lambda e: [("rot_h1", getitem(e.result, const("rot_h1")), ("ES", "SO")),
                       ("rot_chol", getitem(e.result, const("rot_chol")), ("G", "ES", "SO"))], min_sites=3)
    run_one("cisd", "_build_measurement_intermediates", {**base, getitem(WD, const("ci1")): ("Oo", "Ov")},
            lambda e: [("lci1", getitem(e.result, const("lci1")), ("G", "O", "Oo"))], nocc={ne0: 0}, min_sites=1)
    mob = getitem(mo, const(1))
    run_one("ucisd", "_build_measurement_intermediates",
            {**base, mob: ("O", "O:b"), getitem(WD, const("ci1A")): ("Oo", "Ov"),
             getitem(WD, const("ci1B")): ("Oo:b", "Ov:b")},
            lambda e: [("h1_b", getitem(e.result, const("h1_b")), ("O:b", "O:b")),
                       ("chol_b", getitem(e.result, const("chol_b")), ("G", "O:b", "O:b")),
                       ("lci1_a", getitem(e.result, const("lci1_a")), ("G", "O", "Oo"))],
            nocc={ne0: 0}, min_sites=3)


def run(ctx):
    rotate_orbs(ctx)
    builders(ctx)
