"""C05 -- free projection: exact norm bookkeeping (structural clauses)."""

from __future__ import annotations

import ast

from ..model import AnalysisError
from ..rules import common, guard as G, keys, qr, typestate as ts
from ..rules.match import m_binop, product_factors
from ..symex import (Evaluator, array_fn, call_parts, const, func_name, getitem, is_const, show,
                     strip_wrappers, subterms, sym)
from .c04 import input_ham_keys

ID = "C05"
EXPLANATION = (
    "TS-4 on the resolved propagate_free of every class that implements it: by reaching definitions the "
    "stored walkers are element 0 of one QR of the propagated, constant-scaled walkers; the accumulated "
    "norms are multiplied by both spin factors of that same QR; the stored overlap is "
    "calc_overlap(stored walkers) * stored norms, assigned after both. PAIR-3: qr_vmap(_uhf) return Q and "
    "prod(diag R) of one factorisation per spin. Who-may-call: on the path sampler.propagate_free -> "
    "_block_scan_free -> _step_scan_free -> propagate_free nothing reconfigures, re-orthonormalises "
    "without recording R, or writes walkers/norms outside the step. WMEAN-1: the free estimator is "
    "sum(E*O)/sum(O) and the block weight sum(O) for one overlap vector O. KEYS-1: mf_shifts_fp, "
    "h0_prop_fp, norms, normed_overlaps, ene0 are written before they are read. Per-spin constants "
    "multiply the matching spin block. The free-projection typestate (overlap == calc_overlap * norms) "
    "is proved inductively over the step and block scans. "
    "CAP-1 on _apply_trotprop_det as in C04. "
    "PAIR-1 (energy zero): on every path from the walkers stored by propagate_free down to "
    "ham_data['ene0'] the symbolic multipliers / divisors (per-sector electron counts) are those met on "
    "the way to ham_data['h0'] -- ene0 is scaled exactly like the constant it offsets. "
)
NOT_DECIDED = (
    "the field average, the O(dt^2) error, the Taylor remainder and the values of mf_shifts_fp / "
    "h0_prop_fp are numerical; no static claim."
)
TECHNIQUE = "static analysis: def-use pairing of QR outputs, typestate, who-may-call, key def-before-use"


def run(ctx):
    from ..rules import taylor
    taylor.check(ctx)
    p = ctx.p
    for q in ("linalg_utils.qr_vmap", "linalg_utils.qr_vmap_uhf"):
        qr.pair3(ctx, p.func(q))
    classes = []
    for P in p.subclasses("propagation.propagator"):
        if p.abstract_methods(P):
            continue
        step = p.lookup_method(P, "propagate_free")
        if step is None or step.is_refusal():
            continue
        classes.append((P, step))
    if not classes:
        raise AnalysisError("no class implements propagate_free")
    ka = keys.key_analysis(p)
    rep = ts.rep_change_functions(p)
    done_steps = set()
    for P, step in classes:
        if step.qualname not in done_steps:
            done_steps.add(step.qualname)
            norm_pairing(ctx, P, step)
        # KEYS-1
        reads = keys.reads_of(ka, P, ["propagate_free"], "ham_data")
        w = keys.writes_of(ka, P, "_build_propagation_intermediates", "ham_data")
        inputs = input_ham_keys(ctx)
        tk = keys.trial_built_keys(ka)
        missing = sorted(k for k in reads if k not in w and k not in inputs and k not in tk)
        ctx.ob("KEYS-1", f"{P}: ham_data keys read by propagate_free are built", not missing,
               f"read but never written: {missing}" if missing else f"reads {sorted(reads)}", step)
        preads = keys.reads_of(ka, P, ["propagate_free"], "prop_data")
        init = p.lookup_method(P, "init_prop_data")
        pw = ka.summary(init, P).returns.get(None, (None, frozenset()))[1]
        pmiss = sorted(k for k in preads if k not in pw and k != "key")
        ctx.ob("KEYS-1", f"{P}: prop_data keys read by propagate_free are initialised", not pmiss,
               f"missing {pmiss}" if pmiss else f"reads {sorted(preads)}", step)
        # typestate over the sampler path
        entry = p.func("sampling.sampler.propagate_free")
        run_ = ts.TSRun(p, entry, P, rep)
        res = ts.analyse_run(run_)
        bad = [(e.line, k) for e, k, ok, why in res.reads if not ok]
        ctx.ob("TS-4", f"sampler.propagate_free x {P}: stored overlap is calc_overlap(walkers)*norms at every read",
               not bad and bool(res.reads), f"stale reads at {bad}" if bad else f"{len(res.reads)} reads",
               entry)
        who_may_call(ctx, P, run_)
    estimator(ctx)
    builder_spin_pairing(ctx)
    energy_zero_scaling(ctx)


def norm_pairing(ctx, P, step):
    p = ctx.p
    run_ = G.StepRun(p, step, P)
    pd = run_.result
    q = step.qualname
    W = strip_wrappers(getitem(pd, const("walkers")))
    N = strip_wrappers(getitem(pd, const("norms")))
    O = strip_wrappers(getitem(pd, const("overlaps")))
    pd0 = sym("prop_data")
    ok, why = False, ""
    QR = None
    if W.op == "getitem" and is_const(W.args[1], 0) and W.args[0].op == "call" and \
            "qr_vmap" in (func_name(W.args[0]) or ""):
        QR = W.args[0]
        inp = strip_wrappers(call_parts(QR)[1][0])
        chain_ok = any(x.op == "call" and x.args[0].op == "attr" and x.args[0].args[1] == "_apply_trotprop"
                       for x in subterms(inp))
        ok = chain_ok
        why = "stored walkers = Q of qr(propagated walkers)" if ok else \
            "the QR input is not the output of the Trotter propagator"
    else:
        why = f"stored walkers are {show(W, maxdepth=2)[:80]}, not element 0 of a qr_vmap call"
    ctx.ob("TS-4", f"{q}: stored walkers are the Q factor of the propagated walkers", ok, why, step)
    if QR is None:
        return
    nf = getitem(QR, const(1))
    facs = [strip_wrappers(x) for x in product_factors(N)]
    old = getitem(pd0, const("norms"))
    have_old = any(x is old for x in facs)
    have0 = any(x is getitem(nf, const(0)) for x in facs)
    have1 = any(x is getitem(nf, const(1)) for x in facs)
    okn = have_old and have0 and have1 and len(facs) == 3
    ctx.ob("TS-4", f"{q}: norms accumulate both spin factors of the same QR", okn,
           "norms *= n[0] * n[1] of the factorisation whose Q is stored" if okn else
           f"norms = {show(N, maxdepth=3)[:120]} (old norms: {have_old}, spin-0 factor: {have0}, "
           f"spin-1 factor: {have1}, {len(facs)} factors)", step)
    # overlap
    oko, whyo = False, ""
    mo = m_binop(O, "*")
    if mo is not None:
        for a, b in ((mo[0], mo[1]), (mo[1], mo[0])):
            a, b = strip_wrappers(a), strip_wrappers(b)
            if a.op == "call" and a.args[0].op == "attr" and a.args[0].args[1] == "calc_overlap":
                wa = strip_wrappers(call_parts(a)[1][0])
                if wa is W and b is N:
                    oko = True
                elif wa is not W:
                    whyo = "overlap computed on walkers other than the stored ones"
                else:
                    whyo = "overlap multiplied by norms other than the stored (updated) ones"
    else:
        whyo = f"stored overlap is {show(O, maxdepth=2)[:80]}"
    ctx.ob("TS-4", f"{q}: stored overlap = calc_overlap(stored walkers) * stored norms", oko,
           whyo or "assigned after both updates", step)
    # per-spin constants
    mc = [x for x in subterms(call_parts(QR)[1][0]) if x.op == "call" and x.args[0].op == "attr"
          and x.args[0].args[1] == "_multiply_constant"]
    # ... or multiplied in place / by another helper: what matters is that the per-spin constants (built from
    # ham_data['h0_prop_fp']) flow into what is factorised
    qr_in = call_parts(QR)[1][0]
    flows = any(x.op == "getitem" and x.args[1].op == "const" and x.args[1].args[0] == "h0_prop_fp" for x in subterms(qr_in))
    ctx.ob("TS-4", f"{q}: walkers are scaled by the per-spin constants before the QR", len(mc) == 1 or (not mc and flows),
           f"{len(mc)} _multiply_constant call(s) feeding the QR" if mc or not flows else
           "the constants built from ham_data['h0_prop_fp'] flow into the factorised walkers", step)
    mcf = p.lookup_method(P, "_multiply_constant")
    roles = None
    if len(mc) == 1 and mcf is not None:
        # which parameter receives the walkers and which the constants is read off the call: the walkers are the
        # argument that comes out of the Trotter propagator (the helper's parameter order and names are its own business)
        from ..model import bind_call
        _, pos_, kws_ = call_parts(mc[0])
        ok_, _, mp_ = bind_call(mcf, len(pos_), list(kws_), True)
        if ok_:
            actual = {h_: (pos_[m_[1]] if m_[0] == "pos" else kws_[m_[1]]) for h_, m_ in mp_.items()}
            wn = [h_ for h_, a_ in actual.items() if any(
                x.op == "call" and x.args[0].op == "attr" and x.args[0].args[1] == "_apply_trotprop" for x in subterms(a_))]
            cn = [h_ for h_ in actual if h_ not in wn]
            if len(wn) == 1 and len(cn) == 1:
                roles = (wn[0], cn[0])
                _constants_shape(ctx, q, step, strip_wrappers(actual[cn[0]]))
        if roles is None:
            ctx.rep.note(f"{q}: the (walkers, constants) arguments of _multiply_constant were not identified; "
                         f"the constants-shape and spin-matching rules do not apply")
    if mcf is not None and roles is not None:
        ev = Evaluator(p)
        ev.inline_policy = lambda callee, rc, fr_: callee.cls is None and callee.module in ("linalg_utils", "propagation")
        fr = ev.eval_function(mcf, self_class=P)
        R = strip_wrappers(ev.result(fr))
        wpar, cpar = sym(roles[0]), sym(roles[1])
        good, crossed, unread = True, [], []
        from ..rules.match import strip_reshape
        for s in (0, 1):
            v = strip_wrappers(getitem(R, const(s)))
            m = m_binop(v, "*")
            this = False
            if m is not None:
                for a, b in ((m[0], m[1]), (m[1], m[0])):
                    if strip_reshape(a) is getitem(cpar, const(s)) and strip_wrappers(b) is getitem(wpar, const(s)):
                        this = True
                    elif strip_reshape(a) is getitem(cpar, const(1 - s)) and strip_wrappers(b) is getitem(wpar, const(s)):
                        crossed.append(s)
                    elif strip_reshape(a) is getitem(cpar, const(s)) and strip_wrappers(b) is getitem(wpar, const(1 - s)):
                        crossed.append(s)
            if not this and s not in crossed:
                unread.append(s)
            good = good and this
        if unread and not crossed:
            # the scaling is written in a form this rule does not read (a helper that is not evaluated in place, a
            # broadcast over a stacked array): no spin pairing identified, nothing judged
            ctx.rep.note(f"{mcf.qualname}: block(s) {unread} of its result are not a product constants[s] * walkers[s] this rule "
                         f"can read; the spin-matching rule does not apply")
        else:
            ctx.ob("PAIR-1", f"{mcf.qualname}: constants[s] multiplies walkers[s]", good,
                   "spin-matched scaling" if good else f"spin block(s) {crossed} scaled by / taken from the other spin", mcf)


def _constants_shape(ctx, q, step, cst):
    """constants = einsum('sw,s->sw', exp(-sqrt(dt)*einsum('wg,sg->sw', fields, mf_shifts_fp)),
                          exp(dt*h0_prop_fp))"""
    ok, why = False, "constants are not an einsum of the field phase with the per-spin constant"
    if not (cst.op == "call" and array_fn(cst) == "einsum"):
        # written with matmul / broadcasting instead of einsum: the subscript rule has nothing to read (the product
        # then has to broadcast to (spin, walker) or jax raises at trace time); recorded, no claim
        ctx.rep.note(f"{q}: per-walker constants are not built with einsum; the (spin, walker) subscript rule does not apply")
        return
    if cst.op == "call" and array_fn(cst) == "einsum":
        _, pos, _ = call_parts(cst)
        if len(pos) == 3 and pos[0].op == "const":
            sub = pos[0].args[0].replace(" ", "")
            ins, out = sub.split("->")
            a, b = ins.split(",")
            spin_letter = b if len(b) == 1 else None
            keys_b = {x.args[1].args[0] for x in subterms(pos[2]) if x.op == "getitem"
                      and x.args[1].op == "const" and isinstance(x.args[1].args[0], str)}
            inner = [x for x in subterms(pos[1]) if x.op == "call" and array_fn(x) == "einsum"]
            ok = (spin_letter is not None and out == a and out[0] == spin_letter
                  and "h0_prop_fp" in keys_b and len(inner) == 1)
            if ok:
                _, ip, _ = call_parts(inner[0])
                isub = ip[0].args[0].replace(" ", "")
                iin, iout = isub.split("->")
                ia, ib = iin.split(",")
                keys_ib = {x.args[1].args[0] for x in subterms(ip[2]) if x.op == "getitem"
                           and x.args[1].op == "const" and isinstance(x.args[1].args[0], str)}
                fields_first = ip[1] is sym("fields")
                ok = (fields_first and "mf_shifts_fp" in keys_ib and iout == out and
                      set(ia) & set(ib) == set(ia) - set(iout) and len(set(ia) & set(ib)) == 1
                      and ib[0] == spin_letter and ia[0] == out[1])
                why = f"'{isub}' then '{sub}'" if ok else \
                    f"einsum subscripts '{isub}' / '{sub}' do not keep (spin, walker) apart"
            else:
                why = f"einsum '{sub}' does not produce (spin, walker) constants from h0_prop_fp"
    ctx.ob("PAIR-1", f"{q}: constants are indexed (spin, walker)", ok, why, step)


def who_may_call(ctx, P, run_):
    p = ctx.p
    entry = "sampling.sampler.propagate_free"
    bad_calls = []
    bad_stores = []
    allowed_store_frames = ("propagate_free", "_orthogonalize_walkers")
    for e in run_.events:
        if e.kind == "enter_call":
            callee = e.data[0]
            if callee.name.startswith("stochastic_reconfiguration") or callee.name == "orthonormalize_walkers":
                bad_calls.append((e.line, callee.qualname))
        elif e.kind == "call":
            fn = func_name(e.data) or ""
            if fn.startswith("sr.") or fn.endswith("orthonormalize_walkers"):
                bad_calls.append((e.line, fn))
        elif e.kind == "store" and len(e.data[1]) >= 1 and e.data[1][0].op == "const" and \
                e.data[1][0].args[0] in ("walkers", "norms") and run_.root_of(e.data[5]) is not None:
            owner = e.frame.fi.name if e.frame.fi is not None else ""
            inside = False
            fr_ = e.frame
            hops = 0
            while fr_ is not None and hops < 12:      # helpers called from the step count as the step
                if fr_.fi is not None and fr_.fi.name in allowed_store_frames:
                    inside = True
                    break
                fr_ = getattr(fr_, "caller", None) or fr_.parent
                hops += 1
            if not inside:
                bad_stores.append((e.line, owner, e.data[1][0].args[0]))
    ctx.ob("TS-4", f"{entry} x {P}: no reconfiguration / R-discarding QR on the free path", not bad_calls,
           f"norm-dropping calls: {bad_calls}" if bad_calls else "none reachable", p.func(entry))
    ctx.ob("TS-4", f"{entry} x {P}: walkers and norms are written only inside the step", not bad_stores,
           f"stores outside propagate_free: {bad_stores}" if bad_stores else "none", p.func(entry))


def estimator(ctx):
    p = ctx.p
    fi = p.func("sampling.sampler._block_scan_free")
    ev = Evaluator(p)
    fr = ev.eval_function(fi)
    R = ev.result(fr)
    if R.op != "tuple" or R.args[1].op != "tuple" or len(R.args[1].args) != 3:
        ctx.ob("WMEAN-1", f"{fi.qualname}: returns (carry, (state, energy, weight))", False, "unmodelled", fi)
        return
    _, be, bw = R.args[1].args
    be, bw = ts.assume_loops_ran(be), ts.assume_loops_ran(bw)      # `if n_prop_steps > 0:` around the step loop
    wm = common.wmean(be)
    if wm is None:
        ctx.ob("WMEAN-1", f"{fi.qualname}: block energy is sum(E*O)/sum(O)", False,
               show(be, maxdepth=3)[:120], fi)
        return
    ok, msg, ns, d = wm
    pdl = d
    is_ov = d.op == "getitem" and d.args[1].op == "const" and d.args[1].args[0] == "overlaps"
    ctx.ob("WMEAN-1", f"{fi.qualname}: block energy is the overlap-weighted mean", ok and is_ov, msg, fi)
    from ..rules.match import m_arrcall
    s = m_arrcall(strip_wrappers(bw), "sum")
    ctx.ob("WMEAN-1", f"{fi.qualname}: block weight is the sum of the same overlaps",
           s is not None and strip_wrappers(s[0]) is d, f"block_weight = {show(bw, maxdepth=2)[:80]}", fi)
    facs = [strip_wrappers(x) for x in product_factors(ns) if strip_wrappers(x) is not d]
    e_ok = len(facs) == 1 and facs[0].op == "call" and facs[0].args[0].op == "attr" and \
        facs[0].args[0].args[1] == "calc_energy"
    if e_ok:
        wa = call_parts(facs[0])[1][0]
        e_ok = wa.op == "getitem" and wa.args[0] is d.args[0]
    ctx.ob("WMEAN-1", f"{fi.qualname}: energies are measured on the walkers whose overlaps weight them", e_ok,
           "calc_energy(walkers) of the same prop_data", fi)


def _scale_paths(root, leaf):
    """the sets of non-constant multipliers / divisors met on each path from root down to leaf (paths through the
    right operand of a division are ignored: the leaf would be a divisor itself)"""
    out = set()
    seen = set()

    def walk(t, acc):
        key_ = (t.uid, acc)
        if key_ in seen:
            return
        seen.add(key_)
        if t is leaf:
            out.add(acc)
            return
        if t.op == "binop" and t.args[0] == "/":
            d = strip_wrappers(t.args[2])
            walk(t.args[1], acc if d.op == "const" else acc | {("/", d.uid)})
            return
        if t.op == "binop" and t.args[0] == "*":
            a, b = t.args[1], t.args[2]
            sa, sb = strip_wrappers(a), strip_wrappers(b)
            walk(a, acc if sb.op == "const" else acc | {("*", sb.uid)})
            walk(b, acc if sa.op == "const" else acc | {("*", sa.uid)})
            return
        for a in t.args:
            if hasattr(a, "op"):
                walk(a, acc)

    walk(root, frozenset())
    return out


def energy_zero_scaling(ctx):
    """PAIR-1.  The free-projection step multiplies every column of spin sector s by exp(dt * c_s) with
    c_s = (h0_prop + ene0) / (2 n_s), so that the determinant picks up exp(dt * (h0_prop + ene0)) once.  The energy
    zero ene0 must therefore be scaled exactly like the constant -h0 it offsets: on every path from the stored
    walkers to ham_data['ene0'] the symbolic multipliers / divisors (the electron counts) are those met on the way
    to ham_data['h0']."""
    from ..symex import substitute, sym
    p = ctx.p
    HD = sym("ham_data")
    for P in p.subclasses("propagation.propagator"):
        if p.abstract_methods(P):
            continue
        step = p.lookup_method(P, "propagate_free")
        bld = p.lookup_method(P, "_build_propagation_intermediates")
        if step is None or step.is_refusal() or bld is None or P.split(".")[-1].startswith("propagator_cpmc"):
            continue
        ev = Evaluator(p)
        rb = ev.result(ev.eval_function(bld, self_class=P))
        ev2 = Evaluator(p)
        rs = ev2.result(ev2.eval_function(step, self_class=P))
        if rb is None or rs is None:
            continue
        w = getitem(rs, const("walkers"))
        mp = {}
        for k in ("h0_prop_fp", "h0_prop"):
            v = getitem(rb, const(k))
            if not (v.op == "getitem" and v.args[0] is rb):
                mp[getitem(HD, const(k))] = v
        w2 = substitute(w, mp)
        w2 = substitute(w2, mp)          # h0_prop inside h0_prop_fp
        e0, h0 = getitem(HD, const("ene0")), getitem(HD, const("h0"))
        pe, ph = _scale_paths(w2, e0), _scale_paths(w2, h0)
        if not pe or not ph:
            ctx.rep.note(f"{P}.propagate_free: ene0 / h0 do not both reach the stored walkers "
                         f"({len(pe)} / {len(ph)} paths); energy-zero scaling rule not applicable")
            continue
        ctx.ob("PAIR-1", f"{P}.propagate_free: ene0 is scaled like the constant h0 it offsets (per-electron, per-sector)",
               pe == ph, f"{len(pe)} scaling path(s) to ene0, {len(ph)} to h0" + ("" if pe == ph else
                                                                                 ": ene0 and h0 are divided by different factors"),
               step)


def builder_spin_pairing(ctx):
    """mf_shifts_fp / h0_prop_fp: entry s of the unrestricted builder divides by nelec[s]."""
    p = ctx.p
    fi = p.func("propagation.propagator_unrestricted._build_propagation_intermediates")
    ev = Evaluator(p)
    fr = ev.eval_function(fi)
    R = ev.result(fr)
    for key in ("mf_shifts_fp", "h0_prop_fp"):
        v = strip_wrappers(getitem(R, const(key)))
        okk, why = False, f"{key} is not a stack of two per-spin entries"
        if v.op == "call" and array_fn(v) in ("stack", "array"):
            inner = strip_wrappers(call_parts(v)[1][0])
            if inner.op in ("tuple", "list") and len(inner.args) == 2:
                okk = True
                for s, el in enumerate(inner.args):
                    ne = [x for x in subterms(el) if x.op == "getitem" and x.args[0].op == "attr"
                          and x.args[0].args[1] == "nelec"]
                    idx = {x.args[1].args[0] for x in ne if x.args[1].op == "const"}
                    if idx != {s}:
                        okk = False
                        why = f"entry {s} of {key} is normalised by nelec{sorted(idx)}"
                if okk:
                    why = "entry s normalised by nelec[s]"
                    a, b = inner.args
                    # the two entries must otherwise be the same expression
                    from ..symex import substitute
        ctx.ob("PAIR-1", f"{fi.qualname}: {key}[s] is normalised by nelec[s]", okk, why, fi)
