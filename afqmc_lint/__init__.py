"""afqmc_lint -- repository-specific static analysis for ankit76/ad_afqmc.

Pure standard library (ast).  Nothing under /repo is imported or executed.
See /verif/DESIGN.md.
"""

__all__ = ["model", "symex", "report"]
