"""BIND-1..5 -- type-resolved call and transform binding.

The whole package is walked once per run (every function, every method under
its declaring class, the module body of mpi_jax).  Each property keeps the
obligations whose call site lies in the modules it is anchored in.
"""

from __future__ import annotations

import ast
from typing import Dict, Iterable, List, Optional, Set, Tuple

from ..model import AnalysisError, FuncInfo, Param, Program, bind_call, dotted
from ..symex import bound_receiver as _bound_receiver
from ..symex import (T, Evaluator, Event, Frame, call_parts, func_name, is_const, match_scan,
                     match_vmap, mk, show, sym, transparent)

NON_STATIC_ANNOTATIONS = {
    "dict", "Dict", "jax.Array", "jnp.array", "jnp.ndarray", "np.ndarray", "Sequence", "List",
    "list", "Tuple", "tuple",
}


class PackageWalk:
    """All call events of the package, evaluated once."""

    def __init__(self, p: Program):
        self.p = p
        self.ev = Evaluator(p)
        self.ev.open_transforms = True
        self.sites: List[Tuple[Event, Optional[FuncInfo]]] = []
        self.frames: Dict[str, Frame] = {}
        self.errors: List[str] = []
        self.param_annotation: Dict[Tuple[str, str], str] = {}
        for fi in list(p.functions.values()):
            if fi.is_abstract:
                continue
            start = len(self.ev.events)
            try:
                fr = self.ev.eval_function(fi)
            except RecursionError:
                self.errors.append(f"recursion while evaluating {fi.qualname}")
                continue
            self.frames[fi.qualname] = fr
            for e in self.ev.events[start:]:
                if e.kind == "call":
                    self.sites.append((e, fi))
        # module bodies (script code such as mpi_jax's __main__ block)
        for mod in p.modules.values():
            fr = Frame(self.ev, None, mod, None, f"{mod.name}.<module>")
            start = len(self.ev.events)
            body = [s for s in mod.tree.body
                    if not isinstance(s, (ast.FunctionDef, ast.ClassDef, ast.Import, ast.ImportFrom))]
            self.ev.exec_block(fr, body)
            self.frames[f"{mod.name}.<module>"] = fr
            for e in self.ev.events[start:]:
                if e.kind == "call":
                    self.sites.append((e, None))

    def module_of(self, e: Event) -> str:
        return e.frame.mod.name


_walk_cache: Dict[int, PackageWalk] = {}


def package_walk(p: Program) -> PackageWalk:
    w = _walk_cache.get(id(p))
    if w is None:
        w = PackageWalk(p)
        _walk_cache.clear()
        _walk_cache[id(p)] = w
    return w


def _site_label(e: Event, fi: Optional[FuncInfo]) -> str:
    return fi.qualname if fi is not None else e.frame.label


def _callee_label(f: T) -> str:
    if f.op == "attr":
        return f"{show(f.args[0], maxdepth=2)}.{f.args[1]}"
    return show(f, maxdepth=2)


def _dispatch_filter(cands, pos: List[T]):
    """singledispatch: a list literal as first argument selects the `list` implementation."""
    if not cands or not pos:
        return cands
    if all(fi.dispatch_of for fi, _ in cands):
        first = pos[0]
        if first.op == "list":
            sel = [(fi, c) for fi, c in cands if fi.dispatch_type == "list"]
            return sel or cands
    return cands


def bind1(ctx, modules: Iterable[str], rule: str = "BIND-1") -> int:
    """Every in-package call from `modules` binds against every possible callee."""
    w = package_walk(ctx.p)
    mods = set(modules)
    n = 0
    resolved = external = 0
    seen = set()
    for e, fi in w.sites:
        if w.module_of(e) not in mods:
            continue
        t: T = e.data
        f, pos, kws = call_parts(t)
        cands = w.ev.resolve_callees(f, e.frame)
        if cands is None:
            external += 1
            continue
        resolved += 1
        has_star = any(a.op == "star" for a in pos)
        has_dstar = any(a.op == "dstar" for a in t.args[1:])
        cands = _dispatch_filter(cands, pos)
        if not cands and f.op == "attr" and f.args[1] in ("_replace", "_asdict", "_make", "count", "index"):
            # members every typing.NamedTuple / collections.namedtuple class gets from the factory, not from its body
            rc_ = w.ev.static_type(f.args[0], e.frame) if hasattr(w.ev, "static_type") else None
            lay_ = w.ev.layout_of(f.args[0], e.frame) if rc_ is None and hasattr(w.ev, "layout_of") else None
            if rc_ is None and lay_ is not None and lay_[0] == "rec":
                rc_ = lay_[1]
            ci_ = ctx.p.classes.get(rc_) if rc_ else None
            if ci_ is not None and ci_.is_namedtuple:
                external += 1
                continue
        if not cands and f.op == "attr":
            key = (rule, _site_label(e, fi), _callee_label(f), "missing")
            if key in seen:
                continue
            seen.add(key)
            ctx.ob(rule, f"{_site_label(e, fi)}: call {_callee_label(f)}(...)", False,
                   f"no class that can reach this receiver defines '{f.args[1]}' (AttributeError)",
                   fi, e.line, mod=w.module_of(e))
            n += 1
            continue
        for callee, recv_cls in cands:
            bound_self = (f.op == "cls" and not callee.is_staticmethod) or _bound_receiver(f, callee)
            ok, msg, mapping = bind_call(callee, len([a for a in pos if a.op != "star"]),
                                         list(kws.keys()), bound_self, has_star, has_dstar)
            key = (rule, _site_label(e, fi), _callee_label(f), callee.qualname, ok, msg)
            if key in seen:
                continue
            seen.add(key)
            n += 1
            ctx.ob(rule, f"{_site_label(e, fi)}: call {_callee_label(f)}(...) -> {callee.qualname}",
                   ok, msg or "binds", fi, e.line, mod=w.module_of(e))
            if ok and callee.is_jit and callee.static_argnums:
                _static_args_at_site(ctx, w, e, fi, f, callee, pos, kws, bound_self, mapping)
    # every global name used in these modules resolves (import, module-level binding, builtin)
    unknown = sorted({(path, nm, line) for path, nm, line in w.ev.unknown_names
                      if path.split("/")[-1][:-3] in mods})
    for path, nm, line in unknown:
        ctx.rep.ob(rule, f"{path}: global name '{nm}' resolves", False,
                   f"'{nm}' is neither imported, defined at module level nor a builtin (NameError when reached)",
                   path, line)
        n += 1
    ctx.rep.count("call_sites_resolved", resolved)
    ctx.rep.count("call_sites_external", external)
    if w.errors:
        raise AnalysisError("; ".join(w.errors))
    return n


def _term_is_data(w: PackageWalk, t: T, fi: Optional[FuncInfo]) -> Optional[str]:
    """Is this argument term certainly a dict / array (not hashable)?"""
    if t.op in ("dict", "setitem", "list"):
        return t.op
    if t.op == "sym" and fi is not None:
        for p_ in fi.params:
            if p_.name == t.args[0] and p_.annotation is not None:
                a = ast.unparse(p_.annotation)
                if a in NON_STATIC_ANNOTATIONS:
                    return f"parameter annotated {a}"
    return None


def _static_args_at_site(ctx, w, e, fi, f, callee: FuncInfo, pos, kws, bound_self, mapping):
    pp = callee.pos_params()
    for idx in callee.static_argnums:
        if idx >= len(pp):
            continue
        pname = pp[idx].name
        if pname in ("self", "cls"):
            continue
        m = mapping.get(pname)
        if m is None:
            continue
        arg = pos[m[1]] if m[0] == "pos" else kws.get(m[1])
        if arg is None:
            continue
        why = _term_is_data(w, arg, fi)
        ctx.ob("BIND-2", f"{_site_label(e, fi)}: static argument '{pname}' of {callee.qualname}",
               why is None,
               (f"static (hashed) position receives {show(arg, maxdepth=2)} ({why}): "
                f"ValueError: Non-hashable static arguments") if why else "hashable handler",
               fi, e.line, mod=w.module_of(e))


def bind2_decorators(ctx, modules: Iterable[str]) -> int:
    """static_argnums of every jitted function: in range, handler parameters static,
    no dict/array parameter static."""
    p = ctx.p
    mods = set(modules)
    n = 0
    for fi in p.functions.values():
        if fi.module not in mods or not fi.is_jit:
            continue
        pp = fi.pos_params()
        if getattr(fi, "static_unknown", False):
            ctx.rep.note(f"{fi.qualname}: the static arguments of its jit decorator are computed at import time; the "
                         f"static-argument rule is not applied")
            continue
        st = set(fi.static_argnums or ())
        mod = p.modules[fi.module]
        problems = []
        for i in st:
            if i < 0 or i >= len(pp):
                problems.append(f"static position {i} out of range (function has {len(pp)} parameters)")
        for i, prm in enumerate(pp):
            ac = p.annotation_class(mod, prm.annotation)
            if ac is not None and getattr(p.classes.get(ac), "is_namedtuple", False):
                ac = None       # a NamedTuple of arrays is a pytree of data, traced like any other array argument
            handler = (prm.name == "self" and fi.cls is not None) or ac is not None
            if handler and i not in st:
                problems.append(f"handler parameter '{prm.name}' (position {i}) is not static")
            if i in st and prm.annotation is not None and \
                    ast.unparse(prm.annotation) in NON_STATIC_ANNOTATIONS:
                problems.append(f"static position {i} is parameter '{prm.name}' annotated "
                                f"{ast.unparse(prm.annotation)} (unhashable)")
            if i in st and prm.name != "self" and not handler:
                # used as a dict/array in the body?
                used_as_data = False
                for nd in ast.walk(fi.node):
                    if isinstance(nd, ast.Subscript) and isinstance(nd.value, ast.Name) and \
                            nd.value.id == prm.name and isinstance(nd.slice, ast.Constant) and \
                            isinstance(nd.slice.value, str):
                        used_as_data = True
                if used_as_data:
                    problems.append(f"static position {i} is parameter '{prm.name}' which the body "
                                    f"subscripts with string keys (a dict)")
        n += 1
        ctx.ob("BIND-2", f"{fi.qualname}: jit static_argnums", not problems,
               "; ".join(problems) or f"static {sorted(st)}", fi)
    return n


def bind2_transforms(ctx, modules: Iterable[str]) -> int:
    """vmap in_axes arity, scan body shape, jvp/vjp primal counts."""
    w = package_walk(ctx.p)
    mods = set(modules)
    n = 0
    seen = set()
    for e, fi in w.sites:
        if w.module_of(e) not in mods:
            continue
        t: T = e.data
        lab = _site_label(e, fi)
        vm = match_vmap(t)
        if vm is not None:
            f, in_axes, vargs = vm
            key = ("vmap", lab, e.line, t.uid)
            if key in seen:
                continue
            seen.add(key)
            problems = []
            if in_axes is not None and in_axes.op in ("tuple", "list"):
                if len(in_axes.args) != len(vargs):
                    problems.append(f"in_axes has {len(in_axes.args)} entries for {len(vargs)} argument(s)")
                def axis_ok(a):
                    # an int / None, or the same per leaf of a pytree argument: ((0, 0), None)
                    if a.op == "const":
                        return a.args[0] is None or isinstance(a.args[0], int)
                    return a.op in ("tuple", "list") and all(axis_ok(x) for x in a.args)
                for a in in_axes.args:
                    if not axis_ok(a):
                        problems.append(f"unmodelled in_axes entry {show(a)}")
            arity = None
            cands = w.ev.resolve_callees(f, e.frame) if f.op != "closure" else None
            if f.op == "closure":
                clo = w.ev.closures[f.args[0]]
                a = clo.node.args
                arity = (len(a.posonlyargs) + len(a.args) - len(a.defaults),
                         len(a.posonlyargs) + len(a.args))
                if not (arity[0] <= len(vargs) <= arity[1]):
                    problems.append(f"mapped closure takes {arity} arguments, called with {len(vargs)}")
            elif cands:
                for callee, rc in cands:
                    ok, msg, _ = bind_call(callee, len(vargs), [], f.op in ("attr", "cls"))
                    if not ok:
                        problems.append(f"{callee.qualname}: {msg}")
            n += 1
            ctx.ob("BIND-2", f"{lab}: vmap({_callee_label(f)}) arity", not problems,
                   "; ".join(problems) or f"{len(vargs)} mapped/broadcast arguments bind", fi, e.line,
                   mod=w.module_of(e))
            continue
        sc = match_scan(t)
        if sc is not None:
            f, init, xs, length = sc
            key = ("scan", lab, e.line, t.uid)
            if key in seen:
                continue
            seen.add(key)
            problems = []
            if f.op == "closure":
                clo = w.ev.closures[f.args[0]]
                a = clo.node.args
                npar = len(a.posonlyargs) + len(a.args)
                nreq = npar - len(a.defaults)         # parameters bound by a default (h1=h1) are not scan arguments
                if not (nreq <= 2 <= npar):
                    problems.append(f"scan body takes {npar} parameters (needs carry, x)")
                if isinstance(clo.node, ast.FunctionDef):
                    from ..model import returned_values
                    for _, rv in returned_values(clo.node):
                        if not (isinstance(rv, ast.Tuple) and len(rv.elts) == 2) and not isinstance(rv, ast.Call):
                            problems.append("scan body does not return a (carry, y) pair")
                elif isinstance(clo.node, ast.Lambda):
                    b = clo.node.body
                    if isinstance(b, ast.Tuple) and len(b.elts) != 2:
                        problems.append("scan body lambda does not return a pair")
            if is_const(xs, None) and is_const(length, None):
                problems.append("scan has neither xs nor length")
            n += 1
            ctx.ob("BIND-2", f"{lab}: lax.scan body shape", not problems,
                   "; ".join(problems) or "body(carry, x) -> (carry, y)", fi, e.line,
                   mod=w.module_of(e))
            continue
        fn = func_name(t)
        if fn in ("jax.jvp", "jax.vjp"):
            _, pos, kws = call_parts(t)
            if not pos:
                continue
            f = transparent(pos[0])
            problems = []
            if fn == "jax.jvp":
                prim = pos[1] if len(pos) > 1 else None
                tang = pos[2] if len(pos) > 2 else None
                if prim is None or tang is None or prim.op not in ("tuple", "list") or \
                        tang.op not in ("tuple", "list"):
                    problems.append("unmodelled primals/tangents containers")
                    nprim = None
                else:
                    nprim = len(prim.args)
                    if len(tang.args) != nprim:
                        problems.append(f"{nprim} primals but {len(tang.args)} tangents")
            else:
                nprim = len(pos) - 1
            if nprim is not None:
                if f.op == "closure":
                    a = w.ev.closures[f.args[0]].node.args
                    npar = len(a.posonlyargs) + len(a.args)
                    if not (npar - len(a.defaults) <= nprim <= npar):
                        problems.append(f"differentiated closure takes {npar} parameters, {nprim} primals given")
                else:
                    cands = w.ev.resolve_callees(f, e.frame)
                    for callee, rc in cands or []:
                        ok, msg, _ = bind_call(callee, nprim, [], f.op in ("attr", "cls"))
                        if not ok:
                            problems.append(f"{callee.qualname}: {msg}")
            n += 1
            ctx.ob("BIND-2", f"{lab}: {fn.split('.')[-1]}({_callee_label(f)}) primal count", not problems,
                   "; ".join(problems) or f"{nprim} primals bind", fi, e.line, mod=w.module_of(e))
    return n


def bind3(ctx, root: str, methods: Iterable[str]) -> Dict[str, Dict[str, str]]:
    """Interface completeness for every concrete subclass of `root`: each of `methods`
    resolves to a real body or to an explicit NotImplementedError refusal.
    Returns {class: {method: 'real'|'refusal'}}."""
    p = ctx.p
    table: Dict[str, Dict[str, str]] = {}
    for q in p.subclasses(root):
        missing = p.abstract_methods(q)
        ci = p.classes[q]
        if missing and any(p.classes[s].mro and s != q for s in p.subclasses(q, False)):
            # abstract intermediate class with concrete subclasses: skip
            continue
        if missing:
            # is it ever meant to be instantiated? only if it has no subclasses
            if p.subclasses(q, False):
                continue
        table[q] = {}
        for m in methods:
            fi = p.lookup_method(q, m)
            if fi is None:
                ctx.ob("BIND-3", f"{q}: method {m}", False,
                       f"'{m}' is not defined anywhere along the MRO (AttributeError)",
                       mod=ci.module, line=ci.lineno)
                continue
            kind = "refusal" if fi.is_refusal() else "real"
            if fi.is_abstract or (fi.is_empty() and not fi.is_refusal()):
                ctx.ob("BIND-3", f"{q}: method {m}", False,
                       f"resolves to {fi.qualname}, an abstract/empty body that returns None",
                       fi)
                continue
            table[q][m] = kind
            ctx.ob("BIND-3", f"{q}: method {m}", True,
                   f"{kind}: {fi.qualname}", fi, nontrivial=(kind == "real"))
        ctx.ob("BIND-3", f"{q}: abstract methods implemented", not missing,
               f"unimplemented: {missing}" if missing else "complete", mod=ci.module, line=ci.lineno,
               nontrivial=False)
    return table


def bind4(ctx, roots: Iterable[str]) -> int:
    """Every class that can land in a static (hashed) jit position is hashable."""
    p = ctx.p
    n = 0
    for root in roots:
        for q in p.subclasses(root):
            ci = p.classes[q]
            ok, why = p.has_hash(q)
            concrete = not p.abstract_methods(q)
            instantiable = concrete
            # wave_function_auto is a dataclass without __hash__; only its subclasses are
            # instantiated (table entry, DESIGN 6)
            if not ok and p.subclasses(q, False) and not _constructed_anywhere(p, q):
                ctx.rep.note(f"{q} is unhashable ({why}) but never constructed; subclasses define __hash__")
                continue
            n += 1
            ctx.ob("BIND-4", f"{q}: hashable for jit static positions", ok, why, mod=ci.module,
                   line=ci.lineno)
            h = p.lookup_method(q, "__hash__")
            if h is not None and ok:
                _hash_body(ctx, q, h)
    return n


def _constructed_anywhere(p: Program, q: str) -> bool:
    short = q.split(".")[-1]
    for mod in p.modules.values():
        for nd in ast.walk(mod.tree):
            if isinstance(nd, ast.Call):
                dn = dotted(nd.func)
                if dn and dn.split(".")[-1] == short:
                    return True
    return False


def _hash_body(ctx, q: str, h: FuncInfo):
    """The hash must be a function of the instance's fields only (so that two equal
    handlers hit the same jit cache entry and different ones do not alias by id)."""
    p = ctx.p
    fields = {f.name for f in p.dataclass_fields(q)}
    used = set()
    generic = False
    for nd in ast.walk(h.node):
        if isinstance(nd, ast.Attribute) and isinstance(nd.value, ast.Name) and nd.value.id == "self":
            if nd.attr == "__dict__":
                generic = True
            else:
                used.add(nd.attr)
    bad = sorted(u for u in used if u not in fields)
    calls_id = any(isinstance(nd, ast.Call) and dotted(nd.func) == "id" for nd in ast.walk(h.node))
    ctx.ob("BIND-4", f"{q}: __hash__ is a function of the fields", not bad and not calls_id,
           (f"__hash__ reads unknown attributes {bad}" if bad else
            "hash depends on id()" if calls_id else
            ("hash(tuple(self.__dict__.values()))" if generic else f"uses {sorted(used)}")), h)


def bind5_stub(ctx, users: Iterable[str]) -> int:
    """Every method / attribute used on the communicator or the MPI module is provided,
    with a compatible signature, by config.not_a_comm / config.not_MPI."""
    p = ctx.p
    comm_cls = p.cls("config.not_a_comm")
    mpi_cls = p.cls("config.not_MPI")
    n = 0
    seen = set()
    for mname in users:
        mod = p.module(mname)
        for nd in ast.walk(mod.tree):
            if isinstance(nd, ast.Call) and isinstance(nd.func, ast.Attribute) and \
                    isinstance(nd.func.value, ast.Name) and nd.func.value.id == "comm":
                meth = nd.func.attr
                fi = p.lookup_method(comm_cls.qualname, meth)      # own or inherited from a base class of the stub
                kwn = [k.arg for k in nd.keywords if k.arg]
                key = (mname, meth, len(nd.args), tuple(kwn))
                if key in seen:
                    continue
                seen.add(key)
                n += 1
                if fi is None:
                    ctx.ob("BIND-5", f"{mname}: comm.{meth} provided by not_a_comm", False,
                           f"single-process stub has no method '{meth}'", mod=mname, line=nd.lineno)
                    continue
                ok, msg, _ = bind_call(fi, len(nd.args), kwn, True)
                ctx.ob("BIND-5", f"{mname}: comm.{meth}({len(nd.args)} args, {kwn}) binds to stub", ok,
                       msg or "binds", mod=mname, line=nd.lineno)
            if isinstance(nd, ast.Attribute) and isinstance(nd.value, ast.Name) and nd.value.id == "MPI":
                key = (mname, "MPI", nd.attr)
                if key in seen:
                    continue
                seen.add(key)
                n += 1
                ok = nd.attr in mpi_cls.class_attrs
                ctx.ob("BIND-5", f"{mname}: MPI.{nd.attr} provided by not_MPI", ok,
                       "present" if ok else f"not_MPI has no attribute '{nd.attr}'", mod=mname,
                       line=nd.lineno)
    return n
