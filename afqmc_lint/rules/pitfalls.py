"""Language-level pitfalls that break a property wherever they occur in the code it is anchored in.

CLO-1 (late-binding closure).  A lambda / nested def created once per iteration of a loop or comprehension, which
reads the iteration variable and *outlives its iteration* (it is the element of a list / set / dict comprehension, or
it is appended / stored into a container inside a for loop), sees the variable's LAST value when it is finally called:
all the collected functions are the same function.  `[lambda w: f(table[s], w) for s in range(2)]` applies table[1]
twice.  A closure that is called, or handed to a call that runs it (vmap, scan, map, sorted key ...), inside the
iteration that created it is fine and is not reported; binding the variable as a default (`lambda w, s=s: ..`) is the
idiomatic repair and is not reported either.

ITER-1 (one-shot iterator stored in a field).  self.<field> = <iterator> (itertools.product / chain, map, zip, filter,
a generator expression) stores an object that can be walked once: the second walk over the field is empty, and two
equal-looking objects compare and hash by identity.  A field is data; it has to be materialised (tuple(...) / list(...)).
"""
from __future__ import annotations

import ast
import json
import os
from typing import Dict, List, Optional, Set

from ..model import dotted

_PROPS = None


def _files_of(prop_id: str) -> List[str]:
    global _PROPS
    if _PROPS is None:
        _PROPS = {}
        path = os.path.join(os.path.dirname(os.path.dirname(os.path.dirname(os.path.abspath(__file__)))), "properties.jsonl")
        try:
            for line in open(path):
                line = line.strip()
                if line:
                    d = json.loads(line)
                    _PROPS[d["id"]] = [f for f in (d.get("anchors") or {}).get("files", []) if f.endswith(".py")]
        except OSError:
            pass
    return _PROPS.get(prop_id, [])


def _free_reads(fn: ast.AST) -> Set[str]:
    """names read inside a lambda / def that it does not bind itself (parameters, its own assignments)"""
    a = fn.args
    bound = {x.arg for x in a.posonlyargs + a.args + a.kwonlyargs}
    if a.vararg:
        bound.add(a.vararg.arg)
    if a.kwarg:
        bound.add(a.kwarg.arg)
    body = [fn.body] if isinstance(fn, ast.Lambda) else fn.body
    reads: Set[str] = set()
    for st in body:
        for n in ast.walk(st):
            if isinstance(n, ast.Name):
                if isinstance(n.ctx, ast.Store):
                    bound.add(n.id)
                else:
                    reads.add(n.id)
            elif isinstance(n, ast.comprehension):
                for t in ast.walk(n.target):
                    if isinstance(t, ast.Name):
                        bound.add(t.id)
    return reads - bound


def _targets(t: ast.AST) -> Set[str]:
    return {n.id for n in ast.walk(t) if isinstance(n, ast.Name)}


_WRAPPERS = {"vmap", "pmap", "jit", "checkpoint", "remat", "partial", "grad", "value_and_grad", "jacfwd", "jacrev",
             "custom_jvp", "custom_vjp", "wraps", "staticmethod", "classmethod"}


def late_binding_sites(fn_node: ast.AST) -> List[tuple]:
    """(line, loop variable, how it escapes) for every late-binding closure in one function"""
    out: List[tuple] = []

    def closures_in(expr: ast.AST):
        """lambdas that ARE the value of expr or sit in a display that is (not those that are called / passed on)"""
        if isinstance(expr, ast.Lambda):
            yield expr
        elif isinstance(expr, (ast.Tuple, ast.List, ast.Set)):
            for e in expr.elts:
                yield from closures_in(e)
        elif isinstance(expr, ast.Dict):
            for e in expr.values:
                if e is not None:
                    yield from closures_in(e)
        elif isinstance(expr, ast.IfExp):
            yield from closures_in(expr.body)
            yield from closures_in(expr.orelse)
        elif isinstance(expr, ast.Call) and expr.args and (dotted(expr.func) or "").split(".")[-1] in _WRAPPERS:
            # vmap(lambda ..) / jit(..) / partial(lambda .., a) wrap the function without running it
            yield from closures_in(expr.args[0])

    def visit(node: ast.AST, loop_vars: Set[str], local_defs: Dict[str, ast.AST]):
        for ch in ast.iter_child_nodes(node):
            if isinstance(ch, (ast.ListComp, ast.SetComp, ast.DictComp)):
                lv = set()
                for g in ch.generators:
                    lv |= _targets(g.target)
                elts = [ch.elt] if not isinstance(ch, ast.DictComp) else [ch.value]
                for e in elts:
                    for lam in closures_in(e):
                        hit = _free_reads(lam) & lv
                        if hit:
                            out.append((lam.lineno, sorted(hit)[0], "element of a comprehension"))
                visit(ch, loop_vars | lv, local_defs)
            elif isinstance(ch, ast.For):
                lv = _targets(ch.target)
                defs = dict(local_defs)
                for st in ch.body:
                    if isinstance(st, ast.FunctionDef):
                        defs[st.name] = st
                for st in ast.walk(ch):
                    # stored: x.append(<closure>) / x[k] = <closure> / x += [<closure>]
                    cands = []
                    if isinstance(st, ast.Expr) and isinstance(st.value, ast.Call) and isinstance(st.value.func, ast.Attribute) \
                            and st.value.func.attr in ("append", "add", "insert", "setdefault") and st.value.args:
                        cands = [st.value.args[-1]]
                    elif isinstance(st, ast.Assign) and any(isinstance(t, ast.Subscript) for t in st.targets):
                        cands = [st.value]
                    elif isinstance(st, ast.AugAssign) and isinstance(st.op, ast.Add):
                        cands = [st.value]
                    for c in cands:
                        for lam in closures_in(c):
                            hit = _free_reads(lam) & lv
                            if hit:
                                out.append((lam.lineno, sorted(hit)[0], "stored in a container inside the loop"))
                        if isinstance(c, ast.Name) and c.id in defs and defs[c.id] in ch.body:
                            hit = _free_reads(defs[c.id]) & lv
                            if hit:
                                out.append((defs[c.id].lineno, sorted(hit)[0], "stored in a container inside the loop"))
                visit(ch, loop_vars | lv, defs)
            elif isinstance(ch, (ast.FunctionDef, ast.AsyncFunctionDef, ast.Lambda)):
                visit(ch, set(), {})
            else:
                visit(ch, loop_vars, local_defs)

    visit(fn_node, set(), {})
    seen = set()
    uniq = []
    for o in out:
        if o[:2] not in seen:
            seen.add(o[:2])
            uniq.append(o)
    return uniq


_ITERATORS = {"itertools.product", "itertools.chain", "itertools.permutations", "itertools.combinations", "itertools.starmap",
              "itertools.accumulate", "itertools.islice", "builtins.map", "builtins.zip", "builtins.filter",
              "builtins.enumerate", "builtins.reversed", "builtins.iter", "map", "zip", "filter", "enumerate", "reversed", "iter"}


def run(ctx, prop_id: str) -> int:
    p = ctx.p
    files = _files_of(prop_id)
    n = 0
    for mod in p.modules.values():
        rel = mod.path if not os.path.isabs(mod.path) else os.path.relpath(mod.path, p.root) if hasattr(p, "root") else mod.path
        if not any(rel.endswith(f) or f.endswith(os.path.basename(mod.path)) for f in files):
            continue
        fis = list(mod.functions.values()) + [m for c in p.classes.values() if c.module == mod.name for m in c.methods.values()]
        for fi in fis:
            if isinstance(fi.node, ast.Lambda):
                continue
            n += 1
            for line, var, how in late_binding_sites(fi.node):
                ctx.ob("CLO-1", f"{fi.qualname}: no closure created per iteration outlives its iteration while reading the "
                       f"iteration variable", False,
                       f"the function at line {line} reads '{var}' and is {how}: every copy sees the last value of '{var}' "
                       f"(bind it, e.g. `lambda ..., {var}={var}: ...`)", fi, line, alias_exact=True)
            for line, ok_, txt in written_out_minors(fi.node):
                ctx.ob("MINOR-1", f"{fi.qualname}: the written-out 2 x 2 determinant at line {line} subtracts the cross "
                       f"pairing", ok_, txt if ok_ else f"{txt}: the subtracted product is not M[a,d] * M[c,b] for the rows and "
                       f"columns of the first product", fi, line, alias_exact=True)
            for st in ast.walk(fi.node):
                if isinstance(st, ast.Assign) and len(st.targets) == 1 and isinstance(st.targets[0], ast.Attribute) and \
                        isinstance(st.targets[0].value, ast.Name) and st.targets[0].value.id == "self":
                    v = st.value
                    bad = None
                    if isinstance(v, ast.GeneratorExp):
                        bad = "a generator expression"
                    elif isinstance(v, ast.Call):
                        fn = dotted(v.func) or ""
                        r = p.resolve_name(mod, fn) if fn else None
                        canon = r[1] if r and r[0] == "ext" else (f"builtins.{fn}" if fn in ("map", "zip", "filter", "enumerate",
                                                                                               "reversed", "iter") and r is None else fn)
                        if canon in _ITERATORS:
                            bad = f"{canon}(...)"
                    if bad:
                        ctx.ob("ITER-1", f"{fi.qualname}: self.{st.targets[0].attr} is stored as data, not as a one-shot iterator",
                               False, f"self.{st.targets[0].attr} = {bad}: exhausted after the first walk, compared and hashed "
                               f"by identity; materialise it with tuple(...) / list(...)", fi, st.lineno, alias_exact=True)
    # FWD-1: a parameter the function never reads, while it calls a package function that has a parameter of the same
    # name with a default and does not pass it: the caller's value is silently replaced by the callee's default
    # (a refactoring that moved the body into a helper and forgot to forward one argument)
    by_name: Dict[str, list] = {}
    for fi in list(p.functions.values()) + [m for c in p.classes.values() for m in c.methods.values()]:
        if not isinstance(fi.node, ast.Lambda):
            by_name.setdefault(fi.name, []).append(fi)
    for mod in p.modules.values():
        if not any(f.endswith(os.path.basename(mod.path)) for f in files):
            continue
        fis = list(mod.functions.values()) + [m for c in p.classes.values() if c.module == mod.name for m in c.methods.values()]
        for fi in fis:
            if isinstance(fi.node, ast.Lambda) or fi.is_abstract:
                continue
            reads = {n_.id for n_ in ast.walk(fi.node) if isinstance(n_, ast.Name) and isinstance(n_.ctx, ast.Load)}
            unused = [q.name for q in fi.params if q.name not in ("self", "cls") and q.name not in reads
                      and q.kind in ("pos", "kwonly")]
            if not unused:
                continue
            for call_ in ast.walk(fi.node):
                if not isinstance(call_, ast.Call):
                    continue
                nm = call_.func.id if isinstance(call_.func, ast.Name) else (
                    call_.func.attr if isinstance(call_.func, ast.Attribute) else None)
                cands = by_name.get(nm or "", [])
                if len(cands) != 1 or cands[0] is fi or any(isinstance(a_, ast.Starred) for a_ in call_.args) or \
                        any(k_.arg is None for k_ in call_.keywords):
                    continue
                g = cands[0]
                gp = [q for q in g.params if q.name not in ("self", "cls")]
                bound = {q.name for q in gp[:len(call_.args)] if q.kind == "pos"} | {k_.arg for k_ in call_.keywords}
                for u in unused:
                    tgt = [q for q in gp if q.name == u]
                    if tgt and tgt[0].has_default and u not in bound:
                        ctx.ob("FWD-1", f"{fi.qualname}: parameter '{u}' reaches the helper that takes it", False,
                               f"'{u}' is never read in {fi.name}, and its call of {g.qualname} (line {call_.lineno}) leaves the "
                               f"helper's own '{u}' at its default: the caller's value is ignored", fi, call_.lineno,
                               alias_exact=True)
    _fwd2(ctx, files, by_name)
    _more_pitfalls(ctx, prop_id, files, by_name)
    ctx.ob("CLO-1", f"{prop_id}: functions of the anchored files scanned for late-binding closures and iterator-valued fields",
           True, f"{n} functions", nontrivial=False)
    return n


def _fwd2(ctx, files, by_name):
    """FWD-2 (contradiction between call sites).  A package function has a defaulted parameter `u` that mirrors a field of
    the calling objects (`dt`, `n_walkers` ...).  If some method passes its own `self.u` for it and another method of a
    class that has the same field leaves the parameter to the helper's default, the second object is silently run with
    the default instead of its own setting -- right only while the field happens to hold the default value."""
    p = ctx.p

    def fields_of(cq: str) -> Set[str]:
        out: Set[str] = set()
        for q in (p.classes[cq].mro if cq in p.classes else []):
            ci = p.classes.get(q)
            if ci is not None:
                out |= {f.name for f in ci.own_fields}
        return out

    sites: Dict[tuple, list] = {}          # (callee qualname, param) -> [(caller fi, call node, 'self' / 'omitted' / 'other')]
    for fi in list(p.functions.values()) + [m for c in p.classes.values() for m in c.methods.values()]:
        if isinstance(fi.node, ast.Lambda) or fi.node is None:
            continue
        for call_ in ast.walk(fi.node):
            if not isinstance(call_, ast.Call):
                continue
            nm = call_.func.id if isinstance(call_.func, ast.Name) else (
                call_.func.attr if isinstance(call_.func, ast.Attribute) else None)
            cands = by_name.get(nm or "", [])
            if len(cands) != 1 or cands[0] is fi or any(isinstance(a_, ast.Starred) for a_ in call_.args) or \
                    any(k_.arg is None for k_ in call_.keywords):
                continue
            g = cands[0]
            gp = [q for q in g.params if q.name not in ("self", "cls")]
            for k_, q in enumerate(gp):
                if not q.has_default or q.kind not in ("pos", "kwonly"):
                    continue
                actual = None
                if q.kind == "pos" and k_ < len(call_.args):
                    actual = call_.args[k_]
                for kw_ in call_.keywords:
                    if kw_.arg == q.name:
                        actual = kw_.value
                if actual is None:
                    how = "omitted"
                elif isinstance(actual, ast.Attribute) and isinstance(actual.value, ast.Name) and actual.value.id == "self" \
                        and actual.attr == q.name:
                    how = "self"
                else:
                    how = "other"
                sites.setdefault((g.qualname, q.name), []).append((fi, call_, how))
    for (gq, u), lst in sorted(sites.items()):
        if not any(h == "self" for _, _, h in lst):
            continue
        for fi, call_, how in lst:
            if how != "omitted" or not fi.cls:
                continue
            mod = p.modules.get(fi.module)
            if mod is None or not any(f.endswith(os.path.basename(mod.path)) for f in files):
                continue
            cq = fi.cls if fi.cls in p.classes else f"{fi.module}.{fi.cls}"
            if u in fields_of(cq):
                passing = [f_.qualname for f_, _, h in lst if h == "self"][:2]
                ctx.ob("FWD-2", f"{fi.qualname}: its own '{u}' reaches {gq.split('.')[-1]}", False,
                       f"the call of {gq} at line {call_.lineno} leaves '{u}' at the helper's default although the object has a "
                       f"field '{u}' and {', '.join(passing)} pass self.{u}: this object is run with the default instead of "
                       f"its setting", fi, call_.lineno, alias_exact=True)


# parameters that are not read in the pinned tree, confirmed by reading: kept for call compatibility with a sibling entry
# point or an external interface.  (function, parameter): reason
_DEAD_PARAMS_CONFIRMED = {
    ("driver.fp_afqmc", "observable"): "same signature as driver.afqmc; free projection samples no observable",
    ("linalg_utils.modified_cholesky", "norb"): "historic argument, the size is taken from the matrix",
    ("pyscf_interface.getCollocationMatrices", "grid_level"): "grid built by the caller-supplied mol; level unused upstream",
    ("sampling.sampler.propagate_phaseless_ad_1", "coupling"): "one-argument AD variant differentiates w.r.t. the operator only",
    ("sampling.sampler.propagate_phaseless", "ham"): "same signature as the AD entry points, which rebuild intermediates",
    ("sampling.sampler.propagate_free", "ham"): "same signature as the AD entry points, which rebuild intermediates",
    ("wavefunctions.wave_function_auto._build_measurement_intermediates", "wave_data"): "AD trials need no half rotation",
    ("config.not_a_comm.Reduce", "op"): "serial stand-in for the MPI communicator",
    ("config.not_a_comm.Reduce", "root"): "serial stand-in for the MPI communicator",
    ("config.not_a_comm.Gather", "root"): "serial stand-in for the MPI communicator",
    ("config.not_a_comm.Scatter", "root"): "serial stand-in for the MPI communicator",
}


def _is_stub(node) -> bool:
    body = [st for st in node.body if not (isinstance(st, ast.Expr) and isinstance(st.value, ast.Constant))
            and not isinstance(st, ast.Pass)]
    if not body:
        return True
    if len(body) == 1 and isinstance(body[0], (ast.Pass, ast.Raise)):
        return True
    if len(body) == 1 and isinstance(body[0], ast.Return) and (body[0].value is None or isinstance(body[0].value, (
            ast.Constant, ast.Name, ast.Tuple, ast.List, ast.Dict))):
        return True          # returns a literal / hands an argument back: an interface default
    return False


def _is_jitted(fi) -> bool:
    for d in getattr(fi.node, "decorator_list", []):
        for n_ in ast.walk(d):
            if (isinstance(n_, ast.Name) and n_.id == "jit") or (isinstance(n_, ast.Attribute) and n_.attr == "jit"):
                return True
    return False


def _returns_value_everywhere(fi) -> bool:
    own = []

    def walk(n_):
        for c_ in ast.iter_child_nodes(n_):
            if isinstance(c_, (ast.FunctionDef, ast.AsyncFunctionDef, ast.Lambda)):
                continue
            if isinstance(c_, ast.Return):
                own.append(c_)
            walk(c_)
    walk(fi.node)
    return bool(own) and all(r.value is not None and not (isinstance(r.value, ast.Constant) and r.value.value is None)
                             for r in own)


_VALREF: Dict[int, Set[str]] = {}


def _value_referenced(p) -> Set[str]:
    """names of package functions that are stored somewhere as a value: an entry of a dict / list / tuple display, the right
    side of an assignment, a returned value, an arm of a conditional expression (a table of builders, a selected strategy).
    Handing a method to vmap / jit / scan does not count."""
    k = id(p)
    if k not in _VALREF:
        fn_names = {fi.name for fi in list(p.functions.values()) + [m for c in p.classes.values() for m in c.methods.values()]
                    if not isinstance(fi.node, ast.Lambda)}
        out: Set[str] = set()
        for mod in p.modules.values():
            for par in ast.walk(mod.tree):
                kids = []
                if isinstance(par, ast.Dict):
                    kids = list(par.values)
                elif isinstance(par, (ast.List, ast.Tuple, ast.Set)):
                    kids = list(par.elts)
                elif isinstance(par, (ast.Assign, ast.AnnAssign, ast.Return)) and par.value is not None:
                    kids = [par.value]
                elif isinstance(par, ast.IfExp):
                    kids = [par.body, par.orelse]
                for n in kids:
                    nm = n.id if isinstance(n, ast.Name) and isinstance(n.ctx, ast.Load) else (
                        n.attr if isinstance(n, ast.Attribute) and isinstance(n.ctx, ast.Load) else None)
                    if nm in fn_names:
                        out.add(nm)
        _VALREF.clear()
        _VALREF[k] = out
    return _VALREF[k]


_PURE_BUILTINS = {"range", "len", "int", "float", "abs", "min", "max", "sum", "zip", "enumerate", "tuple", "list", "dict", "set",
                  "isinstance", "sorted", "reversed", "round", "complex", "bool", "str", "divmod", "slice", "any", "all"}
_PURE_METHODS = {"reshape", "ravel", "conj", "conjugate", "dot", "transpose", "astype", "copy", "sum", "flatten", "squeeze",
                 "swapaxes", "mean", "trace", "diagonal", "item", "tolist", "any", "all", "max", "min", "argmax", "argmin",
                 "argsort", "cumsum", "prod", "std", "var", "round", "clip", "nonzero", "take", "repeat", "view", "get",
                 "keys", "values", "items", "index", "count", "split", "join", "format", "startswith", "endswith"}
_IMPURE_ARRAY_FUNCS = {"copyto", "put", "place", "putmask", "fill_diagonal", "save", "savez", "savetxt", "load", "loadtxt",
                       "seterr", "put_along_axis", "fromfile", "tofile", "memmap", "shuffle", "seed"}


def _effect_free(p, fi, depth: int = 0) -> bool:
    """Conservative: the function only binds local names and calls array-library / builtin functions known to be pure
    (or package functions that are effect-free themselves).  Any store into a subscript or attribute, any in-place
    operator on a parameter, any other call (print, file / MPI / h5py objects, unknown methods) makes it not effect-free."""
    if fi is None or depth > 2 or isinstance(fi.node, ast.Lambda) or fi.is_abstract or _is_stub(fi.node):
        return False                  # an empty hook is a place holder, not a lost update
    params = {q.name for q in fi.params}
    mod = p.modules[fi.module]
    for n_ in ast.walk(fi.node):
        if isinstance(n_, (ast.Global, ast.Nonlocal, ast.Yield, ast.YieldFrom, ast.Await, ast.With, ast.Raise, ast.Try, ast.Delete,
                           ast.Assert)):
            return False              # a validation helper (assert / raise) is called for its refusal, not for a value
        if isinstance(n_, (ast.Subscript, ast.Attribute)) and isinstance(getattr(n_, "ctx", None), (ast.Store, ast.Del)):
            return False
        if isinstance(n_, ast.AugAssign) and not (isinstance(n_.target, ast.Name) and n_.target.id not in params):
            return False
        if isinstance(n_, (ast.FunctionDef, ast.AsyncFunctionDef, ast.ClassDef)) and n_ is not fi.node:
            return False
        if isinstance(n_, ast.Call):
            if any(k_.arg == "out" for k_ in n_.keywords):
                return False
            dn = dotted(n_.func)
            r_ = p.resolve_name(mod, dn) if dn else None
            if r_ is not None and r_[0] == "ext":
                q_ = r_[1]
                if q_.split(".")[0] in ("numpy", "jax", "math", "scipy", "functools", "operator", "itertools") and \
                        q_.split(".")[-1] not in _IMPURE_ARRAY_FUNCS and ".random." not in q_ and not q_.startswith("numpy.random"):
                    continue
                return False
            if r_ is not None and r_[0] == "func":
                if _effect_free(p, p.functions.get(r_[1]), depth + 1):
                    continue
                return False
            if isinstance(n_.func, ast.Name) and n_.func.id in _PURE_BUILTINS and n_.func.id not in params:
                continue
            if isinstance(n_.func, ast.Attribute) and n_.func.attr in _PURE_METHODS and r_ is None:
                continue
            return False
    return True


def _more_pitfalls(ctx, prop_id, files, by_name):
    """DISCARD-1, PARAM-1, TRI-1 over the files the property is anchored in."""
    p = ctx.p
    for mod in p.modules.values():
        if not any(f.endswith(os.path.basename(mod.path)) for f in files):
            continue
        fis = list(mod.functions.values()) + [m for c in p.classes.values() if c.module == mod.name for m in c.methods.values()]
        for fi in fis:
            if isinstance(fi.node, ast.Lambda):
                continue
            # DISCARD-1: a jit-compiled function is pure -- whatever it does to its arguments happens on traced copies --
            # so a bare call statement of one that returns a value has no effect at all: the update it computes is lost
            for st in ast.walk(fi.node):
                if isinstance(st, ast.Expr) and isinstance(st.value, ast.Call):
                    f_ = st.value.func
                    nm = f_.id if isinstance(f_, ast.Name) else f_.attr if isinstance(f_, ast.Attribute) else None
                    cands = [c for c in by_name.get(nm or "", []) if c is not fi]
                    if isinstance(f_, ast.Attribute) and not (isinstance(f_.value, ast.Name) and f_.value.id in (
                            "self", "cls", "trial", "prop", "propagator", "ham", "sampler", "sr", "linalg_utils", "wavefunctions",
                            "propagation", "sampling", "hamiltonian", "stat_utils")):
                        # a method of some other object (list.append, comm.Barrier, fh5.create_dataset ...)
                        if not cands or not all(c.cls for c in cands):
                            continue
                    if cands and isinstance(f_, ast.Name) and all(c.cls is None for c in cands) and \
                            not all(_is_jitted(c) for c in cands) and all(
                            _effect_free(p, c) for c in cands):
                        ctx.ob("DISCARD-2", f"{fi.qualname}: the call of {nm} has an effect", False,
                               f"`{ast.unparse(st)[:70]}` is a bare call statement: {cands[0].qualname} neither stores into its "
                               f"arguments nor does anything else observable (it only binds local names and returns), so the "
                               f"call changes nothing and the result is dropped", fi, st.lineno, alias_exact=True)
                    if cands and all(_is_jitted(c) and _returns_value_everywhere(c) for c in cands):
                        ctx.ob("DISCARD-1", f"{fi.qualname}: the value returned by the jit-compiled {nm} is used", False,
                               f"`{ast.unparse(st)[:70]}` is a bare call statement: {cands[0].qualname} is jit-compiled (pure) and "
                               f"returns its result, so the call changes nothing and the result is dropped", fi, st.lineno,
                               alias_exact=True)
            # TRI-1: tril(X) + tril(X).T (both triangles taken with the diagonal) counts the diagonal twice
            for st in ast.walk(fi.node):
                if isinstance(st, ast.BinOp) and isinstance(st.op, ast.Add):
                    def tri_of(n_):
                        """(tri function name, unparsed operand) for tril(X) / triu(X) with the diagonal included"""
                        if isinstance(n_, ast.Call) and (dotted(n_.func) or "").split(".")[-1] in ("tril", "triu") and n_.args:
                            k_ = n_.args[1] if len(n_.args) > 1 else next((kw.value for kw in n_.keywords if kw.arg == "k"), None)
                            if k_ is None or (isinstance(k_, ast.Constant) and k_.value == 0):
                                return (dotted(n_.func) or "").split(".")[-1], ast.unparse(n_.args[0])
                        return None

                    def transposed(n_):
                        if isinstance(n_, ast.Attribute) and n_.attr in ("T", "mT"):
                            return n_.value
                        if isinstance(n_, ast.Call) and (dotted(n_.func) or "").split(".")[-1] in ("transpose", "swapaxes") and n_.args:
                            return n_.args[0]
                        if isinstance(n_, ast.Call) and isinstance(n_.func, ast.Attribute) and n_.func.attr in (
                                "transpose", "swapaxes"):
                            return n_.func.value
                        return None
                    for a_, b_ in ((st.left, st.right), (st.right, st.left)):
                        ta = tri_of(a_)
                        tb_src = transposed(b_)
                        tb = tri_of(tb_src) if tb_src is not None else None
                        if ta and tb and ta == tb:
                            ctx.ob("TRI-1", f"{fi.qualname}: a matrix rebuilt from one triangle counts its diagonal once", False,
                                   f"`{ast.unparse(st)[:80]}`: both {ta[0]}({ta[1]}) and its transpose contain the diagonal, which "
                                   f"is therefore doubled (the mirrored triangle must exclude it, k=-1 / k=1)", fi, st.lineno,
                                   alias_exact=True)
                            break
            # PARAM-1: a parameter that a function accepts and never reads
            if fi.is_abstract or _is_stub(fi.node):
                continue
            stubs_of = [g.name for g in list(p.functions.values()) + [m for c in p.classes.values() for m in c.methods.values()]
                        if getattr(g, "forwards_to", None) == fi.qualname]
            if fi.name in _value_referenced(p) or any(n_ in _value_referenced(p) for n_ in stubs_of):
                continue          # handed around as a value (a table of builders, a callback): its signature is the table's
            reads = {n_.id for n_ in ast.walk(fi.node) if isinstance(n_, ast.Name) and isinstance(n_.ctx, ast.Load)}
            dead = [q.name for q in fi.params if q.name not in ("self", "cls") and not q.name.startswith("_")
                    and q.name not in reads and q.kind in ("pos", "kwonly")]
            for u in dead:
                if (fi.qualname, u) in _DEAD_PARAMS_CONFIRMED:
                    continue
                # the body of a confirmed function may have been parked in a private implementation that its public name
                # only forwards to: the confirmation follows the body
                via = [g for g in list(p.functions.values()) + [m for c in p.classes.values() for m in c.methods.values()]
                       if getattr(g, "forwards_to", None) == fi.qualname]
                pos_u = [q.name for q in fi.params].index(u)
                if any(pos_u < len(g.params) and (g.qualname, g.params[pos_u].name) in _DEAD_PARAMS_CONFIRMED for g in via):
                    continue
                sibs = [g for g in by_name.get(fi.name, []) if g is not fi and g.cls and fi.cls and not g.is_abstract
                        and not _is_stub(g.node) and any(q.name == u for q in g.params)]
                if fi.cls and by_name.get(fi.name, []) != [fi] and not sibs:
                    continue          # an override whose siblings do not take / are stubs for this parameter
                if sibs:
                    readers = [g for g in sibs if u in {n_.id for n_ in ast.walk(g.node) if isinstance(n_, ast.Name)
                                                        and isinstance(n_.ctx, ast.Load)}]
                    if len(readers) != len(sibs):
                        continue      # not every sibling reads it either: not a rule for this parameter
                    why = f"every other implementation of {fi.name} ({', '.join(sorted({g.cls.split('.')[-1] for g in readers}))[:80]}) reads it"
                else:
                    why = "nothing else stands in for it"
                ctx.ob("PARAM-1", f"{fi.qualname}: parameter '{u}' is read", False,
                       f"'{u}' is accepted and never read in the body of {fi.name}; {why}: the caller's value has no effect",
                       fi, fi.node.lineno, alias_exact=True)


# ---------------------------------------------------------------------------------------------------------------------
# MUT-1 (the argument is the caller's object).  A function that is not traced by jit runs on the very objects it was
# handed: `param[k] = v`, `param[k] *= v`, `param.attr[k] = v` and the in-place operators on a NumPy *view* of such an
# object (`a = np.asarray(param.attr); a += b` -- asarray / ravel / reshape / .T / a plain attribute read do not copy)
# change what the caller keeps using after the call.  Used by the checks of the functions whose contract is "computes
# from its arguments" (the determinant-list readers, rotate_orbs, prep_afqmc); the rule instances are listed there.

_NONCOPY_CALLS = ("asarray", "asanyarray", "ravel", "reshape", "squeeze", "view", "atleast_1d", "atleast_2d", "transpose")
_INPLACE_METHODS = ("append", "extend", "update", "setdefault", "pop", "clear", "insert", "popitem", "sort", "reverse", "fill",
                    "remove", "add", "discard")


def _root_name(n: ast.AST) -> Optional[str]:
    while isinstance(n, (ast.Subscript, ast.Attribute)):
        n = n.value
    return n.id if isinstance(n, ast.Name) else None


def param_mutations(fn: ast.FunctionDef, params: Optional[Set[str]] = None, numpy_views: bool = False,
                    methods: bool = False) -> List[tuple]:
    """(line, text, parameter) of every statement of `fn` (nested defs excluded) that changes an object reachable from one
    of `params` (default: all parameters but self / cls) in place.  numpy_views: also follow local names bound to a
    non-copying view of such an object and report in-place operators / element stores on them.  methods: also report
    mutating container methods (append, update, ...) called on a parameter."""
    a = fn.args
    allp = {x.arg for x in a.posonlyargs + a.args + a.kwonlyargs} - {"self", "cls"}
    params = allp if params is None else (set(params) & allp)
    rebound: Set[str] = set()
    views: Dict[str, str] = {}
    same: Dict[str, str] = {}        # local name bound to the parameter object itself (cc = mf_or_cc)
    array_views: Set[str] = set()    # views made by an array call (asarray / reshape / ravel / .T): known to be arrays; a bare
    #                                  attribute read (n = mol.nelectron) may be a number, `n -= 1` then rebinds a local
    out: List[tuple] = []

    def par(r: Optional[str]) -> Optional[str]:
        if r is None:
            return None
        if r in params and r not in rebound:
            return r
        return same.get(r)

    def view_of(v: ast.AST) -> Optional[str]:
        """parameter whose storage the value `v` shares, if that can be read off the expression"""
        if isinstance(v, ast.Name):
            if v.id in params and v.id not in rebound:
                return None          # the object itself, not a view we track as numpy storage
            return views.get(v.id)
        if isinstance(v, ast.Attribute):
            if v.attr == "T":
                return view_of(v.value)
            return par(_root_name(v))
        if isinstance(v, ast.Call):
            fn_ = (dotted(v.func) or "")
            last = fn_.split(".")[-1]
            if last in _NONCOPY_CALLS:
                if isinstance(v.func, ast.Attribute) and not fn_.startswith(("np.", "numpy.", "jnp.", "jax.")):
                    return view_of(v.func.value)                 # x.reshape(...), x.ravel()
                if fn_.startswith(("np.", "numpy.")) and v.args:
                    return view_of(v.args[0])                    # np.asarray(x)
            return None
        return None

    def walk(stmts):
        for st in stmts:
            if isinstance(st, (ast.FunctionDef, ast.AsyncFunctionDef, ast.ClassDef)):
                continue
            if isinstance(st, ast.Assign):
                for tg in st.targets:
                    if isinstance(tg, ast.Name):
                        v = view_of(st.value) if numpy_views else None
                        whole = par(st.value.id) if isinstance(st.value, ast.Name) else None
                        same.pop(tg.id, None)
                        if whole is not None and tg.id != whole:
                            same[tg.id] = whole
                            views.pop(tg.id, None)
                        elif v is not None:
                            views[tg.id] = v
                            if isinstance(st.value, ast.Call) or (isinstance(st.value, ast.Attribute) and st.value.attr == "T") \
                                    or (isinstance(st.value, ast.Name) and st.value.id in array_views):
                                array_views.add(tg.id)
                            else:
                                array_views.discard(tg.id)
                        else:
                            views.pop(tg.id, None)
                            if tg.id in params:
                                rebound.add(tg.id)
                    elif isinstance(tg, ast.Subscript):
                        r = par(_root_name(tg))
                        if r is not None:
                            out.append((st.lineno, ast.unparse(tg)[:60] + " = ...", r))
                        elif numpy_views and isinstance(tg.value, ast.Name) and tg.value.id in views:
                            out.append((st.lineno, ast.unparse(tg)[:60] + " = ... (a view of " + views[tg.value.id] + ")",
                                        views[tg.value.id]))
            elif isinstance(st, ast.AugAssign):
                tg = st.target
                if isinstance(tg, ast.Subscript):
                    r = par(_root_name(tg))
                    if r is not None:
                        out.append((st.lineno, ast.unparse(st)[:70], r))
                    elif numpy_views and isinstance(tg.value, ast.Name) and tg.value.id in views:
                        out.append((st.lineno, ast.unparse(st)[:70] + " (a view of " + views[tg.value.id] + ")",
                                    views[tg.value.id]))
                elif isinstance(tg, ast.Name) and numpy_views and tg.id in views and tg.id in array_views:
                    out.append((st.lineno, ast.unparse(st)[:70] + f" ({tg.id} shares the storage of {views[tg.id]})", views[tg.id]))
                elif isinstance(tg, ast.Attribute):
                    r = par(_root_name(tg))
                    if r is not None and numpy_views:
                        out.append((st.lineno, ast.unparse(st)[:70], r))
            elif isinstance(st, ast.Expr) and methods and isinstance(st.value, ast.Call) and \
                    isinstance(st.value.func, ast.Attribute) and st.value.func.attr in _INPLACE_METHODS:
                r = par(_root_name(st.value.func.value))
                if r is not None:
                    out.append((st.lineno, ast.unparse(st.value)[:70], r))
            for fld in ("body", "orelse", "finalbody"):
                sub = getattr(st, fld, None)
                if isinstance(sub, list) and sub and isinstance(sub[0], ast.stmt):
                    walk(sub)
            for h in getattr(st, "handlers", []) or []:
                walk(h.body)
    walk(fn.body)
    return out


# ---------------------------------------------------------------------------------------------------------------------
# MINOR-1 (a written-out 2 x 2 determinant).  M[a, b] * M[c, d] - X * Y with four plain elements of one matrix is the
# minor on rows {a, c} and columns {b, d} exactly when {X, Y} == {M[a, d], M[c, b]}.  A second product that takes its
# indices from the same rows and columns but is not that cross pairing (an element repeated, a row used twice) is a
# positive witness of a slip in a hand-expanded determinant (Wick minors, overlap ratios of two-site updates).

def _elem(n: ast.AST):
    if isinstance(n, ast.Subscript) and isinstance(n.slice, ast.Tuple) and len(n.slice.elts) == 2 and \
            not any(isinstance(e, (ast.Slice, ast.Starred)) for e in n.slice.elts):
        return ast.unparse(n.value), ast.unparse(n.slice.elts[0]), ast.unparse(n.slice.elts[1])
    return None


def written_out_minors(fn: ast.AST) -> List[tuple]:
    """(line, ok, text) for every  M[a,b]*M[c,d] - M[..]*M[..]  in fn"""
    out = []
    for n in ast.walk(fn):
        if isinstance(n, ast.BinOp) and isinstance(n.op, ast.Sub) and isinstance(n.left, ast.BinOp) and \
                isinstance(n.left.op, ast.Mult) and isinstance(n.right, ast.BinOp) and isinstance(n.right.op, ast.Mult):
            es = [_elem(x) for x in (n.left.left, n.left.right, n.right.left, n.right.right)]
            if any(e is None for e in es) or len({e[0] for e in es}) != 1:
                continue
            (_, a, b), (_, c, d) = es[0], es[1]
            if a == c or b == d:
                continue                       # not a diagonal product of a 2 x 2 block
            rows, cols = {a, c}, {b, d}
            x, y = es[2], es[3]
            if not ({x[1], y[1]} <= rows and {x[2], y[2]} <= cols):
                continue                       # indices from elsewhere: some other formula
            want = {(a, d), (c, b)}
            got = {(x[1], x[2]), (y[1], y[2])}
            out.append((n.lineno, got == want, ast.unparse(n)[:110]))
    return out
