#!/venv/bin/python
"""Freeze the parameter names of the pinned tree: afqmc_lint/param_names.json  {qualname: [parameter names]}.

The rules refer to the arguments of the library's functions by the names they have in the pinned tree (walker_up,
ham_data, prop_data, ...).  The program model renames the parameters of every function it loads back to these names
(by qualified name, or by method name when the whole family agrees) before any rule runs, so that a package-wide rename
of an API parameter changes nothing for the rules.  Regenerate only from a tree whose checks are silent:
    tools/gen_param_names.py [--repo /repo]
"""
import ast, json, os, sys
sys.path.insert(0, os.path.dirname(os.path.dirname(os.path.abspath(__file__))))
os.environ["AFQMC_LINT_NO_PARAM_CANON"] = "1"
from afqmc_lint.model import Program  # noqa: E402

repo = sys.argv[sys.argv.index("--repo") + 1] if "--repo" in sys.argv else "/repo"
p = Program(repo, None)
out = {}
for fi in list(p.functions.values()) + [m for c in p.classes.values() for m in c.methods.values()]:
    if isinstance(fi.node, ast.Lambda) or fi.qualname.endswith(">"):
        continue
    out[fi.qualname] = [q.name for q in fi.params]
path = os.path.join(os.path.dirname(os.path.dirname(os.path.abspath(__file__))), "afqmc_lint", "param_names.json")
json.dump(dict(sorted(out.items())), open(path, "w"), indent=0)
print(len(out), "functions ->", path)
