#!/venv/bin/python
"""Copy confirmed behaviour-preserving changes from the sub-agents' output into /verif/benign/<Cxx-k>/.
usage: tools/benign_keep.py /tmp/benign   (needs patchK.diff, demoK.py, metaK.json, confirmK.txt with same=yes and tests ok)"""
import glob, json, os, re, shutil, sys
VERIF = os.path.dirname(os.path.dirname(os.path.abspath(__file__)))
src = sys.argv[1]
offset = int(sys.argv[2]) if len(sys.argv) > 2 and sys.argv[2].isdigit() else 0    # round 2: ids continue after round 1
force = set(a for a in sys.argv[2:] if not a.isdigit())
kept = 0
for out in sorted(glob.glob(os.path.join(src, "C??*.out"))):
    pid = os.path.basename(out)[:-4]
    for patch in sorted(glob.glob(os.path.join(out, "patch*.diff"))):
        k = re.search(r"patch(\w+)\.diff", patch).group(1)
        conf = os.path.join(out, f"confirm{k}.txt")
        line = [l for l in open(conf).read().splitlines() if "digest_lines=" in l] if os.path.exists(conf) else []
        ok = bool(line) and "1 failed, 40 passed" in line[0] and "failed=[FAILED tests/test_propagation.py::test_propagate ]" in line[0] \
            and ("same=yes" in line[0] or f"{pid}-{k}" in force)
        if not ok:
            print(f"{pid}-{k}: NOT confirmed: {line}")
            continue
        kk = str(int(k) + offset) if k.isdigit() else k
        d = os.path.join(VERIF, "benign", f"{pid}-{kk}")
        os.makedirs(d, exist_ok=True)
        shutil.copy(patch, os.path.join(d, "patch.diff"))
        shutil.copy(os.path.join(out, f"demo{k}.py"), os.path.join(d, "demo.py"))
        meta = json.load(open(os.path.join(out, f"meta{k}.json")))
        meta["confirmed"] = line[0].split(" ", 1)[1]
        meta["round"] = {0: 1, 4: 2, 8: 3}.get(offset, 1 + offset // 4)
        meta["origin"] = "behaviour-preserving edit written by an independent sub-agent that saw only the property text"
        json.dump(meta, open(os.path.join(d, "meta.json"), "w"), indent=1)
        kept += 1
print("kept", kept)
