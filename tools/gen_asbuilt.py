#!/venv/bin/python
"""Regenerate Appendix B of DESIGN.md (which check catches which change) from the machinery itself.

For every property: runs the analysis on /repo, runs the mutant self-test, and lists per mutant the rule(s)
that reported it; then lists every seeded change kept under /verif/seeded/ with the checks that report it
(from seeded/<id>/result.json, written by tools/seed_eval.py).  The text between the two markers in
DESIGN.md is replaced; nothing else in the file is touched.
"""
from __future__ import annotations

import glob
import json
import os
import sys

VERIF = os.path.dirname(os.path.dirname(os.path.abspath(__file__)))
sys.path.insert(0, VERIF)
os.chdir(VERIF)

from afqmc_lint.runner import PROPS, analyse, load_mutants, run_deep, selftest  # noqa: E402

BEGIN = "<!-- BEGIN GENERATED: catches (tools/gen_asbuilt.py) -->"
END = "<!-- END GENERATED: catches -->"


def rules_of(keys):
    out = []
    for k in keys:
        r = str(k).split(" / ")[0]
        if r not in out:
            out.append(r)
    return out


def main():
    lines = [BEGIN, "", "## Appendix B — which check catches which change (generated)", "",
             "Regenerate with `tools/gen_asbuilt.py`. Every row was produced by running the check on the "
             "changed source (self-test mutants: in-memory overlay of /repo's current file; seeded changes: "
             "`git -C /repo apply`, run, `git -C /repo checkout -- .`).", ""]
    import importlib
    from collections import Counter
    reps = {pid: analyse(pid, "/repo", None, "quick") for pid in sorted(PROPS)}
    lines += ["### B.0 What each check decides, as built (from the check modules and this run)", ""]
    for pid in sorted(PROPS):
        mod = importlib.import_module(f"afqmc_lint.props.{pid.lower()}")
        rep = reps[pid]
        cnt = Counter(o.rule for o in rep.obligations)
        lines.append(f"**{pid}** ({len(rep.obligations)} obligations: "
                     + ", ".join(f"{r} {n}" for r, n in cnt.most_common()) + ")")
        lines.append("")
        lines.append("*Decided:* " + " ".join(mod.EXPLANATION.split()))
        lines.append("")
        lines.append("*Not decided (no static claim):* " + " ".join(mod.NOT_DECIDED.split()))
        lines.append("")
    lines += ["### B.1 Self-test mutants (run on every thorough tier)", ""]
    for pid in sorted(PROPS):
        rep = reps[pid]
        st = selftest(pid, "/repo", rep, 16)
        muts = {m["id"]: m for m in load_mutants(pid)}
        lines.append(f"**{pid}** — {len(rep.obligations)} "
                     f"obligations on the current tree; {st['caught']}/{st['applicable']} mutants decided as expected"
                     f" ({st['benign_variants_silent']} behaviour-preserving variants must stay silent).")
        lines.append("")
        lines.append("| mutant | file | verdict | reported by |")
        lines.append("|---|---|---|---|")
        from_patches = [r for r in st["results"] if r["id"].startswith(("seed-", "benign-"))]
        if from_patches:
            ns = sum(1 for r in from_patches if r["id"].startswith("seed-"))
            ok_s = sum(1 for r in from_patches if r["id"].startswith("seed-") and r["verdict"] in ("caught", "caught-other"))
            nb = len(from_patches) - ns
            ok_b = sum(1 for r in from_patches if r["id"].startswith("benign-") and r["verdict"] == "silent-ok")
            lines.append(f"Of these, {len(from_patches)} are the sub-agents' patches replayed as overlays: {ok_s}/{ns} seeded "
                         f"changes reported, {ok_b}/{nb} behaviour-preserving changes silent (listed in B.2 / B.3, not "
                         f"repeated in the table below).")
            lines.append("")
        for r in st["results"]:
            if r["id"].startswith(("seed-", "benign-")):
                continue
            m = muts.get(r["id"], {})
            f = m.get("file") or ", ".join(sorted({e.get("file", "?") for e in m.get("edits", [])}))
            lines.append(f"| {r['id']} | {f.replace('ad_afqmc/', '')} | {r['verdict']} | "
                         f"{', '.join(rules_of(r['reported'])) or '—'} |")
        lines.append("")
    lines += ["### B.2 Seeded changes written by independent sub-agents (kept under /verif/seeded/)", ""]
    rows = []
    for d in sorted(glob.glob(os.path.join(VERIF, "seeded", "*"))):
        mp, rp = os.path.join(d, "meta.json"), os.path.join(d, "result.json")
        if not (os.path.exists(mp) and os.path.exists(rp)):
            continue
        meta, res = json.load(open(mp)), json.load(open(rp))
        det = res.get("detected_by", {})
        own = meta.get("property")
        what = meta.get("summary", "").replace("|", "/").replace("\n", " ")[:230]
        by = "; ".join(f"{c} ({', '.join(v.get('rules', [])) or 'rc=' + str(v.get('rc'))})" for c, v in sorted(det.items()))
        rows.append(f"| {os.path.basename(d)} | {own} | {what} | {by or '**not reported** — ' + res.get('note', '')} |")
    if rows:
        n_rep = sum(1 for r in rows if "**not reported**" not in r)
        lines += [f"{len(rows)} changes, {n_rep} reported by at least one check (exit 1 with a VIOLATION line naming the "
                  f"construct), {len(rows) - n_rep} not reported (why: DESIGN.md 9.7).  Ids -1..-3 are the first campaign, "
                  f"-4..-6 the second (written after the checks had been strengthened on the first).", "",
                  "| seeded id | target property | change | reported by |", "|---|---|---|---|"] + rows
    else:
        lines.append("(none kept yet)")
    lines += ["", "### B.3 Behaviour-preserving changes written by independent sub-agents (kept under /verif/benign/)", ""]
    brows = []
    for d in sorted(glob.glob(os.path.join(VERIF, "benign", "*"))):
        mp, rp = os.path.join(d, "meta.json"), os.path.join(d, "result.json")
        if not os.path.exists(mp):
            continue
        meta = json.load(open(mp))
        res = json.load(open(rp)) if os.path.exists(rp) else {}
        what = meta.get("summary", "").replace("|", "/").replace("\n", " ")[:200]
        alarms = "; ".join(sorted(res.get("alarms", {}))) if res else "?"
        brows.append(f"| {os.path.basename(d)} | {meta.get('kind', '')[:40]} | {what} | {alarms or 'all 20 checks silent'} |")
    if brows:
        n_sil = sum(1 for r in brows if r.endswith("all 20 checks silent |"))
        lines += [f"{len(brows)} changes (test suite unchanged, demo digests identical on clean and patched tree), "
                  f"{n_sil} leave all 20 checks silent.  Ids -1..-4: first campaign, -5..-8: second campaign (asked for "
                  f"more adventurous restructurings).", "",
                  "| id | kind | change | checks that alarm |", "|---|---|---|---|"] + brows
    lines += ["", END]
    p = os.path.join(VERIF, "DESIGN.md")
    s = open(p).read()
    if BEGIN in s:
        s = s[:s.index(BEGIN)] + "\n".join(lines) + s[s.index(END) + len(END):]
    else:
        s = s.rstrip("\n") + "\n\n" + "\n".join(lines) + "\n"
    open(p, "w").write(s)
    print("DESIGN.md appendix B regenerated:", len(lines), "lines")


if __name__ == "__main__":
    main()
