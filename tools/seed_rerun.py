#!/venv/bin/python
"""Re-evaluate every kept seeded change against the current checks and rewrite seeded/<id>/result.json.

For each /verif/seeded/<id>/patch.diff: git -C /repo apply, run the 20 quick checks (no evidence written),
git -C /repo checkout -- . ; result.json records which checks exit 1 (with the rules that reported) or exit 2.
usage: tools/seed_rerun.py [id-prefix ...]
"""
import glob, json, os, sys
sys.path.insert(0, os.path.dirname(os.path.abspath(__file__)))
from seed_eval import evaluate  # noqa: E402

VERIF = os.path.dirname(os.path.dirname(os.path.abspath(__file__)))
want = sys.argv[1:]
tot = det = own = 0
for d in sorted(glob.glob(os.path.join(VERIF, "seeded", "*"))):
    sid = os.path.basename(d)
    if want and not any(sid.startswith(w) for w in want):
        continue
    res = evaluate(os.path.join(d, "patch.diff"))
    by = {}
    for pid, rc, hits in res:
        if rc == 0:
            continue
        rules = []
        for h in hits:
            parts = h.split("  ")
            if len(parts) >= 2 and parts[1].strip() and parts[1].strip() not in rules and rc == 1:
                rules.append(parts[1].strip())
        by[pid] = {"rc": rc, "rules": rules, "first": hits[0][:300] if hits else ""}
    target = sid.split("-")[0]
    viol = {p: v for p, v in by.items() if v["rc"] == 1}
    status = "reported" if viol else ("analysis-error only" if by else "not reported")
    json.dump({"detected_by": by, "status": status, "target_reports": target in viol}, open(os.path.join(d, "result.json"), "w"), indent=1)
    tot += 1; det += bool(viol); own += target in viol
    print(f"{sid:8s} {status:20s} " + " ".join(f"{p}:{'/'.join(v['rules']) or 'rc2'}" for p, v in sorted(by.items())))
print(f"{det}/{tot} reported by some check (exit 1); {own}/{tot} by the check of the property they were written against")
