"""C12 -- all sampler entry points compute the same, correct block estimator."""

from __future__ import annotations

import ast
from typing import Dict

from ..model import AnalysisError
from ..rules import bind, common, entries, keys
from ..rules.match import m_arrcall, m_binop, m_cmp, m_where, product_factors, strip_real
from ..symex import (Evaluator, call_parts, const, func_name, getitem, show, strip_wrappers,
                     subterms, sym)

ID = "C12"
EXPLANATION = (
    "BIND-1/2/4: every in-package call in sampling.py, driver.py, hamiltonian.py and mpi_jax.py binds "
    "against every callee its receiver can dispatch to; jit static positions are exactly the hashable "
    "handlers; vmap/scan/jvp/vjp arities agree. SIB-1: each sampler entry point is reduced to its effect "
    "skeleton (Hamiltonian edit, optimize, measurement/propagation builders, overlap refresh, counters, "
    "scanned block function and length, estimator) and compared with the option semantics read from "
    "driver.afqmc's dispatch (orbital_rotation <=> optimize, do_sr <=> _sr_block_scan x n_sr_blocks, "
    "2rdm <=> Cholesky edit), so copy-and-edit divergence between the six entry points is reported. "
    "GUARD-1: energy samples reach the block average through real() and where(|e - e_est| > sqrt(2/dt), "
    "e_est, e). WMEAN-1: every weighted mean is normalised by the sum of the very weights under the "
    "numerator. PRNG-1/DET-1: random keys are used linearly and no wall-clock/global-RNG/hash source "
    "feeds the sampled computation. KEYS-1: every prop_data key the sampler reads is written by every "
    "propagator's init_prop_data or by the entry prologue. "
    "WMEAN-1: the block estimator averages over the stored population weights (no masked copy). DET-1: "
    "a user-supplied seed is kept for every value (get / setdefault / `not in`, never `or`). "
    " GUARD-1: the energy cap is computed from the propagator's own dt (prop.dt), not from a sampler attribute or a literal. DET-1: the Gaussian fields drawn for a block do not depend on n_batch (batching is an evaluation strategy; the shape handed to random.normal is (n_prop_steps, n_walkers, n_fields)). "
)
NOT_DECIDED = "numerical equality of the energies across entry points; bit-level reproducibility of XLA."

MODS = ["sampling", "driver", "hamiltonian", "mpi_jax"]
TECHNIQUE = ("static analysis: type-resolved call binding, effect-skeleton sibling comparison against the "
             "driver's dispatch, def-use guard/weighted-mean shape rules, linear key-use check")


def run(ctx):
    p = ctx.p
    n = bind.bind1(ctx, MODS)
    n += bind.bind2_decorators(ctx, ["sampling", "hamiltonian"])
    n += bind.bind2_transforms(ctx, ["sampling", "driver"])
    bind.bind4(ctx, ["sampling.sampler", "hamiltonian.hamiltonian", "propagation.propagator",
                     "wavefunctions.wave_function"])
    if n < 40:
        raise AnalysisError(f"BIND matched only {n} sites (expected > 40): anchors vanished")
    sib1(ctx)
    capping(ctx)
    wmeans(ctx)
    prng(ctx)
    keys1(ctx)
    seed_honoured(ctx)


def seed_honoured(ctx):
    """DET-1: a fixed seed means a fixed run: the set-up keeps whatever seed the user supplied (0 included) and the
    driver derives its key from options['seed'] and the rank only."""
    from .c16 import option_defaults_of
    rd = ctx.p.func("mpi_jax._prep_afqmc")
    ok = "seed" in option_defaults_of(rd, ctx.p)
    ctx.ob("DET-1", "_prep_afqmc: a user-supplied options['seed'] is kept for every value", ok,
           "options['seed'] = options.get('seed', <random default>)" if ok else
           "the seed is not defaulted with get / setdefault / `not in`: a falsy user seed (0) is replaced by a random one", rd)


def sib1(ctx):
    p = ctx.p
    disp, problems = entries.driver_dispatch(p)
    drv = p.func("driver.afqmc")
    ctx.ob("SIB-1", "driver.afqmc: option dispatch resolves for every (ad_mode, orbital_rotation, do_sr)",
           not problems and len(disp) == 12, "; ".join(problems) or f"{len(disp)} combinations", drv)
    sks: Dict[str, entries.EntrySkeleton] = {}

    def sk_of(name):
        if name not in sks:
            sks[name] = entries.skeleton(p, p.func(f"sampling.sampler.{name}"))
        return sks[name]

    plain = sk_of("propagate_phaseless")
    for (mode, rot, sr), (meth, amap) in sorted(disp.items()):
        fi = p.func(f"sampling.sampler.{meth}")
        sk = sk_of(meth)
        tag = f"ad_mode={mode}, orbital_rotation={rot}, do_sr={sr} -> {meth}"
        # argument binding of the wrapper
        okb = (amap.get("coupling") is sym("§coupling") and amap.get("observable_op") is sym("§operator")
               and amap.get("prop_data") is sym("§prop_data"))
        ctx.ob("BIND-2", f"driver.afqmc [{tag}]: differentiated arguments bind (coupling, observable_op, prop_data)",
               okb, "wrapper lambda forwards (x, y, z) to (coupling, observable_op, prop_data)" if okb else
               f"wrapper binds {dict((k, show(v, maxdepth=1)) for k, v in amap.items() if k in ('coupling', 'observable_op', 'prop_data'))}",
               drv)
        if not sk.ok_shape:
            ctx.ob("SIB-1", f"{meth}: entry-point shape", False, "; ".join(sk.problems), fi)
            continue
        if mode == "2rdm":
            ctx.ob("SIB-1", f"[{tag}]: 2-RDM mode edits the Cholesky vectors", sk.ham_edit == "chol",
                   f"Hamiltonian edit: {sk.ham_edit} {sk.ham_edit_detail}", fi)
            continue
        ctx.ob("SIB-1", f"[{tag}]: observable couples as h1 + coupling*observable_op", sk.ham_edit == "h1",
               f"Hamiltonian edit: {sk.ham_edit} {sk.ham_edit_detail}", fi)
        ctx.ob("SIB-1", f"[{tag}]: orbital relaxation <=> trial.optimize", sk.optimize == rot,
               f"optimize={'present' if sk.optimize else 'absent'}", fi)
        want_body = "_sr_block_scan" if sr else "_block_scan"
        ctx.ob("SIB-1", f"[{tag}]: reconfiguration <=> scanned block function", sk.body == want_body,
               f"scans {sk.body} (option semantics require {want_body})", fi)
    # per-entry invariants
    ci = p.cls("sampling.sampler")
    lengths = _block_lengths(ctx)
    for name in sorted(sks):
        sk = sks[name]
        fi = p.func(f"sampling.sampler.{name}")
        if not sk.ok_shape:
            continue
        ctx.ob("SIB-1", f"{name}: prologue refreshes overlaps, zeroes the kill counter, resets the shift",
               sk.refresh and sk.nk_init and sk.shift_init,
               f"refresh={sk.refresh} n_killed:=0 {sk.nk_init} shift:=e_estimate {sk.shift_init}", fi)
        ctx.ob("SIB-1", f"{name}: estimator is sum(block_energy*block_weight)/sum(block_weight)",
               sk.estimator_ok and sk.returns_pd, "; ".join(sk.problems) or "same scan outputs in numerator "
               "and denominator", fi)
        want_len = {"_sr_block_scan": "n_sr_blocks", "_block_scan": "n_ene_blocks"}.get(sk.body)
        ctx.ob("SIB-1", f"{name}: scan length matches the scanned block function",
               want_len is not None and sk.length == want_len,
               f"scan({sk.body}, length={sk.length})", fi)
        is_ad = name != "propagate_phaseless"
        if is_ad:
            ctx.ob("SIB-1", f"{name}: intermediates rebuilt from the edited Hamiltonian",
                   sk.meas_builder and sk.prop_builder and sk.wd_consistent and not sk.problems,
                   "; ".join(sk.problems) or "measurement then propagation intermediates, one wave_data", fi)
        else:
            ctx.ob("SIB-1", f"{name}: plain entry leaves the Hamiltonian untouched",
                   sk.ham_edit == "none" and not sk.optimize, f"edit={sk.ham_edit}", fi)
        # agreement with the plain entry on the shared parts
        same = (sk.refresh, sk.nk_init, sk.shift_init, sk.estimator_ok) == (
            plain.refresh, plain.nk_init, plain.shift_init, plain.estimator_ok)
        ctx.ob("SIB-1", f"{name}: prologue/estimator agree with propagate_phaseless", same,
               "identical skeleton on the shared parts" if same else "differs from the plain entry", fi)
    # every public AD entry is reachable from the dispatch (no orphan copy)
    used = {m for (m, _) in disp.values()}
    for name, fi in ci.methods.items():
        if name.startswith("propagate_phaseless_ad") and name not in used:
            ctx.ob("SIB-1", f"{name}: reachable from driver dispatch", False,
                   "AD entry point is never selected by driver.afqmc", fi)


def _block_lengths(ctx):
    return {}


def capping(ctx):
    """GUARD-1: large-deviation capping of the energy samples in the block function."""
    p = ctx.p
    fi = p.func("sampling.sampler._block_scan")
    ev = Evaluator(p)
    fr = ev.eval_function(fi)
    R = ev.result(fr)
    if R.op != "tuple":
        raise AnalysisError("_block_scan: unmodelled return")
    be = getitem(R.args[1], const(0))
    wm = common.wmean(be)
    if wm is None:
        ctx.ob("WMEAN-1", "sampler._block_scan: block energy is a weighted mean", False,
               f"block energy is {show(be, maxdepth=3)[:120]}", fi)
        return
    ok, msg, ns, d = wm
    ctx.ob("WMEAN-1", "sampler._block_scan: block energy normalised by the weights it averages over", ok,
           msg, fi)
    okp, msgp, _ = common.block_estimator_population(p)
    ctx.ob("WMEAN-1", "sampler._block_scan: the block estimator averages over the stored population weights", okp, msgp, fi)
    pd_w = None
    facs = [strip_wrappers(x) for x in product_factors(ns)]
    samples = [f for f in facs if f is not d]
    if len(samples) != 1:
        ctx.ob("GUARD-1", "sampler._block_scan: energy samples capped", False,
               "cannot isolate the energy-sample factor", fi)
        return
    s = samples[0]
    w = m_where(s)
    okg, why = False, "energy samples are not passed through a where(...) cap"
    if w is not None:
        c, a, b = w
        cm = m_cmp(c)
        if cm is not None and cm[0] in (">", ">="):
            dev = m_arrcall(cm[1], "abs")
            thr = cm[2]
            if dev is not None:
                diff = m_binop(dev[0], "-")
                est = None
                if diff is not None:
                    if diff[0] is b:
                        est = diff[1]
                    elif diff[1] is b:
                        est = diff[0]
                sq = m_arrcall(thr, "sqrt")
                thr_ok = False
                if sq is not None:
                    q = m_binop(sq[0], "/")
                    if q is not None and q[0].op == "const" and q[0].args[0] == 2.0 and \
                            q[1].op == "attr" and q[1].args[1] == "dt":
                        # the time step is the propagator's: the cap must read it from the propagator that took the steps
                        # (a copy kept on the sampler has a default of its own and other construction sites)
                        prm_ = [x.name for x in fi.params]
                        owner = strip_wrappers(q[1].args[0])
                        thr_ok = not (owner.op == "sym" and owner.args[0] == (prm_[0] if prm_ else "self"))
                if est is None:
                    why = "the cap does not test |e - e_estimate| of the samples it passes through"
                elif a is not est:
                    why = "the replacement value is not the estimate the deviation is measured from"
                elif not (est.op == "getitem" and est.args[1].op == "const" and est.args[1].args[0] == "e_estimate"):
                    why = f"deviation measured from {show(est, maxdepth=2)}, not prop_data['e_estimate']"
                elif not thr_ok:
                    why = f"threshold is {show(thr, maxdepth=3)}, expected sqrt(2.0 / prop.dt)"
                else:
                    core = b
                    real = strip_real(core)
                    if real is core:
                        why = "energy samples are not reduced to their real part before capping"
                    elif not (real.op == "call" and real.args[0].op == "attr" and real.args[0].args[1] == "calc_energy"):
                        why = "capped quantity is not trial.calc_energy(...)"
                    else:
                        okg, why = True, "where(|Re e - e_est| > sqrt(2/dt), e_est, Re e)"
        else:
            why = "cap condition is not a '>' comparison"
    ctx.ob("GUARD-1", "sampler._block_scan: energy samples capped at sqrt(2/dt) around e_estimate", okg, why, fi)
    # the auxiliary fields of a block are one draw whose shape is fixed by (steps, walkers, fields): the random stream must
    # not depend on how the walkers are split into batches
    from ..symex import match_scan, subterms as _sub3
    scans = [x for x in _sub3(R) if x.op == "call" and match_scan(x) is not None]
    dep = []
    for sc in scans:
        xs = match_scan(sc)[2]
        if xs is None or not hasattr(xs, "op"):
            continue
        if any(y.op == "attr" and y.args[1] == "n_batch" for y in _sub3(xs)):
            dep.append(show(xs, maxdepth=3)[:80])
    if scans:
        ctx.ob("DET-1", "sampler._block_scan: the fields handed to the step scan do not depend on n_batch", not dep,
               f"fields built from n_batch: {dep[:2]}" if dep else f"{len(scans)} step scan(s), fields independent of the batching",
               fi)
    # the energy is measured on the walkers whose weights are used
    bw = getitem(R.args[1], const(1))
    ctx.ob("WMEAN-1", "sampler._block_scan: reported block weight is the normaliser", _is_sum_of(bw, d),
           "block_weight = sum(weights)", fi)


def _is_sum_of(t, d) -> bool:
    a = common._sum_arg(strip_wrappers(t))        # jnp.sum(x) or x.sum()
    return a is not None and strip_wrappers(a) is d


def wmeans(ctx):
    """Every sum(a*w)/sum(w') in sampling.py and driver.afqmc's gather uses one weight vector."""
    p = ctx.p
    n = 0
    for q in ("sampling.sampler._block_scan_free", "driver.afqmc"):
        fi = p.func(q)
        ev, fr = common.eval_with_terms(p, fi)
        seen = set()
        k = 0
        for t in common.all_terms(ev):
            if t.uid in seen:
                continue
            seen.add(t.uid)
            wm = common.wmean(t)
            if wm is not None:
                ok, msg, ns, d = wm
                ctx.ob("WMEAN-1", f"{q}: weighted mean #{k}", ok, msg, fi, ev.line_of.get(t.uid, fi.lineno))
                k += 1
                n += 1
    if n < 2:
        raise AnalysisError("WMEAN-1 matched fewer than 2 sites in _block_scan_free / driver.afqmc")


def prng(ctx):
    p = ctx.p
    n = 0
    for fi in p.functions.values():
        if fi.module in ("sampling", "propagation") and any(
                isinstance(nd, ast.Attribute) and isinstance(nd.value, ast.Name)
                and nd.value.id == "random" for nd in ast.walk(fi.node)):
            common.prng1(ctx, fi)
            n += common.sampler_keys(ctx, fi)
    if n < 4:
        raise AnalysisError(f"PRNG-1 found {n} sampler calls in sampling/propagation (expected >= 4)")
    common.det1(ctx, ["sampling", "propagation", "wavefunctions", "sr", "hamiltonian", "linalg_utils"])


def keys1(ctx):
    p = ctx.p
    ka = keys.key_analysis(p)
    entries_ = [fi for n_, fi in p.cls("sampling.sampler").methods.items()
                if n_.startswith("propagate_")]
    props = [q for q in p.subclasses("propagation.propagator") if not p.abstract_methods(q)]
    external = {"key": "driver.afqmc / fp_afqmc set prop_data['key'] = PRNGKey(seed + rank)"}
    for fi in entries_:
        s = ka.summary(fi, "sampling.sampler")
        reads = {k: s.read_sites.get((pp, k)) for (pp, k) in s.reads if pp == "prop_data"}
        for P in props:
            init = p.lookup_method(P, "init_prop_data")
            w = ka.summary(init, P).returns.get(None, (None, frozenset()))[1]
            missing = sorted(k for k in reads if k not in w and k not in external)
            # reads made through the generic propagator interface may belong to another subclass;
            # restrict to reads made by sampler code itself or by this propagator's MRO
            mine = []
            for k in missing:
                site = reads[k]
                owner = site[0] if site else ""
                cls_of = ".".join(owner.split(".")[:2])
                if cls_of.startswith("propagation.") and cls_of not in p.classes[P].mro:
                    continue
                mine.append(f"{k} (read in {owner})")
            ctx.ob("KEYS-1", f"{fi.qualname} x {P}: prop_data keys read are initialised", not mine,
                   "missing: " + ", ".join(mine) if mine else f"{len(reads)} keys read, all written by "
                   f"{init.qualname} or the driver", fi)
