"""C13 -- orthonormalisation and initial walkers (structural clauses)."""

from __future__ import annotations

import ast

from ..model import AnalysisError
from ..rules import qr
from ..rules.match import m_arrcall, m_binop, m_cmp
from ..symex import (Evaluator, array_fn, call_parts, const, func_name, getitem, is_const, show,
                     strip_wrappers, subterms, sym)

ID = "C13"
EXPLANATION = (
    "PAIR-3: qr_vmap / qr_vmap_uhf return, per spin block, Q and prod(diag R) of one and the same "
    "factorisation of the input block; every orthonormalize_walkers / _orthogonalize_walkers stores "
    "element 0 (Q) of that call into the walkers slot (and, for the norm-keeping variant, returns element "
    "1). PATH-1 on wave_function.get_init_walkers: every path through the function ends in a return of a "
    "walker container replicated n_walkers times (one array when restricted, a two-element list "
    "otherwise) or in an explicit raise; in the restricted closed-shell branch every return is dominated "
    "by abs(det overlap) > threshold on the orbitals it returns and the failure path raises ValueError. "
    "GUARD-1: the accepted overlap of a restricted initial walker covers both spin sectors of the "
    "trial. "
    "PAIR-4: an eigh eigenvector matrix that reaches a returned walker is column-reversed, flipped or "
    "tail-sliced first (descending occupation); used in ascending order the leading columns are the least "
    "occupied ones. "
    ' ORTH-1: every orbital matrix get_init_walkers returns is orthonormal by construction (eigenvectors of a Hermitian matrix, the Q factor of a QR, a product of such); a sum / column-wise rescaling of orthonormal vectors with no QR after it is reported. '
    ' PAIR-3 judges on witnesses only: Q from another input, R of another factorisation, magnitude-only or trace-like norm factors, no factorisation at all, Q rephased by diag(R) with the unmodified R handed on; an orthonormalisation it cannot read (CholeskyQR, polar, Loewdin) is noted, not reported. '
)
NOT_DECIDED = (
    "orthonormality of Q, invariance of energy / force bias under QR, the overlap lower bound in the "
    "open-shell branch and the variational energy of the initial walkers are numerical."
)
TECHNIQUE = "static analysis: def-use pairing of QR outputs, structured path enumeration with path conditions"


def run(ctx):
    p = ctx.p
    n = 0
    for q in ("linalg_utils.qr_vmap", "linalg_utils.qr_vmap_uhf"):
        n += qr.pair3(ctx, p.func(q))
    # orthonormalize_walkers in every propagator class that defines it
    from ..rules import guard as G
    done = set()
    for cq in p.subclasses("propagation.propagator"):
        for mname in ("orthonormalize_walkers", "_orthogonalize_walkers"):
            # resolved through the MRO and evaluated for this class, helpers of the class inlined: an inherited
            # orthonormalize_walkers that delegates to the class's own _orthogonalize_walkers is judged as a whole
            fi = p.lookup_method(cq, mname)
            if fi is None or fi.is_abstract or fi.is_refusal():
                continue
            run_ = G.StepRun(p, fi, cq)
            R = run_.result
            if R is None:
                continue
            pd = R.args[0] if R.op == "tuple" else R
            pd0 = sym([x.name for x in fi.params if x.name != "self"][0])
            root = pd
            while root.op == "setitem":
                root = root.args[0]
            if mname.startswith("_") and root is not pd0:
                # the private helper no longer maps a walker-state dictionary to a walker-state dictionary (it returns
                # the factors themselves): what is stored is decided where its result is consumed -- the public
                # orthonormalize_walkers above and the free-projection step (C05) are judged with it evaluated in place
                ctx.rep.note(f"{cq.split('.')[-1]}.{mname}: does not take/return the walker-state dictionary; judged "
                             f"through its callers")
                continue
            W = strip_wrappers(getitem(pd, const("walkers")))
            ok, why = False, ""
            if W.op == "getitem" and is_const(W.args[1], 0) and W.args[0].op == "call" and \
                    (func_name(W.args[0]) or "").startswith("linalg_utils.qr_vmap"):
                arg = call_parts(W.args[0])[1][0]
                if arg is getitem(pd0, const("walkers")):
                    ok, why = True, "walkers := qr(walkers)[0]"
                else:
                    why = "QR applied to something other than the stored walkers"
            else:
                why = (f"walkers slot receives {show(W, maxdepth=2)[:80]} (the (Q, norms) tuple or "
                       f"another value), not element 0 of qr_vmap")
            tag = f"{cq.split('.')[-1]}.{mname}"
            if (tag, ok, why) in done:
                continue
            done.add((tag, ok, why))
            ctx.ob("PAIR-3", f"{tag}: stores the Q factor of the stored walkers", ok, why, fi)
            if R.op == "tuple" and len(R.args) == 2:
                nf = strip_wrappers(R.args[1])
                okn = nf.op == "getitem" and is_const(nf.args[1], 1) and W.op == "getitem" and \
                    nf.args[0] is W.args[0]
                ctx.ob("PAIR-3", f"{tag}: returns the norm factors of the same QR", okn,
                       "norms = qr(walkers)[1]" if okn else "norm factors come from a different call", fi)
            # container kind: the uhf variant for list walkers
            callee = func_name(W.args[0]) if (W.op == "getitem" and W.args[0].op == "call") else ""
            trot = p.lookup_method(cq, "_apply_trotprop")
            if trot is not None and callee:
                pair_cls = any(isinstance(nd, ast.Subscript) and isinstance(nd.value, ast.Name)
                               and nd.value.id == "walkers" and isinstance(nd.slice, ast.Constant)
                               and nd.slice.value in (0, 1) for nd in ast.walk(trot.node))
                ctx.ob("PAIR-3", f"{tag}: QR variant matches the walker container",
                       pair_cls == callee.endswith("_uhf"),
                       f"{callee} for {'[up, dn]' if pair_cls else 'single-array'} walkers", fi)
            n += 1
    if n < 5:
        raise AnalysisError("PAIR-3 matched fewer than 5 sites")
    init_walkers(ctx)
    rdm1_spin_components(ctx)


def rdm1_spin_components(ctx):
    """SYM-1: get_init_walkers takes the down walker from component 1 of the trial's 1-RDM.  A _calc_rdm1 that obtains
    its per-spin quantities from a helper with an (up, dn) pair of results must build component 1 from the dn result:
    returning the very same expression twice while the dn result exists hands get_init_walkers the up density matrix
    for both spins."""
    from ..symex import subterms
    p = ctx.p
    seen = set()
    for cq in p.subclasses("wavefunctions.wave_function"):
        fi = p.lookup_method(cq, "_calc_rdm1")
        if fi is None or fi.is_abstract or fi.qualname in seen:
            continue
        seen.add(fi.qualname)
        ev = Evaluator(p)
        ev.auto_inline_helpers = True
        try:
            fr = ev.eval_function(fi, self_class=cq)
        except Exception:
            continue
        for _, r_, _ in fr.returns:
            r_ = strip_wrappers(r_)
            a = m_arrcall(r_, "array", "asarray", "stack") if r_.op == "call" else None
            comps = strip_wrappers(a[0]) if a else r_
            if comps.op not in ("list", "tuple") or len(comps.args) != 2:
                continue
            up, dn = strip_wrappers(comps.args[0]), strip_wrappers(comps.args[1])
            pair_results = [x for x in subterms(up) if x.op == "getitem" and is_const(x.args[1], 0) and x.args[0].op == "call"
                            and not (func_name(x.args[0]) or "").startswith(("jax.numpy.", "numpy.", "jax.lax.", "jax.random."))
                            and array_fn(x.args[0]) is None]
            # the helper is a spin-resolved computation: both blocks X[0], X[1] of one input go into it
            def spin_resolved(call_):
                idx = {}
                for a_ in call_parts(call_)[1]:
                    for y in subterms(a_):
                        if y.op == "getitem" and y.args[1].op == "const" and y.args[1].args[0] in (0, 1) and type(y.args[1].args[0]) is int:
                            idx.setdefault(y.args[0].uid, set()).add(y.args[1].args[0])
                return any(v == {0, 1} for v in idx.values())
            pair_results = [x for x in pair_results if spin_resolved(x.args[0])]
            if up is dn and pair_results:
                ctx.ob("SYM-1", f"{fi.qualname}: the down-spin density matrix is built from the down-spin result", False,
                       f"both components are {show(up, maxdepth=2)[:70]}, which selects result [0] of "
                       f"{show(pair_results[0].args[0].args[0], maxdepth=1)[:50]}; its result [1] is never used", fi)
            elif pair_results:
                ctx.ob("SYM-1", f"{fi.qualname}: the down-spin density matrix is built from the down-spin result", True,
                       "components differ", fi)


def _replicated(t, count_sym) -> bool:
    """jnp.array([x] * n_walkers)"""
    t = strip_wrappers(t)
    m = m_binop(t, "*")
    if m is None:
        return False
    for a, b in ((m[0], m[1]), (m[1], m[0])):
        if a.op == "list" and len(a.args) == 1 and b is count_sym:
            return True
    return False


def init_walkers(ctx):
    p = ctx.p
    fi = p.func("wavefunctions.wave_function.get_init_walkers")
    ev = Evaluator(p)
    fr = ev.eval_function(fi)
    nw = sym("n_walkers")
    restricted = sym("restricted")
    ctx.ob("PATH-1", f"{fi.qualname}: no path falls off the end", not fr.fell_off_end,
           "every path returns or raises" if not fr.fell_off_end else
           "a path reaches the end of the function and returns None", fi)
    all_leaves = ev.leaves(fr)
    ret_leaves = [(pth, t_, ln) for pth, kind, t_, ln in all_leaves if kind == "return"]
    raise_leaves = [(pth, t_, ln) for pth, kind, t_, ln in all_leaves if kind == "raise"]
    ctx.ob("PATH-1", f"{fi.qualname}: leaves enumerated", len(all_leaves) >= 3, f"{len(ret_leaves)} returns, "
           f"{len(raise_leaves)} raises", fi, nontrivial=False)

    def polarity(path, cond_pred):
        for c, pol in path:
            if cond_pred(c):
                return pol
            if c.op == "unop" and c.args[0] == "not" and cond_pred(c.args[1]):
                return not pol
        return None

    # eigenvectors that define an occupation order are taken in *descending* eigenvalue order: eigh returns them
    # ascending, so each eigenvector matrix that reaches a returned walker is reversed ([:, ::-1], flip) or tail-sliced
    # ([:, -n:]) first.  In ascending order the leading columns -- the ones a restricted walker's dn block, or a
    # [:, :n] selection, keeps -- are the least occupied ones.
    def _descending(parent, child) -> bool:
        par = parent
        if par.op == "call" and ((array_fn(par) or "").split(".")[-1] in ("flip", "fliplr")):
            return True
        if par.op == "getitem" and par.args[0] is child:
            ix = par.args[1]
            # the column axis is the last one: [:, ::-1] on one matrix, [:, :, ::-1] / [..., ::-1] on a batch of them
            cols = ix.args[-1] if ix.op == "tuple" and len(ix.args) >= 2 and all(
                a_.op == "slice" and all(not hasattr(b_, "op") or (b_.op == "const" and b_.args[0] is None) for b_ in a_.args)
                or (a_.op == "const" and a_.args[0] is Ellipsis) for a_ in ix.args[:-1]) else None
            if cols is not None and cols.op == "slice" and len(cols.args) >= 2:
                lo, hi = cols.args[0], cols.args[1]
                st = cols.args[2] if len(cols.args) > 2 else None
                stv = st.args[0] if hasattr(st, "op") and st.op == "const" else st
                if stv == -1:
                    return True
                neg = hasattr(lo, "op") and ((lo.op == "unop" and lo.args[0] == "-") or
                                             (lo.op == "const" and isinstance(lo.args[0], int) and lo.args[0] < 0))
                hi_none = not hasattr(hi, "op") or (hi.op == "const" and hi.args[0] is None)
                if neg and hi_none:
                    return True
        return False

    # x[:, -n:] keeps *all* columns when n == 0 (-0 is 0): a tail slice must not be bounded by an electron count, which
    # is zero for a fully polarised system
    zero_tail = []
    for path, term, line in ret_leaves:
        for x in subterms(term):
            if x.op == "getitem" and x.args[1].op in ("tuple", "slice"):
                sls = x.args[1].args if x.args[1].op == "tuple" else (x.args[1],)
                for sl_ in sls:
                    if hasattr(sl_, "op") and sl_.op == "slice" and len(sl_.args) >= 2:
                        lo_ = sl_.args[0]
                        if hasattr(lo_, "op") and lo_.op == "unop" and lo_.args[0] == "-" and any(
                                y.op == "attr" and y.args[1] == "nelec" for y in subterms(lo_.args[1])):
                            zero_tail.append((line, show(x.args[1])[:50]))
    ctx.ob("PAIR-4", f"{fi.qualname}: no tail slice [-n:] bounded by an electron count (n = 0 would keep every column)",
           not zero_tail, f"tail slices by nelec: {zero_tail[:3]}" if zero_tail else "column selections use [:n]", fi)
    vec_uses, asc = 0, []
    for path, term, line in ret_leaves:
        sub = list(subterms(term))
        vecs = [x for x in sub if x.op == "getitem" and x.args[1].op == "const" and x.args[1].args[0] == 1 and
                strip_wrappers(x.args[0]).op == "call" and (array_fn(strip_wrappers(x.args[0])) or "").split(".")[-1] == "eigh"]
        for v in vecs:
            parents = [y for y in sub if any(a is v for a in y.args if hasattr(a, "op"))]
            for par in parents:
                vec_uses += 1
                if not _descending(par, v):
                    asc.append((line, show(par, maxdepth=2)[:70]))
    if vec_uses:
        ctx.ob("PAIR-4", f"{fi.qualname}: eigenvector columns enter the walkers in descending-eigenvalue (occupation) order",
               not asc, f"{vec_uses} use(s) of eigh eigenvectors reversed or tail-sliced" if not asc else
               f"used in ascending order (leading columns = least occupied): {asc[:3]}", fi)
    else:
        ctx.rep.note(f"{fi.qualname}: no eigh eigenvector matrix reaches a returned walker; ordering rule not applicable")

    # ORTH-1: the columns of a returned walker are orthonormal by construction (eigenvectors of a Hermitian matrix,
    # the Q factor of a QR, a product of such with a unitary).  Positive witness: the returned orbitals are a sum /
    # rescaling of orthonormal vectors that no QR follows (normalising column by column does not make them orthogonal).
    def _is_zero_const(x):
        x = strip_wrappers(x)
        return x.op == "const" and isinstance(x.args[0], (int, float, complex)) and x.args[0] == 0

    def orth(t, depth=0):
        t = strip_wrappers(t)
        if depth > 12:
            return None
        if t.op == "getitem":
            b = strip_wrappers(t.args[0])
            if b.op == "call":
                fn_ = (array_fn(b) or "").split(".")[-1]
                if fn_ == "eigh" and t.args[1].op == "const" and t.args[1].args[0] == 1:
                    return True
                if fn_ == "qr" and t.args[1].op == "const" and t.args[1].args[0] == 0:
                    return True
            if t.args[1].op in ("tuple", "slice"):
                return orth(b, depth + 1)
            return None
        if t.op == "binop":
            o, l, r = t.args
            if o in ("+", "-"):
                if _is_zero_const(l):
                    return orth(r, depth + 1)
                if _is_zero_const(r):
                    return orth(l, depth + 1)
                ol, orr = orth(l, depth + 1), orth(r, depth + 1)
                if ol is not None or orr is not None or any(orth(x, depth + 1) for x in _vec_factors(l) + _vec_factors(r)):
                    return False
                return None
            if o == "@":
                ol, orr = orth(l, depth + 1), orth(r, depth + 1)
                return True if ol and orr else None     # a product can re-orthonormalise (X (X^T X)^-1/2): no witness
            if o in ("/", "*"):
                ol = orth(l, depth + 1)
                orr = orth(r, depth + 1) if o == "*" else None
                other = r if ol is not None else l
                if (ol is not None or orr is not None) and strip_wrappers(other).op != "const":
                    return False
                return None
            return None
        if t.op == "call":
            fn_ = (array_fn(t) or "").split(".")[-1]
            f_, pos_, _ = call_parts(t)
            if fn_ in ("matmul", "dot") and len(pos_) == 2:
                ol, orr = orth(pos_[0], depth + 1), orth(pos_[1], depth + 1)
                return True if ol and orr else None     # a product can re-orthonormalise (X (X^T X)^-1/2): no witness
            if f_.op == "attr" and f_.args[1] == "dot" and len(pos_) == 1:
                ol, orr = orth(f_.args[0], depth + 1), orth(pos_[0], depth + 1)
                return True if ol and orr else None     # a product can re-orthonormalise (X (X^T X)^-1/2): no witness
        return None

    def _vec_factors(t):
        """array operands of an einsum / product that scales columns"""
        t = strip_wrappers(t)
        if t.op == "call" and (array_fn(t) or "").split(".")[-1] == "einsum":
            return [x for x in call_parts(t)[1][1:]]
        if t.op == "binop" and t.args[0] == "*":
            return [t.args[1], t.args[2]]
        return []

    def walker_cores(t):
        """the orbital matrices replicated into the returned container"""
        out = []
        t = strip_wrappers(t)
        if t.op == "list" and len(t.args) == 2 and not _replicated_list(t):
            for x in t.args:
                out += walker_cores(x)
            return out
        for x in subterms(t):
            if x.op == "list" and len(x.args) == 1:
                out.append(x.args[0])
        return out

    def _replicated_list(t):
        return False

    seen_cores = set()
    for path, term, line in ret_leaves:
        for c in walker_cores(term):
            c0 = strip_wrappers(c)
            if c0.uid in seen_cores:
                continue
            seen_cores.add(c0.uid)
            v = orth(c0)
            if v is False:
                ctx.rep.ob("ORTH-1", f"{fi.qualname}: returned orbitals are orthonormal by construction", False,
                           f"{show(c0, maxdepth=3)[:90]} is a sum / rescaling of orthonormal vectors with no QR after it: the "
                           f"columns are normalised at best, not orthogonal", p.modules[fi.module].path, line)
            elif v is True:
                ctx.rep.ob("ORTH-1", f"{fi.qualname}: returned orbitals are orthonormal by construction", True,
                           "eigenvectors / Q factor / product with a unitary", p.modules[fi.module].path, line)

    is_restricted = lambda c: c is restricted
    for k, (path, term, line) in enumerate(ret_leaves):
        pol = polarity(path, is_restricted)
        t = strip_wrappers(term)
        if any(x.op in ("loopout", "havoc") for x in subterms(t)):
            # the container is filled by a loop over a list chosen earlier (single-exit form): the value is not a display
            # this rule can read; recorded, not judged
            ctx.rep.note(f"{fi.qualname}: return #{k} (line {line}) is built by a loop over a selected list; the container-kind "
                         f"and acceptance-test rules are not applied to it")
            continue
        if pol is True:
            ok = _replicated(t, nw)
            msg = "one array replicated n_walkers times" if ok else \
                f"restricted branch returns {show(t, maxdepth=2)[:80]}"
        elif pol is False:
            t = term  # a list, not an array of the two blocks: dispatch is on the container type
            ok = t.op == "list" and len(t.args) == 2 and all(_replicated(x, nw) for x in t.args)
            msg = "[up, dn], each replicated n_walkers times" if ok else \
                f"unrestricted branch returns {show(t, maxdepth=2)[:80]}"
        else:
            ok, msg = False, "return not under the restricted/unrestricted split"
        ctx.rep.ob("PATH-1", f"{fi.qualname}: return #{k} is a walker container of the requested kind", ok,
                   msg, p.modules[fi.module].path, line)
        # accept tests in the closed-shell restricted branch
        dets = [(c, pol_) for c, pol_ in path
                if (cm := m_cmp(c)) is not None and cm[0] in (">", ">=")
                and m_arrcall(strip_wrappers(cm[1]), "abs") is not None]
        closed = any(pol_ and (cm := m_cmp(c)) is not None and cm[0] == "==" and
                     "nelec" in show(c) for c, pol_ in path)
        if pol is True and closed:
            accepted = [c for c, pol_ in dets if pol_]
            ctx.rep.ob("GUARD-1", f"{fi.qualname}: return #{k} passed an overlap acceptance test",
                       len(accepted) == 1, "abs(det overlap) > threshold holds on this path"
                       if len(accepted) == 1 else "closed-shell restricted return without a passed "
                       "abs(det) > threshold test", p.modules[fi.module].path, line)
            if len(accepted) == 1:
                # the accepted determinant is built from the orbitals returned
                orbs = [x for x in subterms(t) if x.op == "list" and len(x.args) == 1]
                ret_orb = strip_wrappers(orbs[0].args[0]) if orbs else None
                m = m_binop(ret_orb, "+") if ret_orb is not None else None
                if m is not None:      # orbitals + 0.0j  (either order)
                    non_const = [strip_wrappers(x_) for x_ in m if strip_wrappers(x_).op != "const"]
                    core = non_const[0] if len(non_const) == 1 else strip_wrappers(m[0])
                else:
                    core = ret_orb
                tested = accepted[0]
                dets = [x for x in subterms(tested) if x.op == "call" and
                        (func_name(x) or "").endswith("linalg.det")]
                def base(x):
                    x = strip_wrappers(x)
                    for _ in range(6):
                        if x.op == "attr" and x.args[1] in ("T", "real"):
                            x = strip_wrappers(x.args[0])
                        elif x.op == "getitem" and x.args[1].op in ("tuple", "slice"):
                            x = strip_wrappers(x.args[0])
                        elif x.op == "call" and x.args[0].op == "attr" and x.args[0].args[1] == "conj":
                            x = strip_wrappers(x.args[0].args[0])
                        else:
                            break
                    return x

                def operands(d):
                    a = strip_wrappers(call_parts(d)[1][0])
                    m2 = m_binop(a, "@")
                    return [base(m2[0]), base(m2[1])] if m2 is not None else [base(a)]

                if core is None or not dets:
                    ctx.rep.note(f"{fi.qualname}: return #{k}: the returned block is not of the form array([orbitals] * n) "
                                 f"or the test has no determinant; the tested-orbitals rule does not apply")
                    continue
                uses = core is not None and bool(dets) and all(
                    any(y is base(core) for y in operands(d)) for d in dets)
                ctx.rep.ob("GUARD-1", f"{fi.qualname}: return #{k} returns the orbitals that were tested",
                           uses, "tested determinant is built from the returned orbitals" if uses else
                           "the acceptance test looks at other orbitals than the ones returned",
                           p.modules[fi.module].path, line)
                # the trial overlap of a restricted walker phi is det(up^T phi) * det(dn^T phi): the test must see
                # both spin sectors (a sector whose natural orbitals are returned unchanged contributes det = 1)
                def spin_root(x):
                    for y in subterms(x):
                        if y.op == "call" and (func_name(y) or "").split(".")[-1] in ("eigh", "_eigh"):
                            a = strip_wrappers(call_parts(y)[1][0])
                            if a.op == "getitem" and a.args[1].op == "const" and a.args[1].args[0] in (0, 1):
                                return a.args[1].args[0]
                    # one batched decomposition of both spin blocks: eigh(rdm1)[1][<column reversal>][s]
                    for y in subterms(x):
                        if y.op == "getitem" and y.args[1].op == "const" and y.args[1].args[0] in (0, 1) and \
                                not isinstance(y.args[1].args[0], bool):
                            b = strip_wrappers(y.args[0])
                            while b.op == "getitem" and b.args[1].op in ("tuple", "slice"):
                                b = strip_wrappers(b.args[0])
                            if b.op == "getitem" and b.args[1].op == "const" and b.args[1].args[0] == 1 and \
                                    strip_wrappers(b.args[0]).op == "call" and \
                                    (func_name(strip_wrappers(b.args[0])) or "").split(".")[-1] in ("eigh", "_eigh"):
                                return y.args[1].args[0]
                    return None

                seen = set()
                for d in dets:
                    for y in operands(d):
                        if y is base(core):
                            continue
                        sr = spin_root(y)
                        if sr is not None:
                            seen.add(sr)
                own = spin_root(base(core)) if core is not None and not any(
                    z.op == "call" and (func_name(z) or "").endswith("linalg.qr") for z in subterms(base(core))) else None
                need = {0, 1} - ({own} if own is not None else set())
                ctx.rep.ob("GUARD-1", f"{fi.qualname}: return #{k}: the accepted overlap covers both spin sectors of the trial",
                           need <= seen, f"determinants against the natural orbitals of spin(s) {sorted(seen)}; "
                           f"needed {sorted(need)}", p.modules[fi.module].path, line)
    for k, (path, term, line) in enumerate(raise_leaves):
        t = strip_wrappers(term)
        is_ve = t.op == "call" and func_name(t) == "builtins.ValueError"
        rejected = [c for c, pol_ in path if (cm := m_cmp(c)) is not None and cm[0] in (">", ">=")
                    and not pol_]
        if is_ve and len(rejected) < 2:
            # the refusal is reached through a flag / a None test set by the searches (single-exit form): the failed
            # comparisons are not on its path condition; that it is the explicit ValueError is what is decided
            ctx.rep.note(f"{fi.qualname}: failure #{k} is raised under a condition that does not name the acceptance tests "
                         f"({len(rejected)} visible); only the exception type is judged")
            ctx.rep.ob("PATH-1", f"{fi.qualname}: failure #{k} is an explicit ValueError", True,
                       f"raise {show(t, maxdepth=1)[:60]}", p.modules[fi.module].path, line)
            continue
        ctx.rep.ob("PATH-1", f"{fi.qualname}: failure #{k} is an explicit ValueError after every test failed",
                   is_ve and len(rejected) >= 2, f"raise {show(t, maxdepth=1)[:60]} after "
                   f"{len(rejected)} failed acceptance tests", p.modules[fi.module].path, line)
    if not raise_leaves:
        ctx.ob("PATH-1", f"{fi.qualname}: generator refuses explicitly when no good orbitals exist", False,
               "no raise statement left: the failing branch returns walkers with vanishing overlap or None", fi)
