#!/venv/bin/python
"""Re-evaluate every kept seeded change against the check of the property it was written against (and only that one),
in memory and in parallel, and bring seeded/<id>/result.json up to date for that check.

usage: tools/seeded_own_rerun.py [id-prefix ...]        [REPO=<clean checkout>, JOBS=16]

The entries of the other 19 checks in result.json are left as the last full run (tools/overlay_rerun.py seeded) wrote them;
result.json records under "own_check_rerun" that the own-check entry is newer.  Used when there is no time for the
full 390 x 20 run: the self-test overlays (tools/patch_to_mutant.py) only need the own-check verdicts.
"""
import glob, json, os, sys
from concurrent.futures import ProcessPoolExecutor

VERIF = os.path.dirname(os.path.dirname(os.path.abspath(__file__)))
sys.path.insert(0, VERIF)
sys.path.insert(0, os.path.join(VERIF, "tools"))
from overlay_rerun import overlay_of, task      # noqa: E402


def main():
    want = sys.argv[1:]
    dirs = [d for d in sorted(glob.glob(os.path.join(VERIF, "seeded", "*")))
            if not want or any(os.path.basename(d).startswith(w) for w in want)]
    tasks = []
    for d in dirs:
        sid = os.path.basename(d)
        ov = overlay_of(os.path.join(d, "patch.diff"))
        if ov is None:
            print(f"{sid:8s} PATCH DOES NOT APPLY")
            continue
        tasks.append((sid, sid.split("-")[0], ov))
    changed = 0
    with ProcessPoolExecutor(int(os.environ.get("JOBS", "16"))) as ex:
        for sid, pid, rc, rules, first in ex.map(task, tasks, chunksize=2):
            f = os.path.join(VERIF, "seeded", sid, "result.json")
            try:
                r = json.load(open(f))
            except Exception:  # noqa
                r = {"detected_by": {}}
            by = r.get("detected_by", {})
            before = by.get(pid, {}).get("rc", 0)
            if rc:
                by[pid] = {"rc": rc, "rules": rules, "first": first}
            else:
                by.pop(pid, None)
            viol = {p: v for p, v in by.items() if v["rc"] == 1}
            r["detected_by"] = by
            r["status"] = "reported" if viol else ("analysis-error only" if by else "not reported")
            r["target_reports"] = pid in viol
            r["own_check_rerun"] = True
            json.dump(r, open(f, "w"), indent=1)
            if (before == 1) != (rc == 1):
                changed += 1
                print(f"{sid:8s} own check {pid}: {'now reports ' + '/'.join(rules) if rc == 1 else 'no longer reports'}"
                      + (f" (rc={rc} {first[:120]})" if rc == 2 else ""))
    tot = det = own = 0
    for d in dirs:
        try:
            r = json.load(open(os.path.join(d, "result.json")))
        except Exception:  # noqa
            continue
        tot += 1
        det += r.get("status") == "reported"
        own += bool(r.get("target_reports"))
    print(f"{changed} own-check verdict(s) changed; {det}/{tot} reported by some check, {own}/{tot} by their own check")


if __name__ == "__main__":
    main()
