#!/venv/bin/python
"""Copy confirmed seeded changes from the sub-agents' output directories into /verif/seeded/<Cxx-k>/.

usage: tools/seed_keep.py /tmp/seed [id-offset]   (looks for Cxx.out/{patchK.diff,demoK.py,metaK.json,confirmK.txt})
A change is kept only if its confirmation line says: clean HOLDS, patched VIOLATED, tests '1 failed, 40 passed'
with tests/test_propagation.py::test_propagate as the only failure.
"""
import glob, json, os, re, shutil, sys

VERIF = os.path.dirname(os.path.dirname(os.path.abspath(__file__)))
src = sys.argv[1]
offset = int(sys.argv[2]) if len(sys.argv) > 2 else 0     # round 2: ids continue after the first round (k + 3)
kept = 0
for out in sorted(glob.glob(os.path.join(src, "C??*.out"))):
    pid = os.path.basename(out)[:-4]
    for patch in sorted(glob.glob(os.path.join(out, "patch*.diff"))):
        k = re.search(r"patch(\w+)\.diff", patch).group(1)
        conf = os.path.join(out, f"confirm{k}.txt")
        if not os.path.exists(conf):
            print(f"{pid}-{k}: no confirmation, skipped"); continue
        line = [l for l in open(conf).read().splitlines() if "clean=[" in l]
        ok = bool(line) and "clean=[DEMO RESULT: HOLDS]" in line[0] and "patched=[DEMO RESULT: VIOLATED]" in line[0] \
            and "1 failed, 40 passed" in line[0] and "failed=[FAILED tests/test_propagation.py::test_propagate ]" in line[0]
        if not ok:
            print(f"{pid}-{k}: NOT confirmed: {line}"); continue
        kk = str(int(k) + offset) if k.isdigit() else k
        d = os.path.join(VERIF, "seeded", f"{pid}-{kk}")
        os.makedirs(d, exist_ok=True)
        shutil.copy(patch, os.path.join(d, "patch.diff"))
        shutil.copy(os.path.join(out, f"demo{k}.py"), os.path.join(d, "demo.py"))
        meta = json.load(open(os.path.join(out, f"meta{k}.json")))
        meta["confirmed"] = line[0].split(" ", 1)[1]
        meta["round"] = {0: 1, 3: 2, 6: 3}.get(offset, 1 + offset // 3)
        meta["origin"] = "written by an independent sub-agent that saw only the property text and a scratch worktree"
        json.dump(meta, open(os.path.join(d, "meta.json"), "w"), indent=1)
        kept += 1
print("kept", kept)
